#!/usr/bin/env python3-vt
"""tools/gen_prompts.py <seed|benign> <round tag> [--no-worktrees]

Writes one prompt per property to /tmp/<kind>prompts<tag>/<Cnn>.txt for the independent sub-agents of a seeding round (breaking
changes) or a refactoring round (behaviour-preserving changes) and creates a scratch worktree of /repo HEAD for each
(/tmp/seedwt<tag>-Cnn resp. /tmp/benignwt<tag>-Cnn).  The prompts contain only the text of the property and what earlier rounds
already produced - nothing of /verif.  The worktrees are removed by the intake step's caller (`git -C /repo worktree remove --force`).
"""
import glob, json, os, subprocess, sys

ROOT = os.path.dirname(os.path.dirname(os.path.abspath(__file__)))
kind, tag = sys.argv[1], sys.argv[2]
make_wt = "--no-worktrees" not in sys.argv
props = {json.loads(l)["id"]: json.loads(l) for l in open(os.path.join(ROOT, "properties.jsonl"))}

SEED_HINT = ("Good places to look this time: the error and rejection paths (what state is left behind, which exception type / message, what is NOT emitted); a value that is converted between "
             "two representations (int <-> enum member, str <-> Register, virtual <-> physical id, tuple key <-> two arguments) at a boundary between two modules; an API variant, flavour, "
             "role or instruction that the obvious tests never use; behaviour that depends on the ORDER of two or more earlier operations (a second connection, a re-used socket id, a flush "
             "between two steps, an application stopped and started again); a default value, class attribute or module constant shared between instances; a loop bound, slice or comparison "
             "that is off by exactly one case. A change inside a small helper that several mechanisms share is better than one in the function everybody reads.")

BENIGN_KINDS = """  - change where behaviour lives in the class structure: move a method body into a private mixin / base class that the class inherits from, turn a group of related private methods into a small strategy object stored on the instance, replace an isinstance chain by functools.singledispatch or a dict keyed by type with an MRO walk, turn a property into a method called at its (few) use sites or the reverse (keeping public names);
  - iterator style: explicit iter()/next() with a sentinel, itertools (count, takewhile, dropwhile, accumulate, groupby, zip_longest, product), enumerate(start=...), reversed ranges, generator expressions passed to any/all/sum/min/max with key functions, a generator pipeline instead of one loop with several ifs;
  - state handling: several related attributes gathered into a small private dataclass (mutable) held in one attribute, or such a dataclass dissolved into attributes; a dict of lists replaced by collections.defaultdict / deque where exactly equivalent; tuple keys <-> nested dicts; cached locals for repeatedly read attributes (only where nothing can change them in between);
  - error handling written differently: a validation block moved into a private `_check_...` function that raises, `raise ... from None` is NOT allowed (changes the traceback chain), but try/finally for clean-up, contextlib.suppress for an ignored KeyError, `else:` blocks on try / for / while, reordering of independent validations is NOT allowed when they can both fail;
  - expression style: chained comparisons, conditional expressions <-> if statements, `x if x is not None else y` helpers, de Morgan rewrites, arithmetic rewritten (`(i + 1) * k` <-> `i * k + k`, divmod, bit shifts for powers of two), str.format / f-strings / % formatting exchanged with identical output, sorted(...) with key instead of manual search;
  - module structure: a long function split into three private functions passing a small context object, private module-level helper functions turned into staticmethods of the class that uses them (or the reverse), constants derived from others (`LEN = len(FIELDS)`)."""


def common(wt, pid, own):
    return f"""You are helping to test a verification effort for the open-source Python project QuTech-Delft/netqasm (a quantum-network instruction set with a Python SDK, assembler/encoder, NV transpiler and a base executor).

You have your own scratch git worktree of the repository at {wt} (already created). Do ALL your work there. Never modify /repo. Do not read, list or use anything under /verif (it is off limits; your work must be independent of it).

Python interpreter: /venv/bin/python. Always run from inside the worktree with PYTHONPATH set so the worktree's code is imported, e.g. `cd {wt} && PYTHONPATH={wt} /venv/bin/python -c 'import netqasm; print(netqasm.__file__)'` must print a path under {wt}.
The pinned test suite: `cd {wt} && PYTHONPATH={wt} /venv/bin/python -m pytest -q -p no:cacheprovider --timeout=900 --continue-on-collection-errors` -> "171 passed" (the 21 collection errors under tests/test_external are expected: an external simulator is not installed). There is no network.
IMPORTANT: never use `git stash` (the stash is shared between all scratch worktrees and other agents run concurrently). To switch between the clean and the changed tree use `git diff > /tmp/{own}-{pid}.patch; git apply -R /tmp/{own}-{pid}.patch` (clean) and `git apply /tmp/{own}-{pid}.patch` (changed). Keep your scratch files under /tmp/{own}-{pid}-* and remove them when you are done (except the patch).
"""


out_dir = f"/tmp/{kind}prompts{tag}"
os.makedirs(out_dir, exist_ok=True)
taken = {}
for m in sorted(glob.glob(os.path.join(ROOT, "seeded", "*", "meta.json"))):
    d = json.load(open(m))
    taken.setdefault(d["property"], []).append(d.get("description") or os.path.basename(os.path.dirname(m)))
for pid, p in props.items():
    wt = f"/tmp/{kind}wt{tag}-{pid}"
    if make_wt:
        subprocess.run(["git", "-C", "/repo", "worktree", "remove", "--force", wt], capture_output=True)
        subprocess.check_call(["git", "-C", "/repo", "worktree", "add", "-q", "--detach", wt, "HEAD"])
    mech = "; ".join(m["name"] + " (" + m.get("where", "") + ")" for m in p["anchors"].get("mechanism", []))
    if kind == "seed":
        tk = "\n".join("  - " + t for t in taken.get(pid, [])) or "  (none yet)"
        text = common(wt, pid, f"own{tag}") + f"""
PROPERTY {pid}: {p['title']}
Statement: {p['statement']}
Quantified over: {p['quantifier']['text']}
Why the existing tests cannot settle it: {p['why_tests_cant']}
Relevant files: {', '.join(p['anchors']['files'])}
Mechanisms meant to make it hold: {mech}

Earlier rounds already produced the following breaking changes for this property; yours must be DIFFERENT IN KIND: a different function, mechanism or clause of the property - not a variation of these:
{tk}

TASK: make ONE small, realistic change to the netqasm source in your worktree - the kind of regression a maintainer could plausibly introduce during a refactor, optimisation, clean-up or feature tweak - that BREAKS this property while the code still imports and the whole pinned test suite still passes (171 passed). Prefer a change that needs something specific to manifest (a multi-step sequence of operations, an unusual input or operand value, a particular interleaving/arrival order, a rarely used instruction or API variant, or two cooperating sites that each look fine alone) rather than one ordinary use would expose at once. {SEED_HINT} Subtle is better than blunt: think of changes that look correct on review. Do NOT edit anything under tests/. Keep the diff small (ideally under 15 changed lines).

Then write a demonstration: a small standalone program `demo.py` in the worktree root that prints PASS and exits 0 on the unmodified code, and prints FAIL (or raises) and exits non-zero with your change. It may drive the real netqasm code any way it likes (no simulator is available; `netqasm.sdk.connection.DebugConnection`, `netqasm.backend.executor.Executor`, the parsers/encoders etc. work stand-alone).

Verify all of this yourself: clean tree -> run demo (PASS); changed tree -> run demo (FAIL) -> run the test suite (171 passed). Before finishing check that `git diff` contains exactly your own change.

Deliver: leave the change as UNCOMMITTED modifications in the worktree plus the untracked demo.py. Do not commit. Reply with: (1) a short description of the change and why it breaks the property, (2) what it needs in order to manifest, (3) the exact commands you ran with their results (demo on clean tree, demo on changed tree, test-suite summary line). Keep the reply under 400 words."""
    else:
        text = common(wt, pid, f"benign{tag}") + f"""
PROPERTY {pid}: {p['title']}
Statement: {p['statement']}
Relevant files: {', '.join(p['anchors']['files'])}
Mechanisms that make it hold: {mech}

TASK: the property must KEEP holding. Make a realistic, BEHAVIOUR-PRESERVING refactoring of the code that implements the mechanisms above - the kind of clean-up a maintainer would merge. Four earlier rounds already did: tiny private helper classes bundling values with one or two methods, generator functions instead of returned lists, while <-> for, zip / islice instead of index arithmetic, dict merges, functools.partial, dispatch tables, assertions rewritten as raises, and before that: extracting / inlining private helpers (also NamedTuples, closures, context managers, **kwargs helpers), early returns, tuple isinstance, swapped `is None` branches, loops <-> comprehensions, elif chains <-> lookup tables, `get` <-> `in`, enumerate / zip, reordered independent statements, join / format / f-strings, flags <-> for/else, keyword arguments, annotations, walrus, `next(...)` / `any` / `all`, `+=` / extend / unpacking, named constants and import-time tables, nested <-> compound conditions, conditional expressions, try/except <-> tests. This time use DIFFERENT kinds of edits again, for example:
{BENIGN_KINDS}
Combine 4 to 7 such edits (40-100 changed lines in total) inside the relevant files, concentrated on the functions that implement the mechanisms. The observable behaviour (returned values, emitted instructions and their order, bytes, exceptions and their types and messages, state left behind also on error paths) must be EXACTLY the same for every input, including unusual ones (0 values, None, negative numbers, empty lists, several objects alive at once). Do not rename or change the signature of any existing function, method, class or attribute (new private helpers are fine), keep Python 3.8 compatibility, and do not touch tests/.

Then write `demo.py` in the worktree root: a standalone program that exercises the refactored code paths on a range of inputs (including error paths) and compares the results with expected values recorded from the UNMODIFIED code; it prints PASS and exits 0 on both the unmodified and the refactored tree.

Verify: refactored tree -> demo PASS and the full test suite 171 passed; `git diff > /tmp/benign{tag}-{pid}.patch; git apply -R /tmp/benign{tag}-{pid}.patch` -> demo PASS on the original too; `git apply /tmp/benign{tag}-{pid}.patch` to restore your refactoring. Re-read your diff critically once more for any behavioural difference (truthiness vs `is None`, evaluation order of side effects, exceptions on error paths, aliasing of mutable objects, values read before vs after a mutation) and fix it if you find one.

Deliver: leave the refactoring as UNCOMMITTED modifications in the worktree plus the untracked demo.py. Do not commit. Reply (under 300 words) with: the list of edits (function by function), why each preserves behaviour, and the commands you ran with results."""
    open(os.path.join(out_dir, f"{pid}.txt"), "w").write(text)
print(out_dir, len(os.listdir(out_dir)), "prompts")
