#!/usr/bin/env python3-vt
"""tools/gen_prompts.py <seed|benign> <round tag> [--no-worktrees]

Writes one prompt per property to /tmp/<kind>prompts<tag>/<Cnn>.txt for the independent sub-agents of a seeding round (breaking
changes) or a refactoring round (behaviour-preserving changes) and creates a scratch worktree of /repo HEAD for each
(/tmp/seedwt<tag>-Cnn resp. /tmp/benignwt<tag>-Cnn).  The prompts contain only the text of the property and what earlier rounds
already produced - nothing of /verif.  The worktrees are removed by the intake step's caller (`git -C /repo worktree remove --force`).
"""
import glob, json, os, subprocess, sys

ROOT = os.path.dirname(os.path.dirname(os.path.abspath(__file__)))
kind, tag = sys.argv[1], sys.argv[2]
make_wt = "--no-worktrees" not in sys.argv
props = {json.loads(l)["id"]: json.loads(l) for l in open(os.path.join(ROOT, "properties.jsonl"))}

SEED_HINT = ("Good places to look this time: the error and rejection paths (what state is left behind, which exception type / message, what is NOT emitted); a value that is converted between "
             "two representations (int <-> enum member, str <-> Register, virtual <-> physical id, tuple key <-> two arguments) at a boundary between two modules; an API variant, flavour, "
             "role or instruction that the obvious tests never use; behaviour that depends on the ORDER of two or more earlier operations (a second connection, a re-used socket id, a flush "
             "between two steps, an application stopped and started again); a default value, class attribute or module constant shared between instances; a loop bound, slice or comparison "
             "that is off by exactly one case. A change inside a small helper that several mechanisms share is better than one in the function everybody reads.")

BENIGN_KINDS = """  - helper classes with protocol methods: a small private class with `__iter__` / `__len__` / `__getitem__` / `__contains__` / `__bool__`-free truth (explicit len tests) that wraps a list or dict the code used directly; a `typing.NamedTuple` subclass with one or two methods instead of loose tuples; alternative constructors as `@classmethod`s;
  - closures with state: a counter or accumulator kept in an enclosing function through `nonlocal`, lambdas that capture a loop value through a default argument, a small factory function returning a configured inner function instead of repeating arguments;
  - standard-library helpers where exactly equivalent: `functools.reduce`, `operator.add` / `eq` / `not_`, `collections.Counter` / `OrderedDict` / `ChainMap`, `dict.setdefault` / `dict.fromkeys`, dictionary inversion by comprehension, `bisect` over a sorted tuple of thresholds instead of an if-chain on ranges, `str.partition` / `rpartition` / `split(maxsplit=...)` instead of index arithmetic on strings;
  - dynamic dispatch: `getattr(self, "_handle_" + kind)(...)` over methods named systematically (keeping every existing method name), a registry dict filled by a small decorator at import time, `__init_subclass__`-free class registries built by a loop over `__subclasses__()`;
  - control flow through exceptions and finally: `try/finally` for a restore step that was written twice, a private exception class used for an early exit from nested loops (caught in the same function), `for ... else` / `while ... else`;
  - data flow: intermediate results passed as a small dict or tuple instead of several locals, star-unpacking (`first, *rest = ...`, `f(*args, **kwargs)`), swapping via tuple assignment, chained assignment, augmented assignment on attributes and subscripts, conditional imports moved to module level (only if the import has no side effect)."""


def common(wt, pid, own):
    return f"""You are helping to test a verification effort for the open-source Python project QuTech-Delft/netqasm (a quantum-network instruction set with a Python SDK, assembler/encoder, NV transpiler and a base executor).

You have your own scratch git worktree of the repository at {wt} (already created). Do ALL your work there. Never modify /repo. Do not read, list or use anything under /verif (it is off limits; your work must be independent of it).

Python interpreter: /venv/bin/python. Always run from inside the worktree with PYTHONPATH set so the worktree's code is imported, e.g. `cd {wt} && PYTHONPATH={wt} /venv/bin/python -c 'import netqasm; print(netqasm.__file__)'` must print a path under {wt}.
The pinned test suite: `cd {wt} && PYTHONPATH={wt} /venv/bin/python -m pytest -q -p no:cacheprovider --timeout=900 --continue-on-collection-errors` -> "171 passed" (the 21 collection errors under tests/test_external are expected: an external simulator is not installed). There is no network.
IMPORTANT: never use `git stash` (the stash is shared between all scratch worktrees and other agents run concurrently). To switch between the clean and the changed tree use `git diff > /tmp/{own}-{pid}.patch; git apply -R /tmp/{own}-{pid}.patch` (clean) and `git apply /tmp/{own}-{pid}.patch` (changed). Keep your scratch files under /tmp/{own}-{pid}-* and remove them when you are done (except the patch).
"""


out_dir = f"/tmp/{kind}prompts{tag}"
os.makedirs(out_dir, exist_ok=True)
taken = {}
for m in sorted(glob.glob(os.path.join(ROOT, "seeded", "*", "meta.json"))):
    d = json.load(open(m))
    taken.setdefault(d["property"], []).append(d.get("description") or os.path.basename(os.path.dirname(m)))
for pid, p in props.items():
    wt = f"/tmp/{kind}wt{tag}-{pid}"
    if make_wt:
        subprocess.run(["git", "-C", "/repo", "worktree", "remove", "--force", wt], capture_output=True)
        subprocess.check_call(["git", "-C", "/repo", "worktree", "add", "-q", "--detach", wt, "HEAD"])
    mech = "; ".join(m["name"] + " (" + m.get("where", "") + ")" for m in p["anchors"].get("mechanism", []))
    if kind == "seed":
        tk = "\n".join("  - " + t for t in taken.get(pid, [])) or "  (none yet)"
        text = common(wt, pid, f"own{tag}") + f"""
PROPERTY {pid}: {p['title']}
Statement: {p['statement']}
Quantified over: {p['quantifier']['text']}
Why the existing tests cannot settle it: {p['why_tests_cant']}
Relevant files: {', '.join(p['anchors']['files'])}
Mechanisms meant to make it hold: {mech}

Earlier rounds already produced the following breaking changes for this property; yours must be DIFFERENT IN KIND: a different function, mechanism or clause of the property - not a variation of these:
{tk}

TASK: make ONE small, realistic change to the netqasm source in your worktree - the kind of regression a maintainer could plausibly introduce during a refactor, optimisation, clean-up or feature tweak - that BREAKS this property while the code still imports and the whole pinned test suite still passes (171 passed). Prefer a change that needs something specific to manifest (a multi-step sequence of operations, an unusual input or operand value, a particular interleaving/arrival order, a rarely used instruction or API variant, or two cooperating sites that each look fine alone) rather than one ordinary use would expose at once. {SEED_HINT} Subtle is better than blunt: think of changes that look correct on review. Do NOT edit anything under tests/. Keep the diff small (ideally under 15 changed lines).

Then write a demonstration: a small standalone program `demo.py` in the worktree root that prints PASS and exits 0 on the unmodified code, and prints FAIL (or raises) and exits non-zero with your change. It may drive the real netqasm code any way it likes (no simulator is available; `netqasm.sdk.connection.DebugConnection`, `netqasm.backend.executor.Executor`, the parsers/encoders etc. work stand-alone).

Verify all of this yourself: clean tree -> run demo (PASS); changed tree -> run demo (FAIL) -> run the test suite (171 passed). Before finishing check that `git diff` contains exactly your own change.

Deliver: leave the change as UNCOMMITTED modifications in the worktree plus the untracked demo.py. Do not commit. Reply with: (1) a short description of the change and why it breaks the property, (2) what it needs in order to manifest, (3) the exact commands you ran with their results (demo on clean tree, demo on changed tree, test-suite summary line). Keep the reply under 400 words."""
    else:
        text = common(wt, pid, f"benign{tag}") + f"""
PROPERTY {pid}: {p['title']}
Statement: {p['statement']}
Relevant files: {', '.join(p['anchors']['files'])}
Mechanisms that make it hold: {mech}

TASK: the property must KEEP holding. Make a realistic, BEHAVIOUR-PRESERVING refactoring of the code that implements the mechanisms above - the kind of clean-up a maintainer would merge. Five earlier rounds already did: mixins and private base classes, functools.singledispatch, itertools pipelines (dropwhile / takewhile / accumulate / repeat / count), generator expressions feeding loops, private dataclasses for state, contextlib.suppress, iter(callable, sentinel), tiny private helper classes bundling values with one or two methods, generator functions instead of returned lists, while <-> for, zip / islice instead of index arithmetic, dict merges, functools.partial, dispatch tables, assertions rewritten as raises, and before that: extracting / inlining private helpers (also NamedTuples, closures, context managers, **kwargs helpers), early returns, tuple isinstance, swapped `is None` branches, loops <-> comprehensions, elif chains <-> lookup tables, `get` <-> `in`, enumerate / zip, reordered independent statements, join / format / f-strings, flags <-> for/else, keyword arguments, annotations, walrus, `next(...)` / `any` / `all`, `+=` / extend / unpacking, named constants and import-time tables, nested <-> compound conditions, conditional expressions, try/except <-> tests. This time use DIFFERENT kinds of edits again, for example:
{BENIGN_KINDS}
Combine 4 to 7 such edits (40-100 changed lines in total) inside the relevant files, concentrated on the functions that implement the mechanisms. The observable behaviour (returned values, emitted instructions and their order, bytes, exceptions and their types and messages, state left behind also on error paths) must be EXACTLY the same for every input, including unusual ones (0 values, None, negative numbers, empty lists, several objects alive at once). Do not rename or change the signature of any existing function, method, class or attribute (new private helpers are fine), keep Python 3.8 compatibility, and do not touch tests/.

Then write `demo.py` in the worktree root: a standalone program that exercises the refactored code paths on a range of inputs (including error paths) and compares the results with expected values recorded from the UNMODIFIED code; it prints PASS and exits 0 on both the unmodified and the refactored tree.

Verify: refactored tree -> demo PASS and the full test suite 171 passed; `git diff > /tmp/benign{tag}-{pid}.patch; git apply -R /tmp/benign{tag}-{pid}.patch` -> demo PASS on the original too; `git apply /tmp/benign{tag}-{pid}.patch` to restore your refactoring. Re-read your diff critically once more for any behavioural difference (truthiness vs `is None`, evaluation order of side effects, exceptions on error paths, aliasing of mutable objects, values read before vs after a mutation) and fix it if you find one.

Deliver: leave the refactoring as UNCOMMITTED modifications in the worktree plus the untracked demo.py. Do not commit. Reply (under 300 words) with: the list of edits (function by function), why each preserves behaviour, and the commands you ran with results."""
    open(os.path.join(out_dir, f"{pid}.txt"), "w").write(text)
print(out_dir, len(os.listdir(out_dir)), "prompts")
