#!/usr/bin/env python3-vt
"""tools/intake_benign.py <Cnn> <agent worktree> <id> [--desc "..."]

File an independently written BEHAVIOUR-PRESERVING refactoring under /verif/benign/<id>/ and evaluate every property's rules on it:
  1. `git diff` of the agent's worktree (+ its demo.py)
  2. fresh scratch worktree of /repo HEAD: demo passes without and with the patch; pinned suite 171 passed with it
  3. every property's rules on the patched scratch tree: any violation or analysis error is a false alarm to investigate
"""
import json, os, shutil, subprocess, sys, tempfile
ROOT = os.path.dirname(os.path.dirname(os.path.abspath(__file__)))
sys.path.insert(0, ROOT)
PY = "/venv/bin/python"


def sh(cmd, cwd=None, env=None, timeout=1200):
    p = subprocess.run(cmd, shell=True, cwd=cwd, env=env, capture_output=True, text=True, timeout=timeout)
    return p.returncode, (p.stdout + p.stderr)


def evaluate_all(scratch):
    from nqsa.cli import evaluate, CLAIMED
    from nqsa import report
    fired, errors = {}, {}
    for p in CLAIMED:
        ctx = evaluate(p, "quick", root=scratch)
        v, k = report.classify(ctx)
        if v:
            fired[p] = [f"{x.rule} {x.construct}" for x in v]
        if ctx.errors:
            errors[p] = ctx.errors
    return fired, errors


def main():
    prop, wt, bid = sys.argv[1:4]
    desc = sys.argv[sys.argv.index("--desc") + 1] if "--desc" in sys.argv else ""
    rc, patch = sh("git diff", cwd=wt)
    if not patch.strip():
        print("no diff in", wt); return 1
    out = os.path.join(ROOT, "benign", bid)
    os.makedirs(out, exist_ok=True)
    open(os.path.join(out, "patch.diff"), "w").write(patch)
    demo = os.path.join(wt, "demo.py")
    if os.path.exists(demo):
        shutil.copy(demo, os.path.join(out, "demo.py"))
    scratch = tempfile.mkdtemp(prefix="benchk-"); os.rmdir(scratch)
    subprocess.check_call(["git", "-C", "/repo", "worktree", "add", "-q", "--detach", scratch, "HEAD"])
    meta = {"id": bid, "property": prop, "description": desc, "base_commit": subprocess.check_output(["git", "-C", "/repo", "rev-parse", "HEAD"], text=True).strip(),
            "changed_lines": sum(1 for l in patch.splitlines() if (l.startswith("+") or l.startswith("-")) and not l.startswith(("+++", "---"))), "ran": []}
    try:
        env = dict(os.environ, PYTHONPATH=scratch)
        if os.path.exists(demo):
            shutil.copy(demo, os.path.join(scratch, "demo.py"))
            rc0, o0 = sh(f"{PY} demo.py", cwd=scratch, env=env)
            meta["ran"].append({"cmd": "demo.py on unchanged tree", "exit": rc0, "tail": o0.strip()[-200:]})
        rc, o = sh("git apply " + os.path.join(out, "patch.diff"), cwd=scratch)
        if rc != 0:
            print("patch does not apply:", o); return 1
        if os.path.exists(demo):
            rc1, o1 = sh(f"{PY} demo.py", cwd=scratch, env=env)
            meta["ran"].append({"cmd": "demo.py with patch", "exit": rc1, "tail": o1.strip()[-200:]})
        rc2, o2 = sh(f"{PY} -m pytest -q -p no:cacheprovider --timeout=900 --continue-on-collection-errors", cwd=scratch, env=env)
        summary = [l for l in o2.splitlines() if " passed" in l or " failed" in l][-1:] or [o2[-200:]]
        meta["ran"].append({"cmd": "pinned suite with patch", "summary": summary[0]})
        meta["suite_green"] = "171 passed" in summary[0] and "failed" not in summary[0]
        fired, errors = evaluate_all(scratch)
        meta["checks_fired"], meta["checks_errors"] = fired, errors
        meta["silent"] = not fired and not errors
    finally:
        subprocess.call(["git", "-C", "/repo", "worktree", "remove", "--force", scratch])
        shutil.rmtree(scratch, ignore_errors=True)
    json.dump(meta, open(os.path.join(out, "meta.json"), "w"), indent=1)
    print(json.dumps({"id": bid, "lines": meta["changed_lines"], "suite_green": meta.get("suite_green"), "silent": meta.get("silent"),
                      "fired": {p: v[:3] for p, v in meta.get("checks_fired", {}).items()}, "errors": {k: [e[:160] for e in v[:2]] for k, v in meta.get("checks_errors", {}).items()},
                      "demo": [(r.get("exit"), r.get("tail", "")[-40:]) for r in meta["ran"] if "exit" in r]}, indent=1))
    return 0


if __name__ == "__main__":
    sys.exit(main())
