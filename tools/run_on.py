#!/usr/bin/env python3-vt
"""tools/run_on.py <patch id under benign/ or seeded/ | -> <Cnn> [rule prefix]: evaluate one property on /repo/netqasm + patch and print every violation / error in full"""
import os, shutil, subprocess, sys, tempfile
ROOT = os.path.dirname(os.path.dirname(os.path.abspath(__file__)))
sys.path.insert(0, ROOT)
from nqsa.cli import evaluate
from nqsa import report
pid, prop = sys.argv[1], sys.argv[2]
pref = sys.argv[3] if len(sys.argv) > 3 else ""
tmp = tempfile.mkdtemp(prefix="nqsa-ro-")
try:
    shutil.copytree("/repo/netqasm", os.path.join(tmp, "netqasm"), ignore=shutil.ignore_patterns("__pycache__"))
    if pid != "-":
        for kind in ("benign", "seeded"):
            p = os.path.join(ROOT, kind, pid, "patch.diff")
            if os.path.exists(p):
                subprocess.check_call(["git", "apply", "--exclude=demo.py", p], cwd=tmp)
    ctx = evaluate(prop, "quick", root=tmp)
    v, k = report.classify(ctx)
    for x in v:
        if x.rule.startswith(pref):
            print(f"VIOLATION {x.rule} {x.construct}\n    {x.message}\n    at {x.loc}")
    for e in ctx.errors:
        print("ERROR", e)
    print(f"{len(v)} violations, {len(ctx.errors)} errors")
finally:
    shutil.rmtree(tmp, ignore_errors=True)
