#!/usr/bin/env python3-vt
"""tools/gen_known_names.py: write reference/known_names.json, the names of all functions and methods of /repo's netqasm package.
A private helper that is NOT in this list is treated by the normaliser (nqsa/normalise.py) as introduced by a refactoring and is
inlined into its callers before the rules run.  Regenerate only when a new helper is to become an anchor in its own right."""
import ast, json, os, sys
ROOT = os.path.dirname(os.path.dirname(os.path.abspath(__file__)))
repo = sys.argv[1] if len(sys.argv) > 1 else "/repo"
out = {}
for dp, dn, fns in os.walk(os.path.join(repo, "netqasm")):
    dn[:] = sorted(d for d in dn if d != "__pycache__")
    for fn in sorted(fns):
        if not fn.endswith(".py"):
            continue
        path = os.path.join(dp, fn)
        rel = os.path.relpath(path, repo)[:-3].split(os.sep)
        if rel[-1] == "__init__":
            rel = rel[:-1]
        names = []
        tree = ast.parse(open(path).read())
        for st in tree.body:
            if isinstance(st, (ast.FunctionDef, ast.AsyncFunctionDef)):
                names.append(st.name)
            elif isinstance(st, ast.ClassDef):
                for f in st.body:
                    if isinstance(f, (ast.FunctionDef, ast.AsyncFunctionDef)):
                        names.append(f"{st.name}.{f.name}")
        out[".".join(rel)] = sorted(set(names))
json.dump(out, open(os.path.join(ROOT, "reference", "known_names.json"), "w"), indent=0, sort_keys=True)
print(sum(len(v) for v in out.values()), "names in", len(out), "modules")
