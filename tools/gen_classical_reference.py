#!/usr/bin/env python3-vt
"""One-off: write reference/classical_semantics.json from the pinned tree's handlers (reviewed by hand against the NetQASM instruction semantics)."""
import json, os, sys
ROOT = os.path.dirname(os.path.dirname(os.path.abspath(__file__)))
sys.path.insert(0, ROOT)
from nqsa import report
from nqsa.model import Repo, ConstEval
from nqsa.rules import c04
repo = Repo(); ctx = report.Ctx("C04", "quick", repo, ConstEval(repo))
table = c04.handler_table(ctx)
sigs = c04.all_signatures(ctx, table)
ex = c04.executor(ctx)
helpers = {n: c04.helper_shape(ctx, ex, n, ex.methods[n]) for n in ["_set_register", "_get_register", "_initialize_array", "_get_array", "_get_array_entry", "_set_array_entry", "_expand_array_part"]}
ref = {
 "branch_predicates": {"bez": {"arity": 1, "op": "=="}, "bnz": {"arity": 1, "op": "!="}, "beq": {"arity": 2, "op": "=="}, "bne": {"arity": 2, "op": "!="}, "blt": {"arity": 2, "op": "<"}, "bge": {"arity": 2, "op": ">="}},
 "handler_signatures": {k: v for k, v in sigs.items() if v},
 "helpers": helpers,
}
json.dump(ref, open(os.path.join(ROOT, "reference", "classical_semantics.json"), "w"), indent=1, sort_keys=True)
print(json.dumps(ref, indent=1))
