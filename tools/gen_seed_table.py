#!/usr/bin/env python3-vt
"""tools/gen_seed_table.py: rewrite the seeded-change table in DESIGN.md (between the SEED-TABLE markers) from seeded/*/meta.json"""
import json, os, glob, re
ROOT = os.path.dirname(os.path.dirname(os.path.abspath(__file__)))
rows = []
for f in sorted(glob.glob(os.path.join(ROOT, "seeded", "*", "meta.json"))):
    m = json.load(open(f))
    fired = m.get("checks_fired", {})
    tgt = fired.get(m["property"], [])
    rules = sorted({x.split()[0] for x in tgt})
    others = sorted(p for p in fired if p != m["property"])
    now = ", ".join(rules) if rules else "**missed**"
    if others:
        now += " (also " + ", ".join(others) + ")"
    rows.append(f"| {m['seed']} | {m.get('round', 1)} | {m['description'].strip().rstrip('.')} | {m['needs'].strip().rstrip('.')} | {'caught' if m.get('detected_at_intake') else 'missed'} | {now} |")
table = "| seeded change | round | what it does | needs | at intake | caught now by |\n|---|---|---|---|---|---|\n" + "\n".join(rows)
p = os.path.join(ROOT, "DESIGN.md")
s = open(p).read()
s2 = re.sub(r"(<!-- SEED-TABLE-BEGIN -->\n).*?(<!-- SEED-TABLE-END -->)", lambda mo: mo.group(1) + table + "\n" + mo.group(2), s, flags=re.S)
open(p, "w").write(s2)
print(len(rows), "rows")
