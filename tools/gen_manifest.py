#!/usr/bin/env python3-vt
"""Regenerate MANIFEST.json from the rule modules' metadata."""
import importlib
import json
import os
import sys

ROOT = os.path.dirname(os.path.dirname(os.path.abspath(__file__)))
sys.path.insert(0, ROOT)
sys.dont_write_bytecode = True

NA = {}
ENGINES = {
    "model": ("nqsa/model.py", "AST repo model: imports, classes, C3 MRO, dataclass fields, property aliases, constant evaluator"),
    "wire": ("nqsa/wire.py", "ctypes layout model (packed structs, bit-fields, arrays)"),
    "instrs": ("nqsa/instrs.py", "instruction-class fact extraction (flavour tables, serialize/deserialize maps)"),
    "guards": ("nqsa/guards.py", "structural dominators, raising guards, range-predicate decision, pure predicate evaluation"),
    "flow": ("nqsa/flow.py", "per-function CFG, dominators, guards, path rules"),
    "emit": ("nqsa/emit.py", "emission model of builder code (ICmd constructions, operand roles)"),
    "circuit": ("nqsa/circuit.py", "checker-side AST interpreter (classes, properties, decorators, closures, generators as coroutines, with / try / raise, namedtuples, ctypes through a model) over symbolic, model and concrete values + operator semantics"),
    "cmodel": ("nqsa/cmodel.py", "model of ctypes structures for the interpreter (truncating stores, bit-fields, bytes, from_buffer_copy) on top of the layout model"),
    "codec": ("nqsa/codec.py", "executed binary codec: every instruction class's own serialize / deserialize_from on enumerated operands, subroutine framing"),
    "pipeline": ("nqsa/pipeline.py", "executed flush / compile pipeline against the repository's own Builder / MemoryManager bookkeeping"),
    "session": ("nqsa/session.py", "the repository's own objects built by their constructors and driven by the interpreter: Executor, parser, NV transpiler, DebugConnection ... QNodeController, modelled link layer; forked worker pool"),
    "refsem": ("nqsa/refsem.py", "reference semantics of the classical core of NetQASM (the checker's own statement of what the instructions mean)"),
}


def main():
    checks = []
    na = []
    serves = {k: [] for k in ENGINES}
    for i in range(1, 21):
        pid = "C%02d" % i
        if pid in NA:
            na.append({"property_id": pid, "reason": NA[pid]})
            continue
        try:
            mod = importlib.import_module(f"nqsa.rules.{pid.lower()}")
        except ImportError:
            na.append({"property_id": pid, "reason": "check not built yet (claimed in DESIGN.md; will be registered when its rules are armed)"})
            continue
        for e in getattr(mod, "ENGINES", ["model"]):
            serves.setdefault(e, []).append(pid)
        checks.append({
            "property_id": pid,
            "quick_cmd": f"./check {pid} quick",
            "thorough_cmd": f"./check {pid} thorough",
            "evidence_file": f"/verif/evidence/{pid}.json",
            "replay_cmd_template": "./check --replay {path}",
            "engine": "+".join(getattr(mod, "ENGINES", ["model"])),
            "level_claimed": {
                "category": "other",
                "text": getattr(mod, "LEVEL_TEXT", mod.EXPLANATION),
                "design_ref": f"DESIGN.md section 3, {pid}",
            },
            "level_note": getattr(mod, "LEVEL_NOTE", "; ".join(getattr(mod, "ASSUMPTIONS", []))),
            "technique": mod.TECHNIQUE,
        })
    man = {
        "version": 1,
        "setup_cmd": "true",
        "hooks": {
            "guard": "NETQASM_VERIF",
            "enable": "none needed: the checks read /repo's source with ast and never run it; the guard is declared and unused",
            "baseline_off_cmd": "cd /repo && /venv/bin/python -m pytest -ra -q -p no:cacheprovider --timeout=900 --continue-on-collection-errors",
            "source_commits": [],
            "add_only": True,
        },
        "engines": [
            {"name": k, "path": v[0], "serves_properties": sorted(set(serves.get(k, []))), "kind_free_text": v[1]}
            for k, v in ENGINES.items() if os.path.exists(os.path.join(ROOT, v[0]))
        ],
        "checks": checks,
        "notes": "Every check parses /repo's current working tree with ast (python3-vt) and never imports or runs netqasm under Python. Two kinds of rules (DESIGN.md sections 0.1 and 12): "
                 "static rules over shapes, tables, paths and types, and abstract execution - the repository's syntax trees interpreted by the checker's own interpreter on enumerated inputs with the collaborators named in DESIGN.md modelled; "
                 "each check's `technique` says which kind decides. "
                 "Exit 0 = held (KNOWN-FINDING lines for listed genuine defects), 1 = VIOLATION, 2 = ANALYSIS-ERROR (anchor vanished / unknown idiom). "
                 "thorough = quick rules + seeded-mutation self-test of those rules on scratch copies.",
        "not_applicable": na,
    }
    with open(os.path.join(ROOT, "MANIFEST.json"), "w") as fh:
        json.dump(man, fh, indent=1)
    try:
        import jsonschema
        jsonschema.validate(man, json.load(open("/root/.vp/MANIFEST.schema.json")))
        print("MANIFEST.json valid;", len(checks), "checks,", len(na), "not_applicable")
    except ImportError:
        print("written (not validated)")


if __name__ == "__main__":
    main()
