#!/usr/bin/env python3-vt
"""tools/intake_seed.py <Cnn> <agent worktree> <seed id> [--needs "..."]

Confirm an independently written breaking change and file it under /verif/seeded/<seed id>/:
  1. take `git diff` of the agent's worktree (+ its demo.py)
  2. in a fresh scratch worktree of /repo HEAD: demo passes; with the patch: demo fails, pinned suite still 171 passed
  3. evaluate every property's rules on the patched scratch tree (no evidence written) and record which fire
"""
import json, os, shutil, subprocess, sys, tempfile, time
ROOT = os.path.dirname(os.path.dirname(os.path.abspath(__file__)))
sys.path.insert(0, ROOT)
PY = "/venv/bin/python"


def sh(cmd, cwd=None, env=None, timeout=1200):
    p = subprocess.run(cmd, shell=True, cwd=cwd, env=env, capture_output=True, text=True, timeout=timeout)
    return p.returncode, (p.stdout + p.stderr)


def main():
    prop, wt, sid = sys.argv[1:4]
    needs = sys.argv[sys.argv.index("--needs") + 1] if "--needs" in sys.argv else ""
    desc = sys.argv[sys.argv.index("--desc") + 1] if "--desc" in sys.argv else ""
    rnd = int(sys.argv[sys.argv.index("--round") + 1]) if "--round" in sys.argv else 2
    rc, patch = sh("git diff", cwd=wt)
    if not patch.strip():
        print("no diff in", wt); return 1
    demo = os.path.join(wt, "demo.py")
    if not os.path.exists(demo):
        print("no demo.py"); return 1
    out = os.path.join(ROOT, "seeded", sid)
    os.makedirs(out, exist_ok=True)
    open(os.path.join(out, "patch.diff"), "w").write(patch)
    shutil.copy(demo, os.path.join(out, "demo.py"))
    scratch = tempfile.mkdtemp(prefix="seedchk-"); os.rmdir(scratch)
    subprocess.check_call(["git", "-C", "/repo", "worktree", "add", "-q", "--detach", scratch, "HEAD"])
    meta = {"seed": sid, "property": prop, "needs": needs, "description": desc, "base_commit": subprocess.check_output(["git", "-C", "/repo", "rev-parse", "HEAD"], text=True).strip(), "ran": []}
    try:
        env = dict(os.environ, PYTHONPATH=scratch)
        shutil.copy(demo, os.path.join(scratch, "demo.py"))
        rc0, o0 = sh(f"{PY} demo.py", cwd=scratch, env=env)
        meta["ran"].append({"cmd": "demo.py on unchanged tree", "exit": rc0, "tail": o0.strip()[-300:]})
        rc, o = sh("git apply " + os.path.join(out, "patch.diff"), cwd=scratch)
        if rc != 0:
            print("patch does not apply:", o); return 1
        rc1, o1 = sh(f"{PY} demo.py", cwd=scratch, env=env)
        meta["ran"].append({"cmd": "demo.py with patch", "exit": rc1, "tail": o1.strip()[-300:]})
        rc2, o2 = sh(f"{PY} -m pytest -q -p no:cacheprovider --timeout=900 --continue-on-collection-errors", cwd=scratch, env=env)
        summary = [l for l in o2.splitlines() if " passed" in l or " failed" in l][-1:] or [o2[-200:]]
        meta["ran"].append({"cmd": "pinned suite with patch", "summary": summary[0]})
        meta["confirmed"] = (rc0 == 0 and rc1 != 0 and "171 passed" in summary[0] and "failed" not in summary[0])
        # our checks
        from nqsa.cli import evaluate, CLAIMED
        from nqsa import report
        fired = {}
        errors = {}
        t0 = time.time()
        for p in CLAIMED:
            ctx = evaluate(p, "quick", root=scratch)
            v, k = report.classify(ctx)
            if v:
                fired[p] = [f"{x.rule} {x.construct}" for x in v]
            if ctx.errors:
                errors[p] = ctx.errors
        meta["checks_fired"] = fired
        meta["checks_errors"] = errors
        meta["detected_by_target_property"] = prop in fired
        meta["detected_by_any"] = bool(fired)
        meta["round"] = rnd
        meta["detected_at_intake"] = prop in fired
        meta["checks_fired_at_intake"] = fired
        meta["check_wall_s"] = round(time.time() - t0, 1)
    finally:
        subprocess.call(["git", "-C", "/repo", "worktree", "remove", "--force", scratch])
        shutil.rmtree(scratch, ignore_errors=True)
    json.dump(meta, open(os.path.join(out, "meta.json"), "w"), indent=1)
    short = {p: [v[0]] + ([f"... +{len(v) - 1}"] if len(v) > 1 else []) for p, v in meta.get("checks_fired", {}).items()}
    print(json.dumps({"seed": sid, "confirmed": meta.get("confirmed"), "target": meta.get("detected_by_target_property"), "fired": short, "errors": {k: v[0][:120] for k, v in meta.get("checks_errors", {}).items()}, "ran": [r.get("summary") or (r["exit"], r["tail"][-80:]) for r in meta["ran"]]}, indent=1))
    return 0


if __name__ == "__main__":
    sys.exit(main())
