#!/usr/bin/env python3-vt
"""tools/on_commit.py <commit> <Cnn> [...]: evaluate properties against a scratch worktree of /repo at <commit> (no evidence written)"""
import os, subprocess, sys, tempfile, shutil
ROOT = os.path.dirname(os.path.dirname(os.path.abspath(__file__)))
sys.path.insert(0, ROOT)
commit = sys.argv[1]
d = tempfile.mkdtemp(prefix="nqsa-wt-")
os.rmdir(d)
subprocess.check_call(["git", "-C", "/repo", "worktree", "add", "-q", "--detach", d, commit])
try:
    from nqsa.cli import evaluate
    from nqsa import report
    for p in sys.argv[2:]:
        ctx = evaluate(p.upper(), "quick", root=d)
        v, k = report.classify(ctx)
        print(f"{p}: violations={len(v)} known={len(k)} errors={len(ctx.errors)}")
        for f in v: print("   V", f.rule, f.construct)
        for f, _ in k: print("   K", f.rule, f.construct)
        for e in ctx.errors: print("   E", e)
finally:
    subprocess.call(["git", "-C", "/repo", "worktree", "remove", "--force", d])
    shutil.rmtree(d, ignore_errors=True)
