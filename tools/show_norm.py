#!/usr/bin/env python3-vt
"""tools/show_norm.py <patch id under benign/ or seeded/ | -> <module> [function or Class.method]: print the normalised source the rules see"""
import ast, os, shutil, subprocess, sys, tempfile
ROOT = os.path.dirname(os.path.dirname(os.path.abspath(__file__)))
sys.path.insert(0, ROOT)
from nqsa.model import Repo
pid, mod = sys.argv[1], sys.argv[2]
what = sys.argv[3] if len(sys.argv) > 3 else None
tmp = tempfile.mkdtemp(prefix="nqsa-sn-")
try:
    shutil.copytree("/repo/netqasm", os.path.join(tmp, "netqasm"), ignore=shutil.ignore_patterns("__pycache__"))
    if pid != "-":
        for kind in ("benign", "seeded"):
            p = os.path.join(ROOT, kind, pid, "patch.diff")
            if os.path.exists(p):
                subprocess.check_call(["git", "apply", "--exclude=demo.py", p], cwd=tmp)
    r = Repo(tmp)
    m = r.module(mod)
    if what is None:
        print(ast.unparse(m.tree))
    elif "." in what:
        c, f = what.split(".")
        print(ast.unparse(m.classes[c].methods[f]))
    else:
        print(ast.unparse(m.functions[what]) if what in m.functions else ast.unparse(m.classes[what].node))
finally:
    shutil.rmtree(tmp, ignore_errors=True)
