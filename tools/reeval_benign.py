#!/usr/bin/env python3-vt
"""tools/reeval_benign.py [id ...]: re-evaluate all rules against each filed behaviour-preserving refactoring (scratch worktree of /repo HEAD + patch); all must be silent"""
import importlib.util, json, os, shutil, subprocess, sys, tempfile
ROOT = os.path.dirname(os.path.dirname(os.path.abspath(__file__)))
sys.path.insert(0, ROOT)
spec = importlib.util.spec_from_file_location("intake_benign", os.path.join(ROOT, "tools", "intake_benign.py"))
ib = importlib.util.module_from_spec(spec); spec.loader.exec_module(ib)
ids = sys.argv[1:] or sorted(os.listdir(os.path.join(ROOT, "benign")))
noisy = 0
for bid in ids:
    d = os.path.join(ROOT, "benign", bid)
    if not os.path.exists(os.path.join(d, "patch.diff")):
        continue
    meta = json.load(open(os.path.join(d, "meta.json")))
    scratch = tempfile.mkdtemp(prefix="rebenign-"); os.rmdir(scratch)
    subprocess.check_call(["git", "-C", "/repo", "worktree", "add", "-q", "--detach", scratch, "HEAD"])
    try:
        rc = subprocess.call(["git", "apply", os.path.join(d, "patch.diff")], cwd=scratch)
        if rc != 0:
            print(f"{bid}: patch no longer applies to HEAD (skipped)")
            continue
        fired, errors = ib.evaluate_all(scratch)
        meta["checks_fired"], meta["checks_errors"], meta["silent"] = fired, errors, not fired and not errors
        json.dump(meta, open(os.path.join(d, "meta.json"), "w"), indent=1)
        noisy += not meta["silent"]
        print(f"{bid}: silent={meta['silent']} fired={ {k: v[:2] for k, v in fired.items()} } errors={ {k: v[0][:100] for k, v in errors.items()} }")
    finally:
        subprocess.call(["git", "-C", "/repo", "worktree", "remove", "--force", scratch]); shutil.rmtree(scratch, ignore_errors=True)
print("refactorings with an alarm:", noisy)
