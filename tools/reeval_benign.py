#!/usr/bin/env python3-vt
"""tools/reeval_benign.py [id ...]: re-evaluate all rules against each filed behaviour-preserving refactoring (scratch copy of /repo/netqasm + patch, 16 workers); all must be silent"""
import json, os, shutil, subprocess, sys, tempfile
from concurrent.futures import ProcessPoolExecutor
ROOT = os.path.dirname(os.path.dirname(os.path.abspath(__file__)))
sys.path.insert(0, ROOT)


def one(bid):
    from nqsa.cli import evaluate, CLAIMED
    from nqsa import report
    d = os.path.join(ROOT, "benign", bid)
    if not os.path.exists(os.path.join(d, "patch.diff")):
        return None
    meta = json.load(open(os.path.join(d, "meta.json")))
    scratch = tempfile.mkdtemp(prefix="rebenign-")
    try:
        shutil.copytree("/repo/netqasm", os.path.join(scratch, "netqasm"), ignore=shutil.ignore_patterns("__pycache__", "*.pyc"))
        r = subprocess.run(["git", "apply", "--exclude=demo.py", os.path.join(d, "patch.diff")], cwd=scratch, capture_output=True, text=True)
        if r.returncode != 0:
            return (bid, None, "patch no longer applies to HEAD (skipped)")
        only = [x for x in os.environ.get("NQSA_PROPS", "").split(",") if x]
        # (restricted to some properties: what the others said the last time is kept)
        fired = {k: v for k, v in (meta.get("checks_fired") or meta.get("fired") or {}).items() if only and k not in only}
        errors = {k: v for k, v in (meta.get("checks_errors") or meta.get("errors") or {}).items() if only and k not in only}
        for p in (only or CLAIMED):
            ctx = evaluate(p, "quick", root=scratch)
            v, k = report.classify(ctx)
            if v:
                fired[p] = [f"{x.rule} {x.construct}" for x in v]
            if ctx.errors:
                errors[p] = ctx.errors
        meta["checks_fired"], meta["checks_errors"], meta["silent"] = fired, errors, not fired and not errors
        json.dump(meta, open(os.path.join(d, "meta.json"), "w"), indent=1)
        return (bid, meta["silent"], f"fired={ {k: v[:2] for k, v in fired.items()} } errors={ {k: v[0][:100] for k, v in errors.items()} }")
    finally:
        shutil.rmtree(scratch, ignore_errors=True)


if __name__ == "__main__":
    ids = sys.argv[1:] or sorted(os.listdir(os.path.join(ROOT, "benign")))
    noisy = 0
    with ProcessPoolExecutor(max_workers=16) as ex:
        for res in ex.map(one, ids):
            if res is None:
                continue
            bid, silent, detail = res
            noisy += silent is False
            print(f"{bid}: silent={silent} {detail}")
    print("refactorings with an alarm:", noisy)
