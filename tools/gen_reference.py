#!/usr/bin/env python3-vt
"""One-off: freeze reference/wire_table.json from the pinned tree (run by hand, reviewed, committed)."""
import json, os, sys
ROOT = os.path.dirname(os.path.dirname(os.path.abspath(__file__)))
sys.path.insert(0, ROOT)
from nqsa import report, wire
from nqsa.model import Repo, ConstEval
from nqsa.rules import c02
repo = Repo()
ctx = report.Ctx("C02", "quick", repo, ConstEval(repo))
t = c02.compute_table(ctx)
enc = repo.module("netqasm.lang.encoding")
t["struct_sizes"] = {n: wire.layout(ctx.ev, c)[1] for n, c in enc.classes.items() if ctx.ev.is_struct(c)}
json.dump(t, open(os.path.join(ROOT, "reference", "wire_table.json"), "w"), indent=1, sort_keys=True)
print("entries", sum(len(v) for v in t["flavours"].values()))
