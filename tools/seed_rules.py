#!/usr/bin/env python3-vt
"""tools/seed_rules.py <Cnn> [seed id prefix]: for every self-test seed of a rules module, the rules that report a violation on the seeded tree
(which rule families see which change - used when a structural rule is replaced by an executed one)"""
import importlib, os, shutil, sys, tempfile
ROOT = os.path.dirname(os.path.dirname(os.path.abspath(__file__)))
sys.path.insert(0, ROOT)
from nqsa import cli
prop = sys.argv[1]
pref = sys.argv[2] if len(sys.argv) > 2 else ""
mod = importlib.import_module(f"nqsa.rules.{prop.lower()}")
for seed in mod.SEEDS:
    if not seed["id"].startswith(pref):
        continue
    tmp = tempfile.mkdtemp(prefix="nqsa-sr-")
    try:
        shutil.copytree("/repo/netqasm", os.path.join(tmp, "netqasm"), ignore=shutil.ignore_patterns("__pycache__"))
        edits = seed.get("edits") or [(seed["file"], seed["old"], seed["new"])]
        ok = True
        for f, old, new in edits:
            p = os.path.join(tmp, f)
            s = open(p).read()
            if old not in s:
                ok = False
                break
            open(p, "w").write(s.replace(old, new, 1))
        if not ok:
            print(seed["id"], "SKIPPED (anchor text absent)")
            continue
        ctx = cli.evaluate(prop, "quick", tmp)
        rules = sorted({f.rule for f in ctx.findings})
        print(seed["id"], "expect", seed["expect"], "->", rules, ("errors: " + "; ".join(str(e)[:400] for e in ctx.errors)) if ctx.errors else "")
    finally:
        shutil.rmtree(tmp, ignore_errors=True)
