#!/bin/bash
# run the pinned baseline suite; print passed/failed counts (171 expected)
cd /repo && /venv/bin/python -m pytest -ra -q -p no:cacheprovider --timeout=900 --continue-on-collection-errors 2>&1 | tail -3
