#!/usr/bin/env python3-vt
"""tools/reeval_seeds.py [seed id ...]: re-evaluate all rules against each filed seeded change (scratch copy of /repo/netqasm + patch, 16 workers) and update meta.json"""
import json, os, shutil, subprocess, sys, tempfile
from concurrent.futures import ProcessPoolExecutor
ROOT = os.path.dirname(os.path.dirname(os.path.abspath(__file__)))
sys.path.insert(0, ROOT)


def one(sid):
    from nqsa.cli import evaluate, CLAIMED
    from nqsa import report
    d = os.path.join(ROOT, "seeded", sid)
    if not os.path.exists(os.path.join(d, "patch.diff")):
        return None
    meta = json.load(open(os.path.join(d, "meta.json")))
    scratch = tempfile.mkdtemp(prefix="reseed-")
    try:
        shutil.copytree("/repo/netqasm", os.path.join(scratch, "netqasm"), ignore=shutil.ignore_patterns("__pycache__", "*.pyc"))
        r = subprocess.run(["git", "apply", "--exclude=demo.py", os.path.join(d, "patch.diff")], cwd=scratch, capture_output=True, text=True)
        if r.returncode != 0:
            return (sid, None, "patch no longer applies")
        fired, errors = {}, {}
        target_only = bool(os.environ.get("NQSA_TARGET_ONLY"))
        if target_only:
            fired = {k: v for k, v in (meta.get("checks_fired") or {}).items() if k != meta["property"]}
        for p in ([meta["property"]] if target_only else CLAIMED):
            ctx = evaluate(p, "quick", root=scratch)
            v, k = report.classify(ctx)
            if v:
                fired[p] = [f"{x.rule} {x.construct}" for x in v]
            if ctx.errors:
                errors[p] = ctx.errors
        meta["checks_fired"], meta["checks_errors"] = fired, errors
        meta["detected_by_target_property"] = meta["property"] in fired
        meta["detected_by_any"] = bool(fired)
        json.dump(meta, open(os.path.join(d, "meta.json"), "w"), indent=1)
        return (sid, meta["detected_by_target_property"], f"fired={ {k: len(v) for k, v in fired.items()} } first={[v[0] for v in fired.values()][:2]} errors={ {k: v[0][:80] for k, v in errors.items()} }")
    finally:
        shutil.rmtree(scratch, ignore_errors=True)


if __name__ == "__main__":
    seeds = sys.argv[1:] or sorted(os.listdir(os.path.join(ROOT, "seeded")))
    missed = 0
    with ProcessPoolExecutor(max_workers=16) as ex:
        for res in ex.map(one, seeds):
            if res is None:
                continue
            sid, ok, detail = res
            missed += ok is False
            print(f"{sid}: target={ok} {detail}")
    print("missed by target property:", missed)
