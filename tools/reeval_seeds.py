#!/usr/bin/env python3-vt
"""tools/reeval_seeds.py [seed id ...]: re-evaluate all rules against each filed seeded change (scratch worktree of /repo HEAD + patch) and update meta.json"""
import json, os, shutil, subprocess, sys, tempfile
ROOT = os.path.dirname(os.path.dirname(os.path.abspath(__file__)))
sys.path.insert(0, ROOT)
from nqsa.cli import evaluate, CLAIMED
from nqsa import report
seeds = sys.argv[1:] or sorted(os.listdir(os.path.join(ROOT, "seeded")))
missed = 0
for sid in seeds:
    d = os.path.join(ROOT, "seeded", sid)
    if not os.path.exists(os.path.join(d, "patch.diff")):
        continue
    meta = json.load(open(os.path.join(d, "meta.json")))
    scratch = tempfile.mkdtemp(prefix="reseed-"); os.rmdir(scratch)
    subprocess.check_call(["git", "-C", "/repo", "worktree", "add", "-q", "--detach", scratch, "HEAD"])
    try:
        subprocess.check_call(["git", "apply", os.path.join(d, "patch.diff")], cwd=scratch)
        fired, errors = {}, {}
        for p in CLAIMED:
            ctx = evaluate(p, "quick", root=scratch)
            v, k = report.classify(ctx)
            if v:
                fired[p] = [f"{x.rule} {x.construct}" for x in v]
            if ctx.errors:
                errors[p] = ctx.errors
        meta["checks_fired"], meta["checks_errors"] = fired, errors
        meta["detected_by_target_property"] = meta["property"] in fired
        meta["detected_by_any"] = bool(fired)
        json.dump(meta, open(os.path.join(d, "meta.json"), "w"), indent=1)
        if not meta["detected_by_target_property"]:
            missed += 1
        print(f"{sid}: target={meta['detected_by_target_property']} fired={ {k: len(v) for k, v in fired.items()} } first={[v[0] for v in fired.values()][:2]} errors={ {k: v[0][:80] for k, v in errors.items()} }")
    finally:
        subprocess.call(["git", "-C", "/repo", "worktree", "remove", "--force", scratch]); shutil.rmtree(scratch, ignore_errors=True)
print("missed by target property:", missed)
