#!/usr/bin/env python3-vt
"""tools/try_transform.py <transform> Cnn...: run the rules of the given properties on a transformed scratch copy and print what they say"""
import os, shutil, sys, tempfile
ROOT = os.path.dirname(os.path.dirname(os.path.abspath(__file__)))
sys.path.insert(0, ROOT)
from nqsa import selftest, report
from nqsa.cli import evaluate
kind = sys.argv[1]
tmp = tempfile.mkdtemp(prefix="nqsa-tt-")
try:
    shutil.copytree("/repo/netqasm", os.path.join(tmp, "netqasm"), ignore=shutil.ignore_patterns("__pycache__"))
    for dp, dn, fns in os.walk(os.path.join(tmp, "netqasm")):
        for fn in fns:
            if fn.endswith(".py"):
                p = os.path.join(dp, fn)
                t = open(p).read()
                open(p, "w").write(selftest._transform(kind, t))
    for prop in sys.argv[2:]:
        ctx = evaluate(prop, "quick", root=tmp)
        v, k = report.classify(ctx)
        print(prop, "errors:", len(ctx.errors), "violations:", len(v))
        for e in ctx.errors:
            print("   E", e[:300])
        for x in v:
            print("   V", x.rule, x.construct, "|", x.message[:200])
    if os.environ.get("KEEP"):
        print("kept", tmp)
finally:
    if not os.environ.get("KEEP"):
        shutil.rmtree(tmp, ignore_errors=True)
