"""C19: get_angle_spec_from_float(angle, tol) drops every step whose exponent is >= 32 after the greedy expansion.
For tolerances below 255 / 2**32 (about 6e-8, in units of pi) such steps are needed, so the returned sequence misses the
angle by more than the tolerance although the docstring promises abs(sum_i n_i pi / 2^d_i - angle) < tol.
Run: cd /repo && /venv/bin/python /verif/findings/repro/repro_angle_spec_filter.py   (exit 1 = defect present)"""
import math
import sys

from netqasm.sdk.toolbox.state_prep import get_angle_spec_from_float

bad = 0
for angle, tol in [(0.3, 1e-9), (1.234567, 1e-9), (2.5, 1e-8)]:
    nds = get_angle_spec_from_float(angle, tol)
    err = abs(sum(n / 2 ** d for n, d in nds) - (angle % (2 * math.pi)) / math.pi)
    ok = err <= tol and all(0 <= n <= 255 and 0 <= d <= 255 for n, d in nds)
    print(f"angle={angle} tol={tol:g}: steps={nds} error={err:.3g} (units of pi) -> {'ok' if ok else 'OUTSIDE TOLERANCE'}")
    bad += not ok
sys.exit(1 if bad else 0)
