import threading, time
from netqasm.sdk.classical_communication.thread_socket.socket import ThreadSocket, StorageThreadSocket
from netqasm.sdk.classical_communication.thread_socket import socket_hub
hub = socket_hub._socket_hub
# Schedule: B connected & waiting; A enters connect(): publishes key, (preempted before _add_callbacks); B sends; A resumes.
orig = hub._add_callbacks
gate = threading.Event(); entered = threading.Event()
def slow_add(sock):
    if sock.app_name == "A":
        entered.set(); gate.wait(5)
    orig(sock)
hub._add_callbacks = slow_add
res = {}
def mkA(): res['A'] = StorageThreadSocket("A","B")
tb = threading.Thread(target=lambda: res.__setitem__('B', ThreadSocket("B","A"))); tb.start()
ta = threading.Thread(target=mkA); ta.start()
entered.wait(5); tb.join(5)
res['B'].send("m1")          # A's key is published, callback not yet registered
gate.set(); ta.join(5)
res['B'].send("m2")
print("A callback storage:", res['A']._storage, " queued (never delivered to callback):", hub._messages[res['A'].key])
