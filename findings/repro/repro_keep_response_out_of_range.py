"""Repro (C13): a keep-response whose virtual address lies outside the unit module.

The application stores virtual address 5 in the qubit-address array of a recv_epr although its unit module has 2 qubits.
The delivery is rejected (ValueError, as for qalloc with such an address), but the delivered physical qubit was already
put into the in-use set: the set marked in use is no longer the set of mapped qubits, and stopping the application never
releases the qubit (stop only removes addresses found in the unit module).  Afterwards a 2-qubit controller has room
for one qubit only.

Prints PASS when the in-use set equals the mapped set after every step, FAIL otherwise.
"""
import sys
from collections import Counter

from netqasm.backend.executor import Executor
from netqasm.backend.network_stack import BaseNetworkStack
from netqasm.lang.parsing import parse_text_subroutine
from netqasm.qlink_compat import LinkLayerOKTypeK, ReturnType
from netqasm.sdk.shared_memory import SharedMemoryManager

REMOTE_NODE = 1
PURPOSE_ID = 7


class Stack(BaseNetworkStack):
    def put(self, request):
        pass

    def setup_epr_socket(self, epr_socket_id, remote_node_id, remote_epr_socket_id, timeout=1.0):
        return None

    def get_purpose_id(self, remote_node_id, epr_socket_id):
        return PURPOSE_ID


class Controller(Executor):
    """Executor whose wait hook delivers the link-layer responses queued so far
    (what a simulator does while a subroutine is blocked in wait_all)."""

    def __init__(self, *args, **kwargs):
        super().__init__(*args, **kwargs)
        self.deliveries = []

    @property
    def node_id(self):
        return 0

    def _do_wait(self):
        if not self.deliveries:
            raise RuntimeError("subroutine waits but nothing will be delivered")
        self._handle_epr_response(self.deliveries.pop(0))
        return None


def recv_keep(app_id, virt):
    return parse_text_subroutine(
        f"""
# NETQASM 0.0
# APPID {app_id}
set R5 10
array R5 @0
set R5 1
array R5 @1
set R5 {virt}
set R6 0
store R5 @1[R6]
set R5 {REMOTE_NODE}
set R6 0
set R7 1
set R8 0
recv_epr R5 R6 R7 R8
set R5 0
set R6 10
wait_all @0[R5:R6]
"""
    )


def qalloc(app_id, virt):
    return parse_text_subroutine(
        f"""
# NETQASM 0.0
# APPID {app_id}
set Q0 {virt}
qalloc Q0
"""
    )


def qfree(app_id, virt):
    return parse_text_subroutine(
        f"""
# NETQASM 0.0
# APPID {app_id}
set Q0 {virt}
qfree Q0
"""
    )


def check(ex, where, problems):
    mapped = [p for um in ex._qubit_unit_modules.values() for p in um if p is not None]
    dup = [p for p, n in Counter(mapped).items() if n > 1]
    if dup:
        problems.append(f"{where}: physical qubit(s) {dup} mapped more than once: {ex._qubit_unit_modules}")
    if set(mapped) != ex._used_physical_qubit_addresses:
        problems.append(
            f"{where}: in-use set {sorted(ex._used_physical_qubit_addresses)} != mapped set {sorted(set(mapped))}"
        )


def main():
    SharedMemoryManager.reset_memories()
    problems = []
    ex = Controller(name="ctrl")
    ex.network_stack = Stack()
    ex.init_new_application(app_id=0, max_qubits=2)

    def step(label, fn, expect_fault=False):
        try:
            fn()
            if expect_fault:
                problems.append(f"{label}: expected a fault")
        except Exception as exc:  # noqa
            if not expect_fault:
                problems.append(f"{label}: raised {type(exc).__name__}: {exc}".splitlines()[0])
        check(ex, label, problems)

    def deliver_out_of_range():
        ex.deliveries.append(
            LinkLayerOKTypeK(
                type=ReturnType.OK_K,
                logical_qubit_id=0,
                directionality_flag=1,
                purpose_id=PURPOSE_ID,
                remote_node_id=REMOTE_NODE,
            )
        )
        ex.consume_execute_subroutine(recv_keep(app_id=0, virt=5))

    step("keep response for virtual address 5 (unit module has 2 qubits)", deliver_out_of_range, expect_fault=True)
    step("stop app 0", lambda: list(ex.stop_application(app_id=0)))
    if ex._used_physical_qubit_addresses:
        problems.append(f"after stop: physical qubits still marked in use: {sorted(ex._used_physical_qubit_addresses)}")

    if problems:
        print("FAIL")
        for p in problems:
            print("  -", p)
        return 1
    print("PASS")
    return 0


if __name__ == "__main__":
    sys.exit(main())
