from netqasm.sdk.connection import DebugConnection
from netqasm.sdk.qubit import Qubit
from netqasm.sdk.epr_socket import EPRSocket
from netqasm.qlink_compat import EPRType
DebugConnection.node_ids={"Alice":0,"Bob":1}
es=EPRSocket("Bob")
with DebugConnection("Alice",epr_sockets=[es]) as c:
    other=Qubit(c)   # occupies id 0
    def post(conn,q,pair): q.H()
    es.recv_keep(number=2,post_routine=post)
    print(c.builder.subrt_pop_pending_subroutine())
es=EPRSocket("Bob")
with DebugConnection("Alice",epr_sockets=[es]) as c:
    r=es.create(tp=EPRType.R, rotations_local=(8,0,0))
    print(r[0].measurement_basis_local)
