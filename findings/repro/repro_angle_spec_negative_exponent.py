"""C19: for an angle within float rounding of a full turn (e.g. -1e-17) `angle %= 2*pi` yields exactly 2*pi, the
remainder is 2.0, the greedy step is (128, 6) and the simplification loop halves it to (1, -1): a negative exponent,
which the 8-bit field cannot hold and the builder rejects with ValueError.
Run: cd /repo && /venv/bin/python /verif/findings/repro/repro_angle_spec_negative_exponent.py   (exit 1 = defect present)"""
import sys

from netqasm.sdk.toolbox.state_prep import get_angle_spec_from_float

bad = 0
for angle in (-1e-17, -1e-20):
    nds = get_angle_spec_from_float(angle)
    ok = all(0 <= n <= 255 and 0 <= d <= 255 for n, d in nds)
    print(f"angle={angle}: steps={nds} -> {'ok' if ok else 'NOT ENCODABLE'}")
    bad += not ok
sys.exit(1 if bad else 0)
