"""Repro (C05): a future added to itself.

`f.add(g)` loads f and g into two temporaries, adds, stores f - and used to store g back as well.  That second store does
nothing unless g is the same array entry as f: then it overwrites the sum with the old value.  The subroutine the SDK emits
for `x = array[0]; x.add(x)` must double the entry; the stores of the emitted subroutine are read here (no backend needed).

Prints PASS when the only store after the addition writes the sum (the first temporary), FAIL otherwise.
"""
import sys

from netqasm.sdk.connection import DebugConnection


def main():
    DebugConnection.node_ids = {"alice": 0}
    with DebugConnection("alice") as conn:
        arr = conn.new_array(init_values=[9])
        x = arr.get_future_index(0)
        x.add(arr.get_future_index(0))
        subroutine = conn.builder.subrt_pop_pending_subroutine()
    text = [str(c) for c in subroutine.commands]
    k = next(i for i, c in enumerate(text) if c.lstrip().startswith("add "))
    summed = text[k].split()[1]
    stores = [c.split() for c in text[k + 1:] if c.lstrip().startswith("store ")]
    ok = len(stores) == 1 and stores[0][1] == summed
    print("PASS" if ok else "FAIL")
    for c in text:
        print("   ", c)
    return 0 if ok else 1


if __name__ == "__main__":
    sys.exit(main())
