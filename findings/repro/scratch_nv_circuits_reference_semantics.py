import numpy as np
I=np.eye(2);X=np.array([[0,1],[1,0]],complex);Y=np.array([[0,-1j],[1j,0]]);Z=np.diag([1,-1]).astype(complex)
H=(X+Z)/np.sqrt(2);K=(Y+Z)/np.sqrt(2);S=np.diag([1,1j]);T=np.diag([1,np.exp(1j*np.pi/4)])
P={'x':X,'y':Y,'z':Z}
def R(ax,n,d):
    th=n*np.pi/2**d
    return np.cos(th/2)*I-1j*np.sin(th/2)*P[ax]
def CR(ax,n,d):  # electron ctrl (first), carbon target
    p0=np.diag([1,0]);p1=np.diag([0,1])
    return np.kron(p0,R(ax,n,d))+np.kron(p1,R(ax,-n,d))
def eq(A,B):
    i=np.argmax(np.abs(A)); ph=B.flat[i]/A.flat[i] if abs(A.flat[i])>1e-9 else 0
    return abs(abs(ph)-1)<1e-9 and np.allclose(A*ph,B)
def seq1(ops):
    U=I
    for ax,n,d in ops: U=R(ax,n,d)@U
    return U
single={'X':[('x',16,4)],'Y':[('y',16,4)],'Z':[('x',24,4),('y',16,4),('x',8,4)],'H':[('y',8,4),('x',16,4)],
'K':[('x',24,4),('y',16,4)],'S':[('x',24,4),('y',24,4),('x',8,4)],'T':[('x',24,4),('y',28,4),('x',8,4)]}
ref={'X':X,'Y':Y,'Z':Z,'H':H,'K':K,'S':S,'T':T}
for g,ops in single.items():
    U=seq1(ops); print(g, eq(U,ref[g]), 'adj' if eq(U,ref[g].conj().T) else '')
# two qubit: order (electron, carbon) = (q0,q1) kron
def on(e=None,c=None): return np.kron(e if e is not None else I, c if c is not None else I)
def run(ops):
    U=np.eye(4,dtype=complex)
    for op in ops:
        if op[0]=='cr': U=CR(op[1],op[2],op[3])@U
        elif op[0]=='e': U=on(e=R(op[1],op[2],op[3]))@U
        else: U=on(c=R(op[1],op[2],op[3]))@U
    return U
CNOT=np.array([[1,0,0,0],[0,1,0,0],[0,0,0,1],[0,0,1,0]],complex)  # ctrl first
CZ=np.diag([1,1,1,-1]).astype(complex)
SW=np.array([[1,0,0,0],[0,0,1,0],[0,1,0,0],[0,0,0,1]],complex)
cnot_ec=[('cr','x',8,4),('e','z',24,4),('c','x',24,4)]
print('cnot e->c', eq(run(cnot_ec),CNOT))
cphase_ec=[('c','y',8,4),('cr','x',8,4),('e','z',24,4),('c','x',24,4),('c','y',24,4)]
print('cphase ec', eq(run(cphase_ec),CZ))
Hn=[('e','y',8,4),('e','x',16,4)]
cnot_ce=Hn+[('c','y',8,4),('cr','x',8,4),('e','z',24,4),('c','x',24,4),('c','y',24,4)]+Hn
CNOT_ce=SW@CNOT@SW  # control = carbon (2nd), target electron (1st)
print('cnot c->e', eq(run(cnot_ce),CNOT_ce))
swap=[('cr','x',8,4),('e','x',24,4),('e','y',16,4),('c','z',24,4),('cr','x',8,4),('e','x',8,4),('e','y',8,4),('c','x',8,4),('c','z',8,4),('cr','x',8,4),('e','y',16,4),('c','z',16,4)]
print('swap', eq(run(swap),SW))
U=run(swap); print(np.round(U,3))
# mov e->c : acting on |psi>_e |0>_c should give |?>_e |psi>_c
mov_ec=[('e','y',8,4),('cr','y',24,4),('e','x',24,4),('cr','x',8,4)]
U=run(mov_ec)
for psi in [np.array([1,0]),np.array([0,1]),np.array([1,1])/np.sqrt(2),np.array([1,1j])/np.sqrt(2)]:
    out=U@np.kron(psi,[1,0]); out=out.reshape(2,2)
    # reduced state on carbon
    rho=out.T@out.conj()
    print('mov e->c fid', np.real(psi.conj()@rho@psi))
mov_ce=[('e','y',8,4),('cr','y',24,4),('e','x',24,4),('cr','x',8,4),('e','y',24,4),('e','z',24,4)]
U=run(mov_ce)
for psi in [np.array([1,0]),np.array([0,1]),np.array([1,1])/np.sqrt(2),np.array([1,1j])/np.sqrt(2)]:
    out=U@np.kron([1,0],psi); out=out.reshape(2,2)
    rho=out@out.conj().T
    print('mov c->e fid', np.real(psi.conj()@rho@psi))
