from netqasm.sdk.connection import DebugConnection
from netqasm.sdk.qubit import Qubit
from netqasm.sdk.epr_socket import EPRSocket
from netqasm.sdk.build_types import NVHardwareConfig
import traceback
DebugConnection.node_ids={"Alice":0,"Bob":1}
def t1():
    es=EPRSocket("Bob")
    with DebugConnection("Alice",epr_sockets=[es]) as c:
        def post(conn,q,pair): q.H()
        es.create_keep(number=2,sequential=True,post_routine=post)
        print([ (type(q).__name__, q.qubit_id if isinstance(q.qubit_id,int) and not hasattr(q.qubit_id,'_address') else 'future') for q in c.active_qubits])
        try:
            q=Qubit(c); print("new qubit id", q.qubit_id)
        except Exception as e: print("ERR", type(e).__name__, e)
def t2():
    with DebugConnection("Alice") as c:
        for i in range(3):
            q=Qubit(c); q.free(); 
        print("ids after 3 alloc/free", [q.qubit_id for q in c.active_qubits])
def t3():
    with DebugConnection("Alice") as c:
        arr=c.new_array(1,[0]); f=arr.get_future_index(0)
        for i in range(20):
            try:
                with f.if_ez(): Qubit(c).measure()
            except Exception as e:
                print("if_ez failed at", i, type(e).__name__, e); break
        print(sorted(str(r) for r in c.builder._mem_mgr._active_registers))
def t4():
    with DebugConnection("Alice",hardware_config=NVHardwareConfig(3)) as c:
        q0=Qubit(c); c.flush(); q1=Qubit(c); q1.measure()
        print(c.builder.subrt_pop_pending_subroutine()); print([q.qubit_id for q in c.active_qubits])
for t in (t1,t2,t3,t4):
    print('---',t.__name__)
    try: t()
    except Exception: traceback.print_exc()
