import numpy as np
I=np.eye(2);X=np.array([[0,1],[1,0]],complex);Z=np.diag([1,-1]).astype(complex)
H=(X+Z)/np.sqrt(2);T=np.diag([1,np.exp(1j*np.pi/4)])
def op1(g,q,n=3):
    m=[I]*n; m[q]=g; U=m[0]
    for x in m[1:]: U=np.kron(U,x)
    return U
def cnot(c,t,n=3):
    U=np.zeros((2**n,2**n),complex)
    for b in range(2**n):
        bits=[(b>>(n-1-i))&1 for i in range(n)]
        if bits[c]: bits[t]^=1
        U[sum(v<<(n-1-i) for i,v in enumerate(bits)),b]=1
    return U
c1,c2,t=0,1,2
Tinv=[('T',)]*7
seq=[('H',t),('cx',c2,t)]+[('T',t)]*7+[('cx',c1,t),('T',t),('cx',c2,t)]+[('T',t)]*7+[('cx',c1,t),('T',c2),('T',t),('H',t),('cx',c1,c2),('T',c1)]+[('T',c2)]*7+[('cx',c1,c2)]
U=np.eye(8,dtype=complex)
for g in seq:
    if g[0]=='H': U=op1(H,g[1])@U
    elif g[0]=='T': U=op1(T,g[1])@U
    else: U=cnot(g[1],g[2])@U
TOF=np.eye(8,dtype=complex); TOF[6:,6:]=X
ph=U[0,0]; print(np.allclose(U/ph,TOF), abs(ph))
