"""Repro (C03): macros whose names are prefixes of one another.

`# DEFINE cnt R1` followed by `# DEFINE cnt2 R2`: the body `set $cnt2 0` is expanded by plain text replacement in definition
order, so `$cnt` is replaced first inside `$cnt2` and the line becomes `set R12 0` - a valid instruction on another register.
With the two definitions in the other order the same program assembles as written.  The assembled subroutine must not
depend on the order in which two independent macros are defined.

Prints PASS when both orders assemble to the hand-expanded program, FAIL otherwise.
"""
import sys

from netqasm.lang.parsing.text import parse_text_subroutine

BODY = """
set $cnt 5
set $cnt2 7
add $cnt2 $cnt2 $cnt
ret_reg $cnt2
"""
HEAD = "# NETQASM 0.0\n# APPID 0\n"
EXPANDED = HEAD + BODY.replace("$cnt2", "R2").replace("$cnt", "R1")


def listing(text):
    return [str(i) for i in parse_text_subroutine(text).instructions]


def main():
    want = listing(EXPANDED)
    problems = []
    for order in (("cnt2 R2", "cnt R1"), ("cnt R1", "cnt2 R2")):
        text = HEAD + "".join(f"# DEFINE {d}\n" for d in order) + BODY
        try:
            got = listing(text)
        except Exception as exc:  # noqa
            got = [f"{type(exc).__name__}: {exc}"]
        if got != want:
            problems.append(f"definitions {order}: assembled {got}, expected {want}")
    if problems:
        print("FAIL")
        for p in problems:
            print("  -", p)
        return 1
    print("PASS")
    return 0


if __name__ == "__main__":
    sys.exit(main())
