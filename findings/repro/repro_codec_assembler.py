from netqasm.backend.messages import ReturnArrayMessage, deserialize_return_msg
m = ReturnArrayMessage(address=3, values=[1,None,5,None])
print(deserialize_return_msg(bytes(m)).values)
from netqasm.lang.encoding import OptionalInt
o=OptionalInt(None); print(type(OptionalInt.__dict__['value']), o.value, o.type)
# C03 scratch collision
from netqasm.lang.parsing import parse_text_subroutine
print(parse_text_subroutine("# NETQASM 1.0\n# APPID 0\nstore 7 @0[R0]\n"))
# R16
s=parse_text_subroutine("# NETQASM 1.0\n# APPID 0\nset R16 1\n")
from netqasm.lang.parsing import deserialize
print(deserialize(bytes(s)))
# opcode clash
s=parse_text_subroutine("# NETQASM 1.0\n# APPID 0\nmeas_basis Q0 M0 1 2 3 4\n")
print(deserialize(bytes(s)))
