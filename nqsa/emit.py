"""Emission model of builder code: ICmd / BranchLabel constructions read from the AST."""
from __future__ import annotations

import ast
from dataclasses import dataclass, field
from typing import Dict, List, Optional, Tuple

from . import astutil as A
from .model import dotted, src


@dataclass
class Emit:
    kind: str  # 'icmd' | 'label' | 'other'
    instr: Optional[str]  # GenericInstr member name, or the norm of a non-literal instruction expression
    operands: List[ast.AST] = field(default_factory=list)
    args: List[ast.AST] = field(default_factory=list)
    node: Optional[ast.AST] = None

    def ops(self) -> List[str]:
        return [A.norm(o) for o in self.operands]


def parse_icmd(call: ast.Call, defs: Dict[str, ast.AST] = None) -> Optional[Emit]:
    name = A.call_name(call)
    if name == "BranchLabel":
        return Emit("label", None, list(call.args), node=call)
    if name != "ICmd":
        return None
    kw = A.kwargs_of(call)
    ins = kw.get("instruction", call.args[0] if call.args else None)
    iname = None
    if ins is not None:
        d = dotted(ins)
        iname = d.split(".")[-1] if d and d.startswith("GenericInstr.") else A.norm(ins)
    ops = kw.get("operands")
    if isinstance(ops, ast.Name) and defs and isinstance(defs.get(ops.id), ast.List):
        ops = defs[ops.id]  # one level: the list literal the name is bound to; its elements stay as written
    args = kw.get("args")
    return Emit("icmd", iname, list(ops.elts) if isinstance(ops, ast.List) else ([ops] if ops is not None else []),
                list(args.elts) if isinstance(args, ast.List) else [], node=call)


def returned_list(fn) -> Optional[List[Emit]]:
    """elements of the list literal returned by fn (locals expanded)"""
    rets = A.returns(fn)
    if len(rets) != 1:
        return None
    defs = A.single_defs(fn)
    e = A.expand(rets[0].value, defs)
    if not isinstance(e, ast.List):
        return None
    out = []
    for x in e.elts:
        if isinstance(x, ast.Call):
            em = parse_icmd(x, defs)
            out.append(em if em is not None else Emit("other", None, node=x))
        else:
            out.append(Emit("other", None, node=x))
    return out


def icmds_in(fn, nested=True) -> List[Emit]:
    out = []
    defs = A.single_defs(fn) if isinstance(fn, (ast.FunctionDef, ast.AsyncFunctionDef)) else {}
    for c in A.calls_in(fn, nested=nested):
        em = parse_icmd(c, defs)
        if em is not None and em.kind == "icmd":
            out.append(em)
    return sorted(out, key=lambda e: (e.node.lineno, e.node.col_offset))


def concat_terms(e) -> List[str]:
    """a + b + c -> ['a', 'b', 'c'] (norms)"""
    out = []

    def rec(x):
        if isinstance(x, ast.BinOp) and isinstance(x.op, ast.Add):
            rec(x.left)
            rec(x.right)
        else:
            out.append(A.norm(x))
    rec(e)
    return out


def list_terms(fn, name: str):
    """ordered terms [(kind, expr)] of the list variable `name` at the end of fn, whatever style builds it:
    `name = a + [b]`, `name = []; name.extend(a); name.append(b)`, `name += a`.  kind is 'list' (a list-valued term) or
    'item' (a single element).  None when `name` is bound in a way that is not understood."""
    terms = []
    seen = False
    for st in sorted([n for n in A.body_nodes(fn) if isinstance(n, ast.stmt)], key=lambda n: (n.lineno, n.col_offset)):
        if isinstance(st, (ast.Assign, ast.AnnAssign)):
            tg = st.targets[0] if isinstance(st, ast.Assign) else st.target
            if isinstance(tg, ast.Tuple) and st.value is not None:
                for k_, e_ in enumerate(tg.elts):
                    if isinstance(e_, ast.Name) and e_.id == name:
                        seen = True
                        terms = [("list", ast.Subscript(value=st.value, slice=ast.Constant(value=k_), ctx=ast.Load()))]
            if isinstance(tg, ast.Name) and tg.id == name and st.value is not None:
                seen = True
                terms = []

                def rec(x):
                    if isinstance(x, ast.BinOp) and isinstance(x.op, ast.Add):
                        rec(x.left)
                        rec(x.right)
                    elif isinstance(x, ast.List):
                        for e in x.elts:
                            terms.append(("item", e))
                    else:
                        terms.append(("list", x))
                rec(st.value)
        elif isinstance(st, ast.AugAssign) and isinstance(st.target, ast.Name) and st.target.id == name and isinstance(st.op, ast.Add):
            if isinstance(st.value, ast.List):
                terms.extend(("item", e) for e in st.value.elts)
            else:
                terms.append(("list", st.value))
        elif isinstance(st, ast.Expr) and isinstance(st.value, ast.Call) and isinstance(st.value.func, ast.Attribute) and isinstance(st.value.func.value, ast.Name) \
                and st.value.func.value.id == name and len(st.value.args) == 1:
            if st.value.func.attr == "append":
                terms.append(("item", st.value.args[0]))
            elif st.value.func.attr == "extend":
                terms.append(("list", st.value.args[0]))
            elif st.value.func.attr in ("insert", "pop", "remove", "clear", "sort", "reverse"):
                return None
    return terms if seen else None
