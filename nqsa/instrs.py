"""Facts about the instruction classes, extracted from the syntax tree.

Shared by C01, C02, C03, C06, C16, C17.
"""
from __future__ import annotations

import ast
from dataclasses import dataclass, field
from typing import Any, Dict, List, Optional, Tuple

from . import astutil as A
from . import wire
from .model import AnalysisError, CStructRef, ClassInfo, ConstEval, Repo, Unknown, dotted, src

FLAVOUR_MOD = "netqasm.lang.instr.flavour"
BASE_MOD = "netqasm.lang.instr.base"
CORE_MOD = "netqasm.lang.instr.core"
ENC_MOD = "netqasm.lang.encoding"
OPERAND_MOD = "netqasm.lang.operand"
NON_OPERAND_FIELDS = ("id", "mnemonic", "lineno")


def _class_list(repo: Repo, m, expr) -> List[ClassInfo]:
    if not isinstance(expr, ast.List):
        raise AnalysisError(f"instruction list is not a list literal: {src(expr)[:60]}")
    out = []
    for e in expr.elts:
        c = repo.resolve_class(m, e)
        if c is None:
            raise AnalysisError(f"cannot resolve instruction class {src(e)}")
        out.append(c)
    return out


def core_instructions(repo: Repo) -> List[ClassInfo]:
    m = repo.module(FLAVOUR_MOD)
    if "CORE_INSTRUCTIONS" not in m.assigns:
        raise AnalysisError("CORE_INSTRUCTIONS not found in flavour.py")
    return _class_list(repo, m, m.assigns["CORE_INSTRUCTIONS"])


def flavours(repo: Repo) -> Dict[str, Tuple[ClassInfo, List[ClassInfo], List[ClassInfo]]]:
    """flavour class name -> (ClassInfo, core list, specific list)"""
    m = repo.module(FLAVOUR_MOD)
    base = m.classes.get("Flavour")
    if base is None:
        raise AnalysisError("class Flavour not found")
    core = core_instructions(repo)
    out = {}
    for c in repo.subclasses(base):
        r = repo.lookup(c, "instrs")
        if r is None:
            raise AnalysisError(f"{c.name}.instrs not found")
        rets = A.returns(r[1])
        if not rets and (r[0] is base or any((dotted(d_) or "").split(".")[-1] == "abstractmethod" for d_ in r[1].decorator_list)):
            continue  # an intermediate class that still inherits the abstract `instrs`: not a flavour of its own
        if len(rets) != 1:
            raise AnalysisError(f"{c.name}.instrs has {len(rets)} returns")
        out[c.name] = (c, core, _class_list(repo, r[0].module, rets[0].value))
    return out


def field_default(repo: Repo, ev: ConstEval, c: ClassInfo, name):
    for fname, ann, val, k in repo.dataclass_fields(c):
        if fname == name:
            if val is None:
                return None
            return ev.eval(val, k.module)
    return None


def operand_fields(repo: Repo, c: ClassInfo) -> List[Tuple[str, ast.AST, ClassInfo]]:
    return [(n, ann, k) for n, ann, val, k in repo.dataclass_fields(c) if n not in NON_OPERAND_FIELDS]


def ann_types(ann) -> List[str]:
    """Names of the types in an annotation (Union[...] flattened, Optional)."""
    if ann is None:
        return []
    if isinstance(ann, ast.Subscript):
        d = dotted(ann.value)
        if d and d.split(".")[-1] in ("Union", "Optional"):
            sl = ann.slice
            elts = sl.elts if isinstance(sl, ast.Tuple) else [sl]
            out = []
            for e in elts:
                out.extend(ann_types(e))
            return out
        return [src(ann)]
    if isinstance(ann, ast.Constant) and isinstance(ann.value, str):
        return [ann.value]
    d = dotted(ann)
    return [d.split(".")[-1]] if d else [src(ann)]


@dataclass
class SerInfo:
    owner: ClassInfo
    fn: ast.FunctionDef
    struct: Optional[ClassInfo]
    fields: Dict[str, ast.AST]  # struct field -> expanded expression
    problems: List[str] = field(default_factory=list)


@dataclass
class DesInfo:
    owner: ClassInfo
    fn: ast.FunctionDef
    struct: Optional[ClassInfo]
    struct_var: Optional[str]
    kwargs: Dict[str, ast.AST]  # ctor kw -> expanded expression
    problems: List[str] = field(default_factory=list)


def _find_struct_ctor(repo, m, fn, defs):
    """find encoding.XCommand(...) call in a serialize-like function"""
    for r in A.returns(fn):
        e = A.expand(r.value, defs)
        for n in ast.walk(e):
            if isinstance(n, ast.Call):
                c = repo.resolve_class(m, n.func)
                if c is not None and c.module.name == ENC_MOD:
                    return c, n
    return None, None


def analyse_serialize(repo: Repo, owner: ClassInfo, fn) -> SerInfo:
    m = owner.module
    defs = A.single_defs(fn)
    c, call = _find_struct_ctor(repo, m, fn, defs)
    info = SerInfo(owner, fn, c, {})
    if c is None:
        info.problems.append("no encoding struct constructed in the returned value")
        return info
    if call.args:
        # positional: map by _fields_ order (done by caller with the layout); keep as _posN
        for i, a in enumerate(call.args):
            info.fields[f"_pos{i}"] = a
    for k, v in A.kwargs_of(call).items():
        if k in info.fields:
            info.problems.append(f"struct field {k} given twice")
        info.fields[k] = v
    return info


def analyse_deserialize(repo: Repo, owner: ClassInfo, fn) -> DesInfo:
    m = owner.module
    defs = A.single_defs(fn)
    struct = None
    struct_var = None
    # X = encoding.S.from_buffer_copy(raw)
    for name, val in defs.items():
        if isinstance(val, ast.Call) and isinstance(val.func, ast.Attribute) and val.func.attr in ("from_buffer_copy", "from_buffer"):
            c = repo.resolve_class(m, val.func.value)
            if c is not None:
                struct, struct_var = c, name
    info = DesInfo(owner, fn, struct, struct_var, {})
    if struct is None:
        info.problems.append("no encoding struct decoded with from_buffer_copy")
        return info
    defs2 = {k: v for k, v in defs.items() if k != struct_var}
    rets = A.returns(fn)
    if len(rets) != 1 or not isinstance(rets[0].value, ast.Call):
        info.problems.append("deserialize_from does not return a single constructor call")
        return info
    call = rets[0].value
    if dotted(call.func) != "cls":
        info.problems.append(f"deserialize_from returns {src(call.func)}(...) instead of cls(...)")
    if call.args:
        info.problems.append("positional constructor arguments")
    for k, v in A.kwargs_of(call).items():
        info.kwargs[k] = A.expand(v, defs2)
    return info


def operands_attrs(repo: Repo, c: ClassInfo) -> Optional[List[str]]:
    """attribute names returned by the `operands` property, in order"""
    r = repo.lookup(c, "operands")
    if r is None:
        return None
    rets = A.returns(r[1])
    if len(rets) != 1 or not isinstance(rets[0].value, ast.List):
        return None
    out = []
    for e in rets[0].value.elts:
        if A.is_self_attr(e):
            out.append(e.attr)
        else:
            return None
    return out


def shape_owner(repo: Repo, c: ClassInfo, method: str) -> Optional[ClassInfo]:
    r = repo.lookup(c, method)
    return r[0] if r else None


def is_abstract_method(fn) -> bool:
    return any(dotted(d) in ("abstractmethod", "abc.abstractmethod") for d in fn.decorator_list)


def all_registered(repo: Repo) -> List[ClassInfo]:
    seen = []
    for name, (fc, core, spec) in flavours(repo).items():
        for c in core + spec:
            if c not in seen:
                seen.append(c)
    return seen


def struct_field_types(ev: ConstEval, sc: ClassInfo) -> Dict[str, Any]:
    return {n: (t, bits) for n, t, bits in wire.struct_fields(ev, sc)}
