"""Model of the subset of ctypes the repo uses.

Scalars, arrays `T * n`, Structures with optional `_pack_`, bit-fields of a
small unsigned base type allocated LSB-first (SysV/little-endian), nested
structs.  Computes sizeof and a flattened layout.
"""
from __future__ import annotations

import ast
from dataclasses import dataclass
from typing import Any, List, Optional, Tuple

from .model import (
    AnalysisError,
    CArray,
    CScalar,
    CStructRef,
    ClassInfo,
    ConstEval,
    Unknown,
    dotted,
    src,
)

PADDING_NAMES = ("padding",)


@dataclass
class FieldLayout:
    path: Tuple[str, ...]
    offset: int  # byte offset
    bit_offset: int  # bit offset inside the storage unit (0 if not a bit-field)
    bits: int  # width in bits
    kind: str  # 'uint8', 'int32', 'uint8[2]', 'bits:uint8'
    signed: bool
    ctype: Any

    def as_json(self):
        return {
            "path": ".".join(self.path),
            "offset": self.offset,
            "bit_offset": self.bit_offset,
            "bits": self.bits,
            "kind": self.kind,
        }


def struct_class(ev: ConstEval, ref: CStructRef) -> ClassInfo:
    mod, cn = ref.qualname.split(":")
    return ev.repo.get_class(mod, cn)


def struct_fields(ev: ConstEval, c: ClassInfo) -> List[Tuple[str, Any, Optional[int]]]:
    """All fields of a Structure class, base-class fields first."""
    cache = ev.__dict__.setdefault("_nqsa_struct_fields", {})
    if c.qualname in cache:
        return cache[c.qualname]
    out: List[Tuple[str, Any, Optional[int]]] = []
    for k in reversed(ev.repo.mro(c)):
        if "_fields_" not in k.attrs:
            continue
        _, val = k.attrs["_fields_"]
        try:
            flds = ev.eval(val, k.module)
        except Unknown as e:
            raise AnalysisError(f"cannot evaluate {k.name}._fields_: {e}")
        for f in flds:
            if not isinstance(f, (tuple, list)) or len(f) not in (2, 3):
                raise AnalysisError(f"{k.name}._fields_ entry {f!r} not understood")
            name, t = f[0], f[1]
            bits = f[2] if len(f) == 3 else None
            out.append((name, t, bits))
    cache[c.qualname] = out
    return out


def struct_pack(ev: ConstEval, c: ClassInfo) -> Optional[int]:
    la = ev.repo.lookup_attr(c, "_pack_")
    if la is None or la[2] is None:
        return None
    try:
        return ev.eval(la[2], la[0].module)
    except Unknown as e:
        raise AnalysisError(f"cannot evaluate {c.name}._pack_: {e}")


def alignment(ev: ConstEval, t) -> int:
    if isinstance(t, CScalar):
        return t.size
    if isinstance(t, CArray):
        return alignment(ev, t.elem)
    if isinstance(t, CStructRef):
        c = struct_class(ev, t)
        pack = struct_pack(ev, c)
        a = 1
        for _, ft, _ in struct_fields(ev, c):
            a = max(a, alignment(ev, ft))
        if pack:
            a = min(a, pack)
        return a
    raise AnalysisError(f"alignment of a {type(t).__name__}: {str(t)[:60]}")


def sizeof(ev: ConstEval, t) -> int:
    if isinstance(t, CScalar):
        return t.size
    if isinstance(t, CArray):
        return sizeof(ev, t.elem) * t.n
    if isinstance(t, CStructRef):
        c = struct_class(ev, t)
        return layout_fields(ev, struct_fields(ev, c), struct_pack(ev, c))[1]
    raise Unknown(f"sizeof({t!r})")


def kind_name(t) -> str:
    if isinstance(t, CScalar):
        return t.name[2:]
    if isinstance(t, CArray):
        return f"{kind_name(t.elem)}[{t.n}]"
    if isinstance(t, CStructRef):
        return t.qualname.split(":")[1]
    return "?"


def layout_fields(ev: ConstEval, fields, pack: Optional[int], prefix=()) -> Tuple[List[FieldLayout], int]:
    out: List[FieldLayout] = []
    off = 0
    max_align = 1
    # bit-field state
    bf_type: Optional[CScalar] = None
    bf_off = 0
    bf_used = 0
    for name, t, bits in fields:
        if bits is not None:
            if not isinstance(t, CScalar):
                raise AnalysisError(f"bit-field {name} of non-scalar type")
            if bits < 0 or bits > 8 * t.size:
                raise AnalysisError(f"bit-field {name} width {bits} outside its base type")
            if bf_type is not None and bf_type.size == t.size and bf_used + bits <= 8 * t.size:
                pass  # share the storage unit
            else:
                a = t.size if not pack else min(t.size, pack)
                off = (off + a - 1) // a * a
                bf_type, bf_off, bf_used = t, off, 0
                off += t.size
                max_align = max(max_align, a)
            out.append(FieldLayout(prefix + (name,), bf_off, bf_used, bits, "bits:" + kind_name(t), t.signed, t))
            bf_used += bits
            continue
        bf_type = None
        a = alignment(ev, t)
        if pack:
            a = min(a, pack)
        max_align = max(max_align, a)
        off = (off + a - 1) // a * a
        if isinstance(t, CStructRef):
            c = struct_class(ev, t)
            sub, sz = layout_fields(ev, struct_fields(ev, c), struct_pack(ev, c), prefix + (name,))
            for s in sub:
                s.offset += off
            out.extend(sub)
            off += sz
        else:
            sz = sizeof(ev, t)
            signed = t.signed if isinstance(t, CScalar) else False
            out.append(FieldLayout(prefix + (name,), off, 0, 8 * sz, kind_name(t), signed, t))
            off += sz
    total = (off + max_align - 1) // max_align * max_align if not pack else (off + min(max_align, pack) - 1) // min(max_align, pack) * min(max_align, pack)
    return out, total


def layout(ev: ConstEval, c: ClassInfo) -> Tuple[List[FieldLayout], int]:
    return layout_fields(ev, struct_fields(ev, c), struct_pack(ev, c))


def toplevel_fields(ev: ConstEval, c: ClassInfo):
    """(name, type, bits, byte offset, byte size) of the direct (unflattened) fields."""
    fields = struct_fields(ev, c)
    pack = struct_pack(ev, c)
    res = []
    flat, total = layout_fields(ev, fields, pack)
    for name, t, bits in fields:
        sub = [f for f in flat if f.path[0] == name]
        off = min(f.offset for f in sub)
        if bits is not None:
            size = t.size
        else:
            size = sizeof(ev, t)
        res.append((name, t, bits, off, size))
    return res, total


def eval_add_padding(ev: ConstEval, mod, fn: ast.FunctionDef, call: ast.Call, m, env):
    """Model of encoding.add_padding(fields): the function's own body is read
    for the names of the base struct and the total length; the result is
    fields + [(PADDING_FIELD, c_uint8 * (TOTAL - sizeof(Base + fields)))]."""
    if len(call.args) != 1:
        raise Unknown("add_padding arity")
    fields = ev.eval(call.args[0], m, env)
    # find base class of the temporary struct, the total constant and pad field name
    base = None
    total = None
    padname = None
    has_assert = False
    defs = {}
    for node in ast.walk(fn):
        if isinstance(node, ast.Assign) and len(node.targets) == 1 and isinstance(node.targets[0], ast.Name):
            defs.setdefault(node.targets[0].id, []).append(node.value)
    padcount = None
    for node in ast.walk(fn):
        if isinstance(node, ast.ClassDef) and node.bases:
            base = ev.eval(node.bases[0], mod)
        elif isinstance(node, ast.Tuple) and len(node.elts) == 2 and isinstance(node.elts[1], ast.BinOp) and isinstance(node.elts[1].op, ast.Mult):
            padname = ev.eval(node.elts[0], mod)
            padtype = ev.eval(node.elts[1].left, mod)
            padcount = node.elts[1].right
    # the pad count is <total> - <current size>: the total is the minuend (a constant expression, possibly through one local)
    if isinstance(padcount, ast.Name) and len(defs.get(padcount.id, [])) == 1:
        padcount_def = defs[padcount.id][0]
    else:
        padcount_def = padcount
    if isinstance(padcount_def, ast.BinOp) and isinstance(padcount_def.op, ast.Sub):
        minuend = padcount_def.left
        if isinstance(minuend, ast.Name) and len(defs.get(minuend.id, [])) == 1:
            minuend = defs[minuend.id][0]
        try:
            total = ev.eval(minuend, mod)
        except Unknown:
            total = None
    for node in ast.walk(fn):
        if isinstance(node, ast.Assert):
            t = node.test
            if isinstance(t, ast.Compare) and isinstance(t.ops[0], ast.GtE) and src(t.comparators[0]) == "0" and isinstance(padcount, ast.Name) and src(t.left) == padcount.id:
                has_assert = True
    if not isinstance(base, CStructRef) or total is None or padname is None:
        # written differently: the function is executed by the checker's interpreter on this field list (structure classes it
        # creates on the fly are modelled by their size)
        return _run_add_padding(ev, mod, fn, fields)
    bc = struct_class(ev, base)
    base_fields = struct_fields(ev, bc)
    _, cur = layout_fields(ev, base_fields + [tuple(f) + (None,) * (3 - len(f)) for f in fields], struct_pack(ev, bc))
    pad = total - cur
    if pad < 0:
        if has_assert:
            raise AnalysisError(f"command fields {fields!r} exceed {total} bytes (add_padding asserts)")
        pad = 0
    return list(fields) + [(padname, CArray(padtype, pad))]


def _run_add_padding(ev: ConstEval, mod, fn: ast.FunctionDef, fields):
    from . import circuit as C
    try:
        out = C.Interp(ev.repo, ev, C.Scenario(), None).call_function(mod, fn, [list(fields)], {})
    except C.EvalRaise as ex_:
        raise AnalysisError(f"encoding.add_padding refuses the fields {fields!r}: {ex_}")
    if not isinstance(out, list) or not all(isinstance(f, (tuple, list)) and len(f) in (2, 3) for f in out):
        raise AnalysisError(f"encoding.add_padding returns {out!r}")
    return [tuple(f) for f in out]
