"""T-pair engine: acquire/release of a resource on all normal paths, with
ownership transfer (return, list, per-context table, callee summary) and the
repo's correlated-guard idioms (same flag, `v is not None`, isinstance on the
argument that made the callee own).  Path-sensitive symbolic walk over the
structured AST of each unit; closures are units of their own.

Resource here = an *active classical register* of the SDK's MemoryManager.
"""
from __future__ import annotations

import ast
import copy
import re
from dataclasses import dataclass, field
from typing import Dict, List, Optional, Set, Tuple

from . import astutil as A
from .model import dotted, src

ACQ_BASE = "get_inactive_register"
ADD = "add_active_register"
REL = "remove_active_register"
CTX_ACT = "_activate_register"
MAX_STATES = 4096


@dataclass
class Res:
    rid: int
    site: str  # description of the acquire site (stable key part)
    node: ast.AST
    status: str = "owned"  # owned | released | transferred
    how: str = ""
    facts: Tuple = ()


@dataclass
class Summary:
    qualname: str
    returns_owned: Dict[Tuple[int, ...], List[Dict[str, bool]]] = field(default_factory=dict)  # tuple positions holding the same register ((-1,) = whole value) -> list of fact dicts (any)
    releases_params: Set[str] = field(default_factory=set)
    stores_tables: Set[str] = field(default_factory=set)
    pops_tables: Set[str] = field(default_factory=set)
    releases_from_tables: Set[str] = field(default_factory=set)
    params: List[str] = field(default_factory=list)
    defaults: Dict[str, ast.AST] = field(default_factory=dict)

    def sig(self):
        return (sorted((k, sorted(sorted(d.items()) for d in v)) for k, v in self.returns_owned.items()), sorted(self.releases_params),
                sorted(self.stores_tables), sorted(self.pops_tables), sorted(self.releases_from_tables))


@dataclass
class Leak:
    qualname: str
    site: str
    node: ast.AST
    exit_desc: str
    facts: Tuple


class State:
    __slots__ = ("var", "res", "null", "facts", "lists", "consts", "popped", "dead", "rel_params")

    def __init__(self):
        self.var: Dict[str, int] = {}  # var -> rid
        self.res: Dict[int, Res] = {}
        self.null: Dict[str, str] = {}
        self.facts: Dict[str, bool] = {}
        self.lists: Dict[str, Set[int]] = {}
        self.consts: Dict[str, object] = {}
        self.popped: Dict[str, str] = {}  # var -> table it was popped / derived from
        self.dead = False
        self.rel_params: Set[str] = set()

    def clone(self):
        s = State()
        s.var = dict(self.var)
        s.res = {k: copy.copy(v) for k, v in self.res.items()}
        s.null = dict(self.null)
        s.facts = dict(self.facts)
        s.lists = {k: set(v) for k, v in self.lists.items()}
        s.consts = dict(self.consts)
        s.popped = dict(self.popped)
        s.rel_params = set(self.rel_params)
        return s


_ident = re.compile(r"[A-Za-z_][A-Za-z_0-9]*")


def K(e) -> str:
    """parseable canonical text of a test expression (fact key)"""
    return ast.unparse(e)


def _merge_conds(conds: List[Dict[str, bool]]):
    """{c, k:True} + {c, k:False} -> {c};  anything subsumed by a weaker condition is dropped"""
    changed = True
    while changed:
        changed = False
        for i, a in enumerate(conds):
            for j, b in enumerate(conds):
                if i >= j:
                    continue
                if set(a) == set(b):
                    diff = [k for k in a if a[k] != b[k]]
                    if len(diff) == 1:
                        c = {k: v for k, v in a.items() if k != diff[0]}
                        conds[:] = [x for n, x in enumerate(conds) if n not in (i, j)]
                        if c not in conds:
                            conds.append(c)
                        changed = True
                        break
            if changed:
                break
        for a in list(conds):
            if any(b is not a and all(a.get(k) == v for k, v in b.items()) and len(b) < len(a) for b in conds):
                conds.remove(a)
                changed = True


class Analyzer:
    """Analyse a set of units (functions, methods, closures) of the SDK."""

    def __init__(self, units: Dict[str, Tuple[ast.AST, object]], by_name: Dict[str, List[str]], mode: str = "register", ctors: Tuple[str, ...] = ()):
        self.mode = mode  # "register": active registers; "handle": activated qubit handles (constructor = acquire, `.active = False` = release)
        self.ctors = ctors
        self.units = units  # qualname -> (fn node, module)
        self.by_name = by_name  # simple method name -> [qualnames]
        self.summaries: Dict[str, Summary] = {}
        self.leaks: List[Leak] = []
        self.errors: List[str] = []
        self.acquire_sites: Dict[Tuple[str, str], ast.AST] = {}
        self.site_ok: Dict[Tuple[str, str], bool] = {}
        self.nonactivating: List[Tuple[str, ast.AST, str]] = []
        self.unresolved = 0
        self.calls = 0

    # -- driver -----------------------------------------------------------
    def run(self, rounds=4):
        for q, (fn, m) in self.units.items():
            s = Summary(q)
            s.params = A.param_names(fn)
            a = fn.args
            pos = a.posonlyargs + a.args
            for p, d in zip(pos[len(pos) - len(a.defaults):], a.defaults):
                s.defaults[p.arg] = d
            for p, d in zip(a.kwonlyargs, a.kw_defaults):
                if d is not None:
                    s.defaults[p.arg] = d
            self.summaries[q] = s
        for _ in range(rounds):
            before = {q: s.sig() for q, s in self.summaries.items()}
            self.leaks = []
            self.errors = []
            self.acquire_sites = {}
            self.site_ok = {}
            self.nonactivating = []
            for q in self.units:
                self.analyse_unit(q)
            if before == {q: s.sig() for q, s in self.summaries.items()}:
                break

    def resolve(self, call: ast.Call) -> Optional[str]:
        name = A.call_name(call)
        if name is None or not isinstance(call.func, ast.Attribute):
            return None
        qs = self.by_name.get(name)
        if not qs:
            return None
        if len(qs) > 1:
            self.unresolved += 1
            return None
        return qs[0]

    # -- per unit ---------------------------------------------------------
    def analyse_unit(self, q):
        fn, m = self.units[q]
        self.q = q
        self.fn = fn
        self.summary = self.summaries[q]
        self.params = set(A.param_names(fn))
        self.reassigned = set(A.assigned_names(fn)) & self.params
        self._rid = 0
        self._ret_pos: Dict[int, Tuple[int, ...]] = {}
        self._site_count: Dict[str, int] = {}
        self._site_of_node: Dict[int, str] = {}
        st = State()
        # constant flags: names assigned exactly one constant and never re-assigned
        for k, vs in A.assigned_names(fn).items():
            if len(vs) == 1 and isinstance(vs[0], ast.Constant) and isinstance(vs[0].value, bool) and k not in self.params:
                st.consts[k] = vs[0].value
        self.exits: List[Tuple[State, str, Optional[ast.AST]]] = []
        outs = self.block(fn.body, [st])
        for s in outs:
            self.exits.append((s, "end of function", None))
        for s, desc, ret in self.exits:
            self.at_exit(s, desc, ret)
        if self.exits:
            common = set.intersection(*[set(s.rel_params) for s, _, _ in self.exits])
            self.summary.releases_params = common

    def site(self, node, desc):
        k = id(node)
        if k not in self._site_of_node:
            n = self._site_count.get(desc, 0) + 1
            self._site_count[desc] = n
            self._site_of_node[k] = desc if n == 1 else f"{desc}#{n}"
        s = self._site_of_node[k]
        self.acquire_sites[(self.q, s)] = node
        self.site_ok.setdefault((self.q, s), True)
        return s

    def new_res(self, st: State, var: Optional[str], node, desc, extra: Optional[Dict[str, bool]] = None) -> int:
        self._rid += 1
        from . import guards as G

        facts: Dict[str, bool] = {}
        for t, pol in G.enclosing_tests(self.fn, node):
            t = self._flag_def(t)
            while isinstance(t, ast.UnaryOp) and isinstance(t.op, ast.Not):
                t, pol = t.operand, not pol
            facts[K(t)] = pol
        facts.update(extra or {})
        r = Res(self._rid, self.site(node, desc), node, facts=tuple(sorted(facts.items())))
        st.res[r.rid] = r
        if var and getattr(self, "_keep_prev", False) and var in st.var:
            st.lists.setdefault(var, set()).add(st.var[var])
        if var:
            st.var[var] = r.rid
            st.null[var] = "nonnull"
        return r.rid

    def _deactivated_name(self, st) -> Optional[str]:
        """handle mode: `v.active = False` / `v._deactivate()` -> v"""
        if self.mode != "handle":
            return None
        if isinstance(st, ast.Assign) and len(st.targets) == 1 and isinstance(st.targets[0], ast.Attribute) and st.targets[0].attr == "active" \
                and isinstance(st.targets[0].value, ast.Name) and isinstance(st.value, ast.Constant) and st.value.value is False:
            return st.targets[0].value.id
        if isinstance(st, ast.Expr) and isinstance(st.value, ast.Call) and isinstance(st.value.func, ast.Attribute) and st.value.func.attr == "_deactivate" and isinstance(st.value.func.value, ast.Name):
            return st.value.func.value.id
        return None

    # -- statements -------------------------------------------------------
    def block(self, stmts, states: List[State]) -> List[State]:
        for stx in stmts:
            if not states:
                break
            nxt = []
            for s in states:
                nxt.extend(self.stmt(stx, s))
            if len(nxt) > MAX_STATES:
                self.errors.append(f"{self.q}: path explosion")
                nxt = nxt[:MAX_STATES]
            states = nxt
        return states

    def stmt(self, st, s: State) -> List[State]:
        if isinstance(st, (ast.FunctionDef, ast.AsyncFunctionDef, ast.ClassDef, ast.Pass, ast.Import, ast.ImportFrom, ast.Global, ast.Nonlocal)):
            return [s]
        dn = self._deactivated_name(st)
        if dn is not None:
            self.release_expr(ast.Name(id=dn, ctx=ast.Load()), s, st)
            return [s]
        if isinstance(st, ast.Expr):
            if isinstance(st.value, (ast.Yield, ast.YieldFrom)):
                return [s]
            self.expr_effects(st.value, s, discard=True)
            return [s]
        if isinstance(st, (ast.Assign, ast.AnnAssign)):
            return self.assign(st, s)
        if isinstance(st, ast.AugAssign):
            # L += [..] not tracked for resources; invalidate facts
            self.invalidate(s, st.target)
            self.expr_effects(st.value, s)
            return [s]
        if isinstance(st, ast.If):
            v = self.eval_test(st.test, s)
            outs = []
            if v is not False:
                t = s.clone() if v is None else s
                if v is None:
                    self.assume(st.test, True, t)
                outs += self.block(st.body, [t])
            if v is not True:
                f = s.clone() if v is None else s
                if v is None:
                    self.assume(st.test, False, f)
                outs += self.block(st.orelse, [f])
            return outs
        if isinstance(st, (ast.For, ast.AsyncFor)):
            return self.for_loop(st, s)
        if isinstance(st, ast.While):
            outs = self.block(st.body, [s.clone()])
            return outs + ([s] if not (isinstance(st.test, ast.Constant) and st.test.value) else [])
        if isinstance(st, (ast.With, ast.AsyncWith)):
            for it in st.items:
                ce = it.context_expr
                if isinstance(ce, ast.Call) and A.call_name(ce) == CTX_ACT:
                    continue  # balanced acquire/release around the body
                self.expr_effects(ce, s)
                if it.optional_vars is not None:
                    self.invalidate(s, it.optional_vars)
            return self.block(st.body, [s])
        if isinstance(st, ast.Try):
            outs = self.block(st.body, [s])
            if st.orelse:
                outs = self.block(st.orelse, outs)
            if st.finalbody:
                outs = self.block(st.finalbody, outs)
            return outs
        if isinstance(st, ast.Return):
            rq = self.resolve(st.value) if isinstance(st.value, ast.Call) else None
            is_acq = (isinstance(st.value, ast.Call) and A.call_name(st.value) == ACQ_BASE) if self.mode == "register" else (isinstance(st.value, ast.Call) and isinstance(st.value.func, ast.Name) and st.value.func.id in self.ctors)
            if isinstance(st.value, ast.Call) and (is_acq or (rq is not None and self.summaries[rq].returns_owned)):
                tgt = ast.Name(id="__ret__", ctx=ast.Store())
                synth = ast.Return(value=ast.Name(id="__ret__", ctx=ast.Load()))
                for o in self.assign_call(tgt, st.value, s):
                    self.exits.append((o, "return", synth))
                return []
            if st.value is not None:
                self.expr_effects(st.value, s)
            self.exits.append((s, "return", st))
            return []
        if isinstance(st, ast.Raise):
            return []
        if isinstance(st, ast.Assert):
            v = self.eval_test(st.test, s)
            if v is False:
                return []
            if v is None:
                self.assume(st.test, True, s)
            return [s]
        if isinstance(st, (ast.Break, ast.Continue, ast.Delete)):
            return [s]
        self.errors.append(f"{self.q}: unsupported statement {type(st).__name__}")
        return [s]

    def for_loop(self, st, s: State) -> List[State]:
        if self.mode == "handle" and isinstance(st.iter, ast.Name) and isinstance(st.target, ast.Name):
            top = [b for b in st.body if self._deactivated_name(b) == st.target.id]
            if top:
                self.release_expr(st.iter, s, st)
                return [s]
        # list-release idiom: for r in L: remove_active_register(r)
        if isinstance(st.iter, ast.Name) and isinstance(st.target, ast.Name) and st.iter.id in s.lists:
            rel = [c for b in st.body for c in ast.walk(b) if isinstance(c, ast.Call) and A.call_name(c) == REL and c.args and isinstance(c.args[0], ast.Name) and c.args[0].id == st.target.id]
            top = [b for b in st.body if isinstance(b, ast.Expr) and isinstance(b.value, ast.Call) and A.call_name(b.value) == REL]
            if rel:
                if top:
                    for rid in s.lists[st.iter.id]:
                        if s.res[rid].status == "owned":
                            s.res[rid].status = "released"
                    s.lists[st.iter.id] = set()
                    return [s]
                self.errors.append(f"{self.q}: conditional release inside a loop over a register list (unrecognised idiom)")
                return [s]
        self.invalidate(s, st.target)
        before = set(s.res)
        outs = self.block(st.body, [s.clone()])
        # resources acquired inside the body and still plainly owned at the end of the body leak every iteration
        res_outs = []
        for o in outs:
            for rid, r in o.res.items():
                if rid not in before and r.status == "owned" and not any(rid in l for l in o.lists.values()):
                    self.report(o, r, "end of a loop iteration")
                    r.status = "released"  # reported once
            res_outs.append(o)
        if st.orelse:
            res_outs = self.block(st.orelse, res_outs)
        return res_outs or [s]

    def assign(self, st, s: State) -> List[State]:
        value = st.value
        targets = st.targets if isinstance(st, ast.Assign) else [st.target]
        if value is None:
            return [s]
        t0 = targets[0]
        # table store
        if isinstance(t0, ast.Subscript) and A.is_self_attr(t0.value):
            table = t0.value.attr
            held = self.rids_in(value, s)
            if held:
                for rid in held:
                    if s.res[rid].status == "owned":
                        s.res[rid].status = "transferred"
                        s.res[rid].how = f"table {table}"
                self.summary.stores_tables.add(table)
            return [s]
        if isinstance(t0, ast.Attribute):
            # obj.attr = value : storing a register in an object hands it to that object (e.g. future.reg = outcome_reg)
            self.expr_effects(value, s)
            return [s]
        for t in targets:
            self.invalidate(s, t)
        # x = None
        if isinstance(t0, ast.Name):
            if isinstance(value, ast.Constant) and value.value is None:
                s.null[t0.id] = "none"
                s.var.pop(t0.id, None)
                return [s]
            if isinstance(value, ast.Name):
                if value.id in s.var:
                    s.var[t0.id] = s.var[value.id]
                    s.null[t0.id] = "nonnull"
                else:
                    s.var.pop(t0.id, None)
                    if value.id in s.null:
                        s.null[t0.id] = s.null[value.id]
                    else:
                        s.null.pop(t0.id, None)
                if value.id in s.popped:
                    s.popped[t0.id] = s.popped[value.id]
                if value.id in s.lists:
                    s.lists[t0.id] = s.lists[value.id]
                return [s]
            if isinstance(value, (ast.List, ast.Tuple)):
                held = set()
                for e in value.elts:
                    if isinstance(e, ast.Name) and e.id in s.var:
                        held.add(s.var[e.id])
                s.lists[t0.id] = held
                s.var.pop(t0.id, None)
                return [s]
            if isinstance(value, ast.Subscript) and isinstance(value.value, ast.Name) and value.value.id in s.popped:
                s.popped[t0.id] = s.popped[value.value.id]
                s.var.pop(t0.id, None)
                return [s]
        if isinstance(t0, (ast.Tuple, ast.List)) and isinstance(value, ast.Name) and value.id in s.popped:
            for e in t0.elts:
                if isinstance(e, ast.Name):
                    s.popped[e.id] = s.popped[value.id]
            return [s]
        # calls
        if isinstance(value, ast.Call):
            return self.assign_call(t0, value, s)
        self.expr_effects(value, s)
        if isinstance(t0, ast.Name):
            s.var.pop(t0.id, None)
            s.null.pop(t0.id, None)
        return [s]

    def assign_call(self, target, call: ast.Call, s: State) -> List[State]:
        name = A.call_name(call)
        tname = target.id if isinstance(target, ast.Name) else None
        # table pop
        if name in ("pop", "get") and isinstance(call.func, ast.Attribute) and A.is_self_attr(call.func.value):
            table = call.func.value.attr
            if name == "pop":
                self.summary.pops_tables.add(table)
            if tname:
                s.popped[tname] = table
                s.var.pop(tname, None)
            return [s]
        if self.mode == "handle":
            if isinstance(call.func, ast.Name) and call.func.id in self.ctors:
                self.expr_effects_args(call, s)
                self.new_res(s, tname, call, call.func.id + "(...)")
                return [s]
        elif name == ACQ_BASE and isinstance(call.func, ast.Attribute):
            act = A.get_arg(call, 0, "activate")
            if act is None or (isinstance(act, ast.Constant) and not act.value):
                if tname:
                    s.var.pop(tname, None)
                    self.nonactivating.append((self.q, call, tname))
                return [s]
            if isinstance(act, ast.Constant) and act.value:
                self.new_res(s, tname, call, ACQ_BASE)
                return [s]
            # activate given by an expression: fork on its truthiness
            v = self.eval_test(act, s)
            outs = []
            if v is not False:
                t = s.clone() if v is None else s
                if v is None:
                    self.assume(act, True, t)
                self.new_res(t, tname, call, ACQ_BASE, extra={K(act): True})
                outs.append(t)
            if v is not True:
                f = s.clone() if v is None else s
                if v is None:
                    self.assume(act, False, f)
                if tname:
                    f.var.pop(tname, None)
                outs.append(f)
            return outs
        self.expr_effects_args(call, s)
        q = self.resolve(call)
        if q is not None:
            self.calls += 1
            sm = self.summaries[q]
            self.apply_releases(call, sm, s)
            if sm.returns_owned:
                return self.bind_returned(target, call, q, sm, s)
        if tname:
            s.var.pop(tname, None)
            s.null.pop(tname, None)
        elif isinstance(target, (ast.Tuple, ast.List)):
            for e in target.elts:
                if isinstance(e, ast.Name):
                    s.var.pop(e.id, None)
        return [s]

    def bind_returned(self, target, call, q, sm: Summary, s: State) -> List[State]:
        """callee returns owned resources at some positions under conditions on its parameters"""
        short = q.split(".")[-1]
        outs = [s]
        bound_now: Set[str] = set()
        synthetic = isinstance(target, ast.Name) and target.id == "__ret__"
        for pos, conds in sorted(sm.returns_owned.items()):
            # target variables for these positions (all bound to the same register)
            tvs = []
            for p_ in pos:
                if p_ == -1:
                    if isinstance(target, ast.Name):
                        tvs.append(target.id)
                elif isinstance(target, (ast.Tuple, ast.List)) and p_ < len(target.elts) and isinstance(target.elts[p_], ast.Name):
                    tvs.append(target.elts[p_].id)
            if synthetic:
                tvs = ["__ret__"]
            tv = tvs[0] if tvs else None
            others = tvs[1:]
            self._keep_prev = bool(tv) and tv in bound_now
            nxt = []
            for st in outs:
                # translate conditions to the caller
                alts = []
                for cond in conds:
                    alts.append(self.translate_cond(cond, call, sm))
                # definitely owned if some alternative has no residual condition
                if any(len(a) == 0 for a in alts if a is not None):
                    self.new_res(st, tv, call, f"result of {short}")
                    nxt.append(st)
                    continue
                alts = [a for a in alts if a is not None]  # None = condition statically false
                if not alts:
                    if tv:
                        st.var.pop(tv, None)
                    nxt.append(st)
                    continue
                if len(alts) > 1:
                    self.errors.append(f"{self.q}: call of {short} with several ownership conditions (unrecognised)")
                alt = alts[0]
                # fork on the conjunction of residual facts
                known_false = any(st.facts.get(k) is (not v) for k, v in alt.items())
                known_true = all(st.facts.get(k) is v for k, v in alt.items())
                if known_false:
                    if tv:
                        st.var.pop(tv, None)
                    nxt.append(st)
                elif known_true:
                    self.new_res(st, tv, call, f"result of {short}", extra=dict(alt))
                    nxt.append(st)
                else:
                    a = st.clone()
                    for k, v in alt.items():
                        a.facts[k] = v
                    self.new_res(a, tv, call, f"result of {short}", extra=dict(alt))
                    nxt.append(a)
                    if len(alt) == 1:
                        b = st
                        (k, v), = alt.items()
                        b.facts[k] = not v
                        if tv:
                            b.var.pop(tv, None)
                        nxt.append(b)
                    else:
                        b = st
                        if tv:
                            b.var.pop(tv, None)
                        nxt.append(b)
            for st in nxt:
                if tv and tv in st.var:
                    new_rid = st.var[tv]
                    if synthetic:
                        self._ret_pos[new_rid] = pos
                    for o in others:
                        if o in bound_now and o in st.var and st.var[o] != new_rid:
                            st.lists.setdefault(o, set()).update({st.var[o], new_rid})
                        else:
                            st.var[o] = new_rid
                            st.null[o] = "nonnull"
                    if tv in bound_now:
                        # several returned registers/handles land in the same variable (a list): keep them all
                        st.lists.setdefault(tv, set()).add(new_rid)
                else:
                    for o in others:
                        if o not in bound_now:
                            st.var.pop(o, None)
            self._keep_prev = False
            if tv:
                bound_now.add(tv)
            bound_now.update(others)
            outs = nxt
        return outs

    def translate_cond(self, cond: Dict[str, bool], call: ast.Call, sm: Summary) -> Optional[Dict[str, bool]]:
        """substitute callee parameters by the argument expressions; evaluate what is constant.
        returns residual fact dict, or None when the condition is statically false"""
        params = [p for p in sm.params if p not in ("self", "cls")]
        binding: Dict[str, ast.AST] = {}
        for i, a in enumerate(call.args):
            if i < len(params):
                binding[params[i]] = a
        for k in call.keywords:
            if k.arg:
                binding[k.arg] = k.value
        for p, d in sm.defaults.items():
            binding.setdefault(p, d)
        out: Dict[str, bool] = {}
        for text, val in cond.items():
            try:
                e = ast.parse(text, mode="eval").body
            except SyntaxError:
                out[text] = val
                continue

            class Sub(ast.NodeTransformer):
                def visit_Name(self_, node):
                    if node.id in binding:
                        return copy.deepcopy(binding[node.id])
                    return node
            e2 = Sub().visit(e)
            ast.fix_missing_locations(e2)
            c = self.const_truth(e2)
            if c is not None:
                if c != val:
                    return None
                continue
            out[K(e2)] = val
        return out

    @staticmethod
    def const_truth(e) -> Optional[bool]:
        if isinstance(e, ast.Constant):
            return bool(e.value)
        if isinstance(e, ast.Compare) and len(e.ops) == 1 and isinstance(e.left, ast.Constant) and isinstance(e.comparators[0], ast.Constant):
            a, b = e.left.value, e.comparators[0].value
            if isinstance(e.ops[0], ast.Is):
                return a is b
            if isinstance(e.ops[0], ast.IsNot):
                return a is not b
        if isinstance(e, ast.Call) and dotted(e.func) == "isinstance" and isinstance(e.args[0], ast.Constant):
            return False if e.args[0].value is None else None
        return None

    def apply_releases(self, call, sm: Summary, s: State):
        if not sm.releases_params:
            return
        params = [p for p in sm.params if p not in ("self", "cls")]
        for i, a in enumerate(call.args):
            if i < len(params) and params[i] in sm.releases_params:
                self.release_expr(a, s, call)
        for k in call.keywords:
            if k.arg in sm.releases_params:
                self.release_expr(k.value, s, call)

    def release_expr(self, e, s: State, node):
        if isinstance(e, ast.Name):
            if e.id in s.lists and e.id not in s.var:
                for rid in s.lists[e.id]:
                    if s.res[rid].status == "owned":
                        s.res[rid].status = "released"
                s.lists[e.id] = set()
                if e.id in self.params and e.id not in self.reassigned:
                    s.rel_params.add(e.id)
                return
            if e.id in s.var:
                r = s.res[s.var[e.id]]
                r.status = "released"
                for rid in s.lists.get(e.id, set()):
                    if s.res[rid].status == "owned":
                        s.res[rid].status = "released"
                if e.id in self.params and e.id not in self.reassigned:
                    s.rel_params.add(e.id)
                return
            if e.id in s.popped:
                self.summary.releases_from_tables.add(s.popped[e.id])
                return
            if e.id in self.params and e.id not in self.reassigned:
                s.rel_params.add(e.id)

    def expr_effects_args(self, call, s: State):
        for a in list(call.args) + [k.value for k in call.keywords]:
            self.expr_effects(a, s)

    def expr_effects(self, e, s: State, discard=False):
        """effects of evaluating an expression (calls inside it)"""
        if e is None:
            return
        for c in [n for n in A.walk_no_nested(e) if isinstance(n, ast.Call)]:
            name = A.call_name(c)
            if self.mode == "handle":
                if name == "append" and isinstance(c.func, ast.Attribute) and isinstance(c.func.value, ast.Name) and c.args and isinstance(c.args[0], ast.Name):
                    lst, v = c.func.value.id, c.args[0].id
                    if v in s.var:
                        s.lists.setdefault(lst, set()).add(s.var[v])
                    continue
                if isinstance(c.func, ast.Name) and c.func.id in self.ctors and c is e and discard:
                    self.new_res(s, None, c, c.func.id + "(...) (discarded)")
                    continue
                q = self.resolve(c) if isinstance(c.func, ast.Attribute) else None
                if q is not None:
                    self.calls += 1
                    sm = self.summaries[q]
                    self.apply_releases(c, sm, s)
                    if sm.returns_owned and c is e and discard:
                        for pos, conds in sm.returns_owned.items():
                            self.new_res(s, None, c, f"result of {q.split('.')[-1]} (discarded)")
                continue
            if name == REL and c.args:
                self.release_expr(c.args[0], s, c)
            elif name == ADD and c.args and isinstance(c.func, ast.Attribute):
                a = c.args[0]
                if isinstance(a, ast.Name):
                    self.new_res(s, a.id, c, ADD)
            elif name == "append" and isinstance(c.func, ast.Attribute) and isinstance(c.func.value, ast.Name) and c.args and isinstance(c.args[0], ast.Name):
                lst, v = c.func.value.id, c.args[0].id
                if v in s.var:
                    s.lists.setdefault(lst, set()).add(s.var[v])
            elif name == ACQ_BASE and isinstance(c.func, ast.Attribute) and c is e and discard:
                act = A.get_arg(c, 0, "activate")
                if isinstance(act, ast.Constant) and act.value:
                    rid = self.new_res(s, None, c, ACQ_BASE)
            else:
                q = self.resolve(c) if isinstance(c.func, ast.Attribute) else None
                if q is not None:
                    self.calls += 1
                    sm = self.summaries[q]
                    self.apply_releases(c, sm, s)
                    if sm.returns_owned and c is e and discard:
                        # result thrown away
                        for pos, conds in sm.returns_owned.items():
                            self.new_res(s, None, c, f"result of {q.split('.')[-1]} (discarded)")

    # -- tests ------------------------------------------------------------
    def _flag_def(self, t):
        """a test that is a local bound exactly once to a pure boolean expression (isinstance / comparison / not / and / or)
        stands for that expression: `flag = isinstance(x, T) ... if flag:` carries the same fact as `if isinstance(x, T):`"""
        if isinstance(t, ast.Name) and getattr(self, "fn", None) is not None:
            cache = getattr(self, "_flag_cache", None)
            if cache is None or cache[0] is not self.fn:
                from . import astutil as A_
                defs = A_.single_defs(self.fn)
                cache = (self.fn, {k: v for k, v in defs.items() if isinstance(v, (ast.Compare, ast.BoolOp)) or (isinstance(v, ast.UnaryOp) and isinstance(v.op, ast.Not))
                                   or (isinstance(v, ast.Call) and isinstance(v.func, ast.Name) and v.func.id == "isinstance")})
                self._flag_cache = cache
            return cache[1].get(t.id, t)
        return t

    def eval_test(self, t, s: State) -> Optional[bool]:
        t = self._flag_def(t)
        if isinstance(t, ast.Constant):
            return bool(t.value)
        if isinstance(t, ast.UnaryOp) and isinstance(t.op, ast.Not):
            v = self.eval_test(t.operand, s)
            return None if v is None else (not v)
        if isinstance(t, ast.Name):
            if t.id in s.consts:
                return bool(s.consts[t.id])
            if t.id in s.var:
                return True
            if s.null.get(t.id) == "none":
                return False
            return s.facts.get(t.id)
        if isinstance(t, ast.Compare) and len(t.ops) == 1 and isinstance(t.comparators[0], ast.Constant) and t.comparators[0].value is None and isinstance(t.left, ast.Name):
            n = s.null.get(t.left.id)
            if t.left.id in s.var:
                n = "nonnull"
            if n is not None:
                isnone = n == "none"
                return isnone if isinstance(t.ops[0], ast.Is) else (not isnone if isinstance(t.ops[0], ast.IsNot) else None)
        if isinstance(t, ast.BoolOp):
            vals = [self.eval_test(v, s) for v in t.values]
            if isinstance(t.op, ast.And):
                if any(v is False for v in vals):
                    return False
                if all(v is True for v in vals):
                    return True
            else:
                if any(v is True for v in vals):
                    return True
                if all(v is False for v in vals):
                    return False
        return s.facts.get(K(t))

    def assume(self, t, val: bool, s: State):
        t = self._flag_def(t)
        if isinstance(t, ast.UnaryOp) and isinstance(t.op, ast.Not):
            return self.assume(t.operand, not val, s)
        if isinstance(t, ast.BoolOp):
            if isinstance(t.op, ast.And) and val:
                for v in t.values:
                    self.assume(v, True, s)
            elif isinstance(t.op, ast.Or) and not val:
                for v in t.values:
                    self.assume(v, False, s)
        if isinstance(t, ast.Compare) and len(t.ops) == 1 and isinstance(t.comparators[0], ast.Constant) and t.comparators[0].value is None and isinstance(t.left, ast.Name):
            isnone = val if isinstance(t.ops[0], ast.Is) else (not val)
            s.null[t.left.id] = "none" if isnone else "nonnull"
        s.facts[K(t)] = val

    def invalidate(self, s: State, target):
        names = {n.id for n in ast.walk(target) if isinstance(n, ast.Name)}
        if not names:
            return
        for k in list(s.facts):
            if names & set(_ident.findall(k)):
                del s.facts[k]
        for n in names:
            s.popped.pop(n, None)

    def rids_in(self, e, s: State) -> Set[int]:
        out = set()
        for n in ast.walk(e):
            if isinstance(n, ast.Name):
                if n.id in s.var:
                    out.add(s.var[n.id])
                if n.id in s.lists:
                    out |= s.lists[n.id]
        return out

    # -- exits ------------------------------------------------------------
    def at_exit(self, s: State, desc: str, ret: Optional[ast.Return]):
        returned: Dict[int, Tuple[int, ...]] = {}
        if ret is not None and ret.value is not None:
            v = ret.value
            if isinstance(v, ast.Tuple):
                for i, e in enumerate(v.elts):
                    for rid in self.rids_in(e, s):
                        returned[rid] = tuple(sorted(set(returned.get(rid, ()) + (i,))))
            else:
                for rid in self.rids_in(v, s):
                    returned[rid] = self._ret_pos.get(rid, (-1,)) if isinstance(v, ast.Name) and v.id == "__ret__" else (-1,)
        for rid, r in s.res.items():
            if r.status != "owned":
                continue
            if rid in returned:
                conds = self.summary.returns_owned.setdefault(returned[rid], [])
                # ownership condition = facts over this unit's parameters that held when the resource was acquired
                cond = {k: v for k, v in dict(r.facts).items() if set(_ident.findall(k)) & self.params}
                if cond not in conds:
                    conds.append(cond)
                _merge_conds(conds)
                continue
            held = [l for l, rs in s.lists.items() if rid in rs]
            self.report(s, r, desc + (f" (held only by list `{held[0]}`, which is never released)" if held else ""))

    def report(self, s: State, r: Res, desc: str):
        key = (self.q, r.site)
        self.site_ok[key] = False
        if not any(l.qualname == self.q and l.site == r.site for l in self.leaks):
            self.leaks.append(Leak(self.q, r.site, r.node, desc, tuple(sorted(s.facts.items()))))


