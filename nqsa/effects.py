"""Interprocedural keyed-container effects (which containers get / lose an entry
keyed by a value derived from a given parameter), with parameter binding
followed through self-calls, class-method calls and typed attributes."""
from __future__ import annotations

import ast
from dataclasses import dataclass, field
from typing import Dict, List, Optional, Set, Tuple

from . import astutil as A
from .model import ClassInfo, Repo, dotted, src

INSERT_METHODS = {"add", "append"}
REMOVE_METHODS = {"pop", "remove", "discard"}


def attr_types(repo: Repo, cls: ClassInfo) -> Dict[str, ClassInfo]:
    """self.X -> class, from annotated assignments in __init__ (through the MRO) and @property return annotations"""
    out: Dict[str, ClassInfo] = {}
    for k in reversed(repo.mro(cls)):
        init = k.methods.get("__init__")
        if init is not None:
            for n in ast.walk(init):
                if isinstance(n, ast.AnnAssign) and A.is_self_attr(n.target):
                    c = _ann_class(repo, k, n.annotation)
                    if c is not None:
                        out[n.target.attr] = c
                elif isinstance(n, ast.Assign) and len(n.targets) == 1 and A.is_self_attr(n.targets[0]) and isinstance(n.value, ast.Call):
                    c = repo.resolve_class(k.module, n.value.func)
                    if c is not None:
                        out.setdefault(n.targets[0].attr, c)
        for name, fn in k.methods.items():
            if k.is_property(name) and fn.returns is not None:
                c = _ann_class(repo, k, fn.returns)
                if c is not None:
                    out[name] = c
    return out


def _ann_class(repo, k, ann) -> Optional[ClassInfo]:
    if isinstance(ann, ast.Constant) and isinstance(ann.value, str):
        try:
            ann = ast.parse(ann.value, mode="eval").body
        except SyntaxError:
            return None
    if isinstance(ann, ast.Subscript):
        d = dotted(ann.value)
        if d and d.split(".")[-1] == "Optional":
            return _ann_class(repo, k, ann.slice)
        return None
    return repo.resolve_class(k.module, ann)


@dataclass
class Effects:
    inserts: Dict[str, List[str]] = field(default_factory=dict)  # container id -> locations
    removes: Dict[str, List[str]] = field(default_factory=dict)
    visited: Set[str] = field(default_factory=set)
    calls: int = 0
    unresolved: int = 0


def tainted_names(fn, roots: Set[str]) -> Set[str]:
    """names (and the given root expressions) that derive from the roots, by forward propagation over simple assignments"""
    t = set(roots)
    changed = True
    while changed:
        changed = False
        for n in A.body_nodes(fn):
            if isinstance(n, (ast.Assign, ast.AnnAssign)):
                val = n.value
                if val is None:
                    continue
                tg = n.targets if isinstance(n, ast.Assign) else [n.target]
                if mentions_any(val, t):
                    for x in tg:
                        for nm in ast.walk(x):
                            if isinstance(nm, ast.Name) and nm.id not in t:
                                t.add(nm.id)
                                changed = True
    return t


def mentions_any(e, tainted: Set[str]) -> bool:
    for n in ast.walk(e):
        if isinstance(n, ast.Name) and n.id in tainted:
            return True
        if isinstance(n, ast.Attribute) and A.norm(n) in tainted:
            return True
    return False


def collect(repo: Repo, cls: ClassInfo, fn, roots: Set[str], eff: Effects = None, depth: int = 4) -> Effects:
    eff = eff or Effects()
    key = f"{cls.qualname}.{fn.name}:{sorted(roots)}"
    if key in eff.visited or depth < 0:
        return eff
    eff.visited.add(key)
    t = tainted_names(fn, roots)
    types = attr_types(repo, cls)
    selfname = A.param_names(fn)[0] if A.param_names(fn) else "self"
    is_cm = any(dotted(d) == "classmethod" for d in fn.decorator_list)

    def container_id(x) -> Optional[str]:
        # self.A / cls.A / Cls.A
        if isinstance(x, ast.Attribute) and isinstance(x.value, ast.Name):
            if x.value.id == selfname:
                owner = cls
                la = repo.lookup_attr(cls, x.attr)
                if la is not None:
                    owner = la[0]
                return f"{owner.name}.{x.attr}" if (is_cm or la is not None) else f"{cls.name}.{x.attr}"
            c = repo.resolve_class(cls.module, x.value.id)
            if c is not None:
                return f"{c.name}.{x.attr}"
        return None

    def loc(n):
        return f"{cls.module.relpath}:{getattr(n, 'lineno', 0)}"

    for n in A.body_nodes(fn):
        if isinstance(n, ast.Assign):
            for tg in n.targets:
                if isinstance(tg, ast.Subscript):
                    cid = container_id(tg.value)
                    if cid and mentions_any(tg.slice, t):
                        eff.inserts.setdefault(cid, []).append(loc(n))
        elif isinstance(n, ast.Delete):
            for tg in n.targets:
                if isinstance(tg, ast.Subscript):
                    cid = container_id(tg.value)
                    if cid and mentions_any(tg.slice, t):
                        eff.removes.setdefault(cid, []).append(loc(n))
        elif isinstance(n, ast.Call) and isinstance(n.func, ast.Attribute):
            f = n.func
            cid = container_id(f.value)
            if cid and n.args and mentions_any(n.args[0], t):
                if f.attr in INSERT_METHODS:
                    eff.inserts.setdefault(cid, []).append(loc(n))
                elif f.attr in REMOVE_METHODS:
                    eff.removes.setdefault(cid, []).append(loc(n))
                continue
            # calls
            target = None
            if isinstance(f.value, ast.Name) and f.value.id == selfname:
                r = repo.lookup(cls, f.attr)
                if r is not None:
                    target = (cls if not is_cm else cls, r[1])
            elif isinstance(f.value, ast.Attribute) and isinstance(f.value.value, ast.Name) and f.value.value.id == selfname and f.value.attr in types:
                tc = types[f.value.attr]
                r = repo.lookup(tc, f.attr)
                if r is not None:
                    target = (tc, r[1])
            else:
                c = repo.resolve_class(cls.module, f.value) if dotted(f.value) else None
                if c is not None:
                    r = repo.lookup(c, f.attr)
                    if r is not None:
                        target = (c, r[1])
            if target is None:
                continue
            eff.calls += 1
            tc, callee = target
            params = A.param_names(callee)
            if params and params[0] in ("self", "cls"):
                params = params[1:]
            bound: Set[str] = set()
            for i, a in enumerate(n.args):
                if i < len(params) and mentions_any(a, t):
                    bound.add(params[i])
            for k in n.keywords:
                if k.arg and mentions_any(k.value, t):
                    bound.add(k.arg)
            if bound:
                collect(repo, tc, callee, bound, eff, depth - 1)
    return eff
