"""The binary codec decided by abstract execution (shared by C01, C02, C16).

Every instruction class registered in a flavour is instantiated with enumerated operand values; its own `serialize()` runs
in the checker's interpreter with the ctypes model of nqsa/cmodel.py (structures store what ctypes would store, `bytes()`
gives the bytes ctypes would give), and its own `deserialize_from()` runs on those bytes.  Judged:

  round trip   deserialize_from(serialize(x)) is an instruction of the same class with equal operand fields, 7 bytes long
  layout       the bytes are exactly what the published wire table (reference/wire_table.json) says for those operand values
  range        a value just outside the width the published table gives an operand leaf is refused (any exception) instead of
               being encoded as a different, valid-looking value; the extreme values inside the width are accepted and come back

Nothing here looks at how serialize / deserialize_from / the operand `cstruct` properties / Command.__init__ are written.
"""
from __future__ import annotations

import json
import os
from typing import Any, Dict, List, Optional, Tuple

from . import circuit as C
from . import instrs as I
from .model import AnalysisError, EnumMember, Unknown

ROOT = os.path.dirname(os.path.dirname(os.path.abspath(__file__)))


def plain(v):
    """a comparable picture of an operand value, whichever model the interpreter used for it"""
    if isinstance(v, C.Imm):
        return ("imm", v.value)
    if isinstance(v, EnumMember):
        return ("enum", v.name)
    if isinstance(v, C.Obj) and v.cls is not None:
        if v.cls.name == "Immediate":
            return ("imm", v.fields.get("value"))
        return (v.cls.name,) + tuple((k_, plain(x_)) for k_, x_ in sorted(v.fields.items()) if k_ != "lineno")
    if isinstance(v, bool) or not isinstance(v, (int, str, type(None))):
        return ("?", repr(v))
    return v


class World:
    def __init__(self, ctx):
        self.ctx, self.repo, self.ev = ctx, ctx.repo, ctx.ev
        self.opm = self.repo.module(I.OPERAND_MOD)
        self.K = self.opm.classes
        self.rn = self.repo.get_class("netqasm.lang.encoding", "RegisterName")
        self.rmem = self.ev.enum_members(self.rn)
        self.banks = sorted(self.rmem, key=lambda b_: self.rmem[b_])

    def scenario(self):
        """one scenario for the whole run: class-level state of the repository (a table kept on a class) persists from one encoded
        instruction to the next, as it does in a process"""
        if getattr(self, "_sc", None) is None:
            sc = C.Scenario()
            sc.plain_registers, sc.max_depth, sc.run_constructors, sc.strict_text, sc.ctypes_model = True, 40, True, True, True
            self._sc = sc
        return self._sc

    def reg(self, bank, idx):
        return C.Obj(self.K["Register"], {"name": EnumMember(self.rn.qualname, bank, self.rmem[bank]), "index": idx})

    def imm(self, v):
        return C.Obj(self.K["Immediate"], {"value": v})

    def addr(self, v):
        return C.Obj(self.K["Address"], {"address": v})

    def entry(self, a, r):
        return C.Obj(self.K["ArrayEntry"], {"address": self.addr(a), "index": r})

    def slc(self, a, r0, r1):
        return C.Obj(self.K["ArraySlice"], {"address": self.addr(a), "start": r0, "stop": r1})

    def value_of(self, types, variant, pos, wide, templates=False):
        """an operand value for a field admitting `types` (variant 0: smallest, 1: largest, 2: mixed / unusual)"""
        t = set(types)
        # every operand position gets a value of its own, so that two operands exchanged anywhere on the way show
        if "Register" in t and not (variant == 2 and "Immediate" in t):
            return self.reg(self.banks[(pos + variant) % len(self.banks)], (pos, 15 - pos, 7 + pos)[variant] % 16)
        if "Template" in t and variant == 2 and templates:
            return C.Obj(self.K["Template"], {"name": f"tpl{pos}"})
        if "Immediate" in t:
            v = (pos, 200 - pos, 1 + 2 * pos)[variant]
            if wide and variant == 1:
                v = 70000 + pos
            if wide and variant == 2:
                v = -5 - pos
            return self.imm(v)
        if "ArrayEntry" in t:
            return self.entry((0, 7, 3)[variant], self.reg("R", (0, 15, 2)[variant]))
        if "ArraySlice" in t:
            return self.slc((0, 7, 3)[variant], self.reg("R", (0, 14, 2)[variant]), self.reg("R", (1, 15, 3)[variant]))
        if "Address" in t:
            return self.addr((0, 7, 70000)[variant])
        return None

    def shape(self, c):
        """(operand attribute names as declared, real field names, admitted type names per operand, fields whose wire width is >= 32 bits)"""
        repo, ev = self.repo, self.ev
        ops = I.operands_attrs(repo, c)
        if ops is None:
            return None
        anns = {n_: ann for n_, ann, k_ in I.operand_fields(repo, c)}
        reals = [repo.property_alias(c, a_) or a_ for a_ in ops]
        types = [I.ann_types(anns.get(r_)) for r_ in reals]
        return ops, reals, types

    def serialize(self, c, vals):
        inst = C.Obj(c, dict(vals, lineno=None))
        try:
            out = C.Interp(self.repo, self.ev, self.scenario(), None).method(inst, "serialize", [], {}, None)
        except C.EvalRaise as ex_:
            return None, ex_.exc_name
        return out, None

    def deserialize(self, c, raw):
        try:
            return C.Interp(self.repo, self.ev, self.scenario(), None).apply(("classmethod", c, "deserialize_from"), [raw], {}, None, c.module), None
        except C.EvalRaise as ex_:
            return None, ex_.exc_name


def reference_table():
    with open(os.path.join(ROOT, "reference", "wire_table.json")) as fh:
        return json.load(fh)


def leaf_value(w: World, val, role: str):
    """the integer the published table's leaf `role` of an operand holds for the operand value `val`"""
    if isinstance(val, C.Obj) and val.cls is not None:
        n = val.cls.name
        f = val.fields
        if n == "Immediate" and role == "value":
            return f["value"]
        if n == "Register":
            return f["name"].value if role == "0" else f["index"] if role == "1" else None
        if n == "Address" and role == "0":
            return f["address"]
        if n in ("ArrayEntry", "ArraySlice"):
            parts = role.split(".")
            sub = [f["address"]] + ([f["index"]] if n == "ArrayEntry" else [f["start"], f["stop"]])
            if len(parts) == 2 and int(parts[0]) < len(sub):
                return leaf_value(w, sub[int(parts[0])], parts[1])
    return None


def reference_bytes(w: World, entry, vals_in_order) -> Optional[bytes]:
    """the bytes of an instruction according to the published table"""
    word = entry["opcode"] << (8 * entry["opcode_at"][0]["offset"] + entry["opcode_at"][0]["bit_offset"])
    if len(entry["operands"]) != len(vals_in_order):
        return None
    for o, v in zip(entry["operands"], vals_in_order):
        for l in o.get("leaves", []):
            x = leaf_value(w, v, l["role"])
            if x is None:
                return None
            word |= (x & ((1 << l["bits"]) - 1)) << (8 * l["offset"] + l["bit_offset"])
    return word.to_bytes(entry["size"], "little")


def with_leaf(w: World, val, role: str, x: int):
    """a copy of operand value `val` whose leaf `role` holds x"""
    n = val.cls.name
    f = dict(val.fields)
    if n == "Immediate":
        f["value"] = x
    elif n == "Register":
        if role != "1":
            return None
        f["index"] = x
    elif n == "Address":
        f["address"] = x
    elif n in ("ArrayEntry", "ArraySlice"):
        parts = role.split(".")
        key = ["address"] + (["index"] if n == "ArrayEntry" else ["start", "stop"])
        if len(parts) != 2 or int(parts[0]) >= len(key):
            return None
        sub = with_leaf(w, f[key[int(parts[0])]], parts[1], x)
        if sub is None:
            return None
        f[key[int(parts[0])]] = sub
    else:
        return None
    return C.Obj(val.cls, f)


def run_codec(ctx) -> Dict[str, Any]:
    """-> {"classes": [...per (flavour, mnemonic) results...]} cached on the context"""
    cached = getattr(ctx, "_codec_results", None)
    if cached is not None:
        return cached
    key = (os.path.abspath(ctx.repo.root), _tree_digest(ctx.repo.root))
    if key in _PROCESS_CACHE:
        ctx._codec_results = _PROCESS_CACHE[key]
        return ctx._codec_results
    w = World(ctx)
    repo, ev = ctx.repo, ctx.ev
    ref = reference_table()["flavours"]
    out = []
    for fname, (fc, core, spec) in sorted(I.flavours(repo).items()):
        table = {}
        for c in core + spec:
            table[I.field_default(repo, ev, c, "mnemonic")] = c  # later entries override, as the flavour does
        for mn, c in sorted(table.items()):
            res = {"flavour": fname, "mnemonic": mn, "cls": c, "roundtrip": None, "layout": None, "range": {}, "instances": 0}
            out.append(res)
            sh = w.shape(c)
            if sh is None:
                res["roundtrip"] = f"{c.name}.operands is not a list of attributes"
                continue
            ops, reals, types = sh
            entry = ref.get(fname, {}).get(mn)
            # which fields are wide (>= 32 bits) according to the published table
            wide = set()
            if entry is not None:
                for r_, o in zip(reals, entry["operands"]):
                    if any(l["bits"] >= 32 and l["role"] == "value" for l in o.get("leaves", [])):
                        wide.add(r_)
            seen = set()
            base_vals = None
            for variant in (0, 1, 2):
                vals = {r_: w.value_of(t_, variant, i_, r_ in wide) for i_, (r_, t_) in enumerate(zip(reals, types))}
                if any(v is None for v in vals.values()):
                    res["roundtrip"] = res["roundtrip"] or f"operand types {types} outside the enumerated kinds"
                    break
                key = repr({k_: plain(v_) for k_, v_ in vals.items()})
                if key in seen:
                    continue
                seen.add(key)
                base_vals = base_vals or vals
                res["instances"] += 1
                raw, raised = w.serialize(c, vals)
                shown = {k_: plain(v_) for k_, v_ in vals.items()}
                if raised is not None or not isinstance(raw, bytes):
                    res["roundtrip"] = res["roundtrip"] or f"serialize() of {shown} {'raises ' + raised if raised else 'returns ' + repr(raw)}"
                    want_ = reference_bytes(w, entry, [vals[r_] for r_ in reals]) if entry is not None else None
                    res["layout"] = res["layout"] or f"{shown}, which the published layout encodes as {want_.hex() if want_ else '?'}, is refused ({raised or raw!r})"
                    continue
                back, raised = w.deserialize(c, raw)
                if raised is not None or not isinstance(back, C.Obj) or back.cls is not c:
                    res["roundtrip"] = res["roundtrip"] or f"deserialize_from({raw.hex()}) {'raises ' + raised if raised else 'gives ' + repr(back)[:120]} (encoded from {shown})"
                else:
                    got = {r_: plain(back.fields.get(r_)) for r_ in reals}
                    if got != shown:
                        d_ = next(r_ for r_ in reals if got[r_] != shown[r_])
                        res["roundtrip"] = res["roundtrip"] or f"{raw.hex()} decodes with {d_} = {got[d_]!r}, encoded from {shown[d_]!r}"
                if entry is None:
                    res["layout"] = res["layout"] or "no entry in the published table"
                else:
                    want = reference_bytes(w, entry, [vals[r_] for r_ in reals])
                    if want is None:
                        res["layout"] = res["layout"] or f"operands {shown} do not fit the published operand list"
                    elif raw != want:
                        res["layout"] = res["layout"] or f"{shown} is encoded as {raw.hex()}, the published layout gives {want.hex()}"
            # range: one leaf at a time, the other operands at their smallest values
            if entry is not None and base_vals is not None and len(entry["operands"]) == len(reals):
                for pos, (r_, o) in enumerate(zip(reals, entry["operands"])):
                    for l in o.get("leaves", []):
                        if o["type"] == "Register" and l["role"] == "0" or l["role"].endswith(".0") and l["bits"] == 2:
                            continue  # a register bank is an enumeration member: it has no out-of-range value
                        lo = -(1 << (l["bits"] - 1)) if l["signed"] else 0
                        hi = (1 << (l["bits"] - 1)) - 1 if l["signed"] else (1 << l["bits"]) - 1
                        verdict = None
                        for x, must_raise in ((lo - 1, True), (hi + 1, True), (hi + (1 << l["bits"]), True), (lo, False), (hi, False)):
                            v2 = with_leaf(w, base_vals[r_], l["role"], x)
                            if v2 is None:
                                verdict = "leaf not reachable"
                                break
                            vals = dict(base_vals, **{r_: v2})
                            raw, raised = w.serialize(c, vals)
                            if must_raise and raised is None:
                                back, _ = w.deserialize(c, raw) if isinstance(raw, bytes) else (None, None)
                                seen_as = plain(back.fields.get(r_)) if isinstance(back, C.Obj) else "?"
                                verdict = verdict or f"the value {x} (outside {lo}..{hi}) is encoded as {raw.hex() if isinstance(raw, bytes) else raw!r}, which decodes as {seen_as!r}"
                            if not must_raise:
                                if raised is not None:
                                    verdict = verdict or f"the value {x} (inside {lo}..{hi}) is refused with {raised}"
                                else:
                                    back, r2 = w.deserialize(c, raw)
                                    if r2 is not None or not isinstance(back, C.Obj) or plain(back.fields.get(r_)) != plain(v2):
                                        verdict = verdict or f"the value {x} (inside {lo}..{hi}) does not come back: {r2 or plain(back.fields.get(r_)) if isinstance(back, C.Obj) else back!r}"
                        res["range"][(pos, o["type"], l["role"], lo, hi)] = verdict
    ctx._codec_results = {"classes": out}
    _PROCESS_CACHE[key] = ctx._codec_results
    return ctx._codec_results


_PROCESS_CACHE: Dict[Any, Any] = {}


def _tree_digest(root) -> str:
    """digest of the source files the codec run depends on (the lang package), so that one process checking several properties of one
    tree computes the run once"""
    import hashlib
    h = hashlib.sha256()
    base = os.path.join(root, "netqasm", "lang")
    for dp, dn, fn in sorted(os.walk(base)):
        for f in sorted(fn):
            if f.endswith(".py"):
                with open(os.path.join(dp, f), "rb") as fh:
                    h.update(f.encode() + b"\0" + fh.read())
    return h.hexdigest()


def emit(ctx, roundtrip: Optional[str] = None, layout: Optional[str] = None, rng: Optional[str] = None):
    """report the codec run under the given rule ids (None: that aspect is not this property's)"""
    try:
        res = run_codec(ctx)
    except AnalysisError as ex_:
        for r in (roundtrip, layout, rng):
            if r:
                ctx.error(r, f"the codec cannot be evaluated: {ex_}")
        return
    n_inst = n_rng = 0
    for k, x in enumerate(res["classes"]):
        c, fname, mn = x["cls"], x["flavour"], x["mnemonic"]
        ctx.fn(c.qualname + ".serialize")
        n_inst += x["instances"]
        if roundtrip:
            ctx.check(roundtrip, f"{fname}:{mn}:decode-of-encode-is-the-instruction", x["roundtrip"] is None,
                      f"{fname} {c.name}: {x['roundtrip']}: an encoded instruction does not decode to the same instruction", c.loc(), sample={"flavour": fname, "mnemonic": mn}, trivial=(k % 6 != 0))
        if layout:
            ctx.check(layout, f"{fname}:{mn}:bytes-as-published", x["layout"] is None,
                      f"{fname} {mn}: {x['layout']}: a conforming controller reads a different instruction than the one written", c.loc(), sample={"flavour": fname, "mnemonic": mn}, trivial=(k % 6 != 0))
        if rng:
            for (pos, typ, role, lo, hi), verdict in sorted(x["range"].items()):
                n_rng += 1
                ctx.check(rng, f"{fname}:{mn}:operand{pos}:{typ}.{role}:refused-outside-{lo}..{hi}", verdict is None,
                          f"{fname} {mn}, operand {pos} ({typ} leaf {role}): {verdict}: an unrepresentable operand is not rejected (or a representable one is)", c.loc(),
                          sample={"flavour": fname, "mnemonic": mn, "operand": pos, "range": [lo, hi]}, trivial=(n_rng % 9 != 1))
    for r in (roundtrip, layout, rng):
        if r:
            ctx.anchor(r, "instruction classes (per flavour) put through their own encoder and decoder", len(res["classes"]), 100)
    if rng:
        ctx.anchor(rng, "operand leaves probed at and beyond the ends of their width", n_rng, 250)


def run_framing(ctx) -> Dict[str, Optional[str]]:
    """bytes(Subroutine) executed (checker's interpreter, ctypes model): header = version pair then app id (little endian) built from
    the subroutine's CURRENT fields at every serialisation, then every instruction's serialize() in order; app ids outside 0..65535
    refused.  -> {aspect: what went wrong | None}"""
    cached = getattr(ctx, "_framing_results", None)
    if cached is not None:
        return cached
    w = World(ctx)
    repo, ev = ctx.repo, ctx.ev
    sub = repo.get_class("netqasm.lang.subroutine", "Subroutine")
    res: Dict[str, Optional[str]] = {"header": None, "order": None, "current": None, "range": None}

    class MInstr:
        _nqsa_model = True

        def __init__(self, tag):
            self.tag = tag
            self.operands = []

        def serialize(self):
            return bytes([self.tag]) * 7

        def from_operands(self, ops):
            return self

    def mk(version, app_id, tags):
        # built by the class's own constructor, so that whatever else it keeps on the object is there
        return C.Interp(repo, ev, w.scenario(), None).construct(sub, [], {"instructions": [MInstr(t) for t in tags], "arguments": [], "netqasm_version": version, "app_id": app_id}, None)

    def to_bytes(o):
        try:
            r_ = repo.lookup(sub, "__bytes__")
            return C.Interp(repo, ev, w.scenario(), sub).call_function(r_[0].module, r_[1], [], {}, self_obj=o), None
        except C.EvalRaise as ex_:
            return None, ex_.exc_name

    def header(version, app_id):
        return bytes(version) + app_id.to_bytes(2, "little")

    for version, app_id, tags in (((0, 10), 0, []), ((3, 1), 513, [0xA1]), ((0, 0), 65535, [0xA1, 0xB2, 0xC3]), ((2, 2), 2, [0x02, 0x02])):
        raw, raised = to_bytes(mk(version, app_id, tags))
        want = header(version, app_id) + b"".join(bytes([t]) * 7 for t in tags)
        label = f"version {version}, app id {app_id}, {len(tags)} instructions"
        if raised is not None or not isinstance(raw, bytes):
            res["header"] = res["header"] or f"{label}: bytes(subroutine) {'raises ' + raised if raised else 'is ' + repr(raw)}"
        elif raw[:4] != want[:4]:
            res["header"] = res["header"] or f"{label}: the header is {raw[:4].hex()}, must be {want[:4].hex()} (version bytes, then the app id little endian)"
        elif raw[4:] != want[4:]:
            res["order"] = res["order"] or f"{label}: after the header come {raw[4:].hex()}, the instructions serialise to {want[4:].hex()} in order"
    # the header follows the subroutine's current fields: serialise, change the app id through the setter and through instantiate, serialise again
    o = mk((0, 10), 5, [0xA1])
    first, _ = to_bytes(o)
    try:
        sc = w.scenario()
        st = sub.setters.get("app_id")
        if st is not None:
            C.Interp(repo, ev, sc, sub).call_function(sub.module, st, [9], {}, self_obj=o)
            second, _ = to_bytes(o)
            if isinstance(second, bytes) and second[:4] != header((0, 10), 9):
                res["current"] = f"after app_id = 9 the header is still {second[:4].hex()} (first serialisation gave {first[:4].hex() if isinstance(first, bytes) else first})"
        inst = sub.methods.get("instantiate")
        if inst is not None:
            C.Interp(repo, ev, sc, sub).call_function(sub.module, inst, [], {"app_id": 300}, self_obj=o)
            third, _ = to_bytes(o)
            if isinstance(third, bytes) and third[:4] != header((0, 10), 300):
                res["current"] = res["current"] or f"after instantiate(app_id=300) the header is {third[:4].hex()}, must be {header((0, 10), 300).hex()}: a header kept from an earlier serialisation went stale"
    except C.EvalRaise as ex_:
        res["current"] = f"changing the app id raises {ex_}"
    for bad in (-1, 65536, 70000):
        raw, raised = to_bytes(mk((0, 10), bad, []))
        if raised is None:
            res["range"] = res["range"] or f"app id {bad} is encoded as {raw[:4].hex() if isinstance(raw, bytes) else raw!r} instead of being refused"
    ctx._framing_results = res
    return res


def emit_framing(ctx, rule, aspects=("header", "order", "current", "range")):
    try:
        res = run_framing(ctx)
    except AnalysisError as ex_:
        ctx.error(rule, f"bytes(Subroutine) cannot be evaluated: {ex_}")
        return
    sub = ctx.repo.get_class("netqasm.lang.subroutine", "Subroutine")
    ctx.fn("Subroutine.cstructs")
    ctx.fn("Subroutine.__bytes__")
    texts = {"header": ("Subroutine.__bytes__:header-is-version-then-app-id", "the 4-byte header does not carry the version pair and the app id"),
             "order": ("Subroutine.__bytes__:all-instructions-in-order", "the commands after the header are not every instruction's serialisation, in order"),
             "current": ("Subroutine.__bytes__:header-built-from-the-current-fields", "the header does not follow the subroutine's current app id"),
             "range": ("Subroutine.__bytes__:app-id-outside-16-bits-refused", "an app id the header cannot hold is not refused")}
    for a in aspects:
        key, text = texts[a]
        ctx.check(rule, key, res[a] is None, f"{text}: {res[a]}", sub.loc())
