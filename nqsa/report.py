"""Findings, verdicts, known-findings matching, evidence and replay files."""
from __future__ import annotations

import json
import os
import time
from dataclasses import dataclass, field
from typing import Any, Dict, List, Optional

VERIF = os.path.dirname(os.path.dirname(os.path.abspath(__file__)))
EVIDENCE_DIR = os.path.join(VERIF, "evidence")
REPLAY_DIR = os.path.join(EVIDENCE_DIR, "replay")
KNOWN_FILE = os.path.join(VERIF, "known_findings.json")
EVIDENCE_SCHEMA = "/root/.vp/EVIDENCE.schema.json"


@dataclass
class Finding:
    prop: str
    rule: str
    construct: str
    message: str
    loc: str = ""
    facts: Any = None

    @property
    def key(self):
        return (self.prop, self.rule, self.construct)


@dataclass
class Ctx:
    prop: str
    tier: str
    repo: Any
    ev: Any
    findings: List[Finding] = field(default_factory=list)
    errors: List[str] = field(default_factory=list)
    obligations: int = 0
    discharged: int = 0
    distinct: set = field(default_factory=set)
    samples: List[Any] = field(default_factory=list)
    rules: Dict[str, Dict[str, int]] = field(default_factory=dict)
    anchors: List[Dict[str, Any]] = field(default_factory=list)
    functions: set = field(default_factory=set)
    call_sites: int = 0
    unresolved_calls: int = 0
    notes: List[str] = field(default_factory=list)
    exhaustive: bool = True
    technique: str = ""
    assumptions: List[str] = field(default_factory=list)
    explanation: str = ""

    # -- obligations -----------------------------------------------------
    def check(self, rule: str, construct: str, ok: bool, message: str = "", loc: str = "", facts=None, sample=None, trivial=False):
        """Record one obligation (rule instance).  `construct` is the stable
        key (qualname + role), never a line number."""
        self.obligations += 1
        r = self.rules.setdefault(rule, {"obligations": 0, "discharged": 0})
        r["obligations"] += 1
        if not trivial:
            self.distinct.add((rule, construct))
        if ok:
            self.discharged += 1
            r["discharged"] += 1
        else:
            self.findings.append(Finding(self.prop, rule, construct, message, loc, facts))
        if len(self.samples) < 12 and (sample is not None or not ok or r["obligations"] <= 2):
            self.samples.append(
                {"rule": rule, "construct": construct, "loc": loc, "ok": bool(ok),
                 "what": sample if sample is not None else (message if not ok else "holds")}
            )
        return ok

    def anchor(self, rule: str, what: str, found: int, floor: int):
        self.anchors.append({"rule": rule, "anchor": what, "found": found, "floor": floor})
        if found < floor:
            self.error(rule, f"anchor '{what}': found {found} instances, floor confirmed by hand is {floor}")
            return False
        return True

    def error(self, rule: str, msg: str):
        self.errors.append(f"rule={rule} {msg}")

    def note(self, msg):
        self.notes.append(msg)

    def fn(self, qualname: str):
        self.functions.add(qualname)


class RenamedRules:
    """A view of a context under which a rule set written for one property reports under another property's rule ids
    (`mapping`: prefix of the original rule id -> replacement).  Everything else is the context itself."""

    def __init__(self, ctx, mapping):
        object.__setattr__(self, "_ctx", ctx)
        object.__setattr__(self, "_mapping", dict(mapping))

    def _r(self, rule):
        for a, b in self._mapping.items():
            if rule.startswith(a):
                return b + rule[len(a):]
        return rule

    def check(self, rule, *a, **k):
        return self._ctx.check(self._r(rule), *a, **k)

    def anchor(self, rule, *a, **k):
        return self._ctx.anchor(self._r(rule), *a, **k)

    def error(self, rule, *a, **k):
        return self._ctx.error(self._r(rule), *a, **k)

    def __getattr__(self, name):
        return getattr(self._ctx, name)

    def __setattr__(self, name, value):
        setattr(self._ctx, name, value)


def load_known() -> List[Dict[str, Any]]:
    if not os.path.exists(KNOWN_FILE):
        return []
    with open(KNOWN_FILE) as fh:
        data = json.load(fh)
    return data.get("findings", [])


def classify(ctx: Ctx):
    known = [k for k in load_known() if k.get("property") == ctx.prop and k.get("status") == "known"]
    known_keys = {(k["property"], k["rule"], k["construct"]): k for k in known}
    violations = []
    known_hit = []
    for f in ctx.findings:
        if f.key in known_keys:
            known_hit.append((f, known_keys[f.key]))
        else:
            violations.append(f)
    return violations, known_hit


def finish(ctx: Ctx, t0: float, technique: str, assumptions: List[str], explanation: str, write_evidence=True, extra=None) -> int:
    """Print verdict lines, write evidence + replay files, return exit code."""
    violations, known_hit = classify(ctx)
    os.makedirs(REPLAY_DIR, exist_ok=True)
    # remove stale replay files of this property
    for fn in os.listdir(REPLAY_DIR):
        if fn.startswith(ctx.prop + "-"):
            try:
                os.remove(os.path.join(REPLAY_DIR, fn))
            except OSError:
                pass
    for e in ctx.errors:
        print(f"ANALYSIS-ERROR property={ctx.prop} {e}")
    for f, k in known_hit:
        print(f"KNOWN-FINDING: property={ctx.prop} rule={f.rule} construct={f.construct} {k.get('what', f.message)}")
    for i, f in enumerate(violations):
        path = os.path.join(REPLAY_DIR, f"{ctx.prop}-{i}.json")
        with open(path, "w") as fh:
            json.dump({"property": ctx.prop, "rule": f.rule, "construct": f.construct, "loc": f.loc,
                       "message": f.message, "facts": f.facts}, fh, indent=1, default=str)
        print(f"DIAGNOSIS property={ctx.prop} rule={f.rule} construct={f.construct} at {f.loc}: {f.message}")
        print(f"VIOLATION property={ctx.prop} replay={path}")
    wall = time.time() - t0
    if write_evidence:
        ev = {
            "property_id": ctx.prop,
            "tier": ctx.tier,
            "seed": int(os.environ.get("VERIF_SEED", "0") or 0),
            "level": "other",
            "coverage": {
                "explanation": explanation,
                "technique": technique,
                "evaluations": ctx.obligations,
                "distinct_nontrivial": len(ctx.distinct),
                "rule": "one evaluation = one rule instance (rule x construct) extracted from /repo's syntax tree on this run; "
                        "distinct_nontrivial counts distinct (rule, construct) keys whose obligation has non-vacuous content",
                "obligations": ctx.obligations,
                "discharged": ctx.discharged,
                "per_rule": ctx.rules,
                "anchors": ctx.anchors,
                "functions_analysed": len(ctx.functions),
                "call_sites": ctx.call_sites,
                "unresolved_calls": ctx.unresolved_calls,
                "samples": ctx.samples or [{"note": "no obligations extracted"}],
                "exhaustive": bool(ctx.exhaustive),
                "known_findings_present": [f"{f.rule} {f.construct}" for f, _ in known_hit],
                "analysis_errors": ctx.errors,
                "notes": ctx.notes,
                "repo_root": ctx.repo.root if ctx.repo is not None else None,
                **({"selftest": extra} if extra is not None else {}),
            },
            "assumptions": assumptions,
            "wall_s": round(wall, 3),
            "violations": len(violations),
        }
        _validate(ev)
        # runs against a scratch tree (NQSA_REPO) never overwrite the evidence of /repo
        root = ctx.repo.root if ctx.repo is not None else "/repo"
        evdir = EVIDENCE_DIR if os.path.realpath(root) == os.path.realpath("/repo") else os.path.join(EVIDENCE_DIR, "scratch")
        os.makedirs(evdir, exist_ok=True)
        with open(os.path.join(evdir, f"{ctx.prop}.json"), "w") as fh:
            json.dump(ev, fh, indent=1, default=str)
    print(
        f"SUMMARY property={ctx.prop} tier={ctx.tier} obligations={ctx.obligations} discharged={ctx.discharged} "
        f"violations={len(violations)} known={len(known_hit)} errors={len(ctx.errors)} "
        f"functions={len(ctx.functions)} wall={wall:.2f}s"
    )
    if ctx.errors:
        return 2
    if violations:
        return 1
    return 0


def _validate(ev):
    try:
        import jsonschema  # present in the tooling venv
    except Exception:
        return
    if not os.path.exists(EVIDENCE_SCHEMA):
        return
    with open(EVIDENCE_SCHEMA) as fh:
        schema = json.load(fh)
    jsonschema.validate(ev, schema)
