"""The repository's own objects, built by their own constructors and driven by the checker's interpreter (nqsa/circuit.py).

Nothing of the repository is imported or run by Python: every class below is an `Obj` whose methods are the repository's syntax
trees, interpreted.  What is modelled is stated here and nowhere else:

  - loggers (every `get_netqasm_logger(...)`) swallow what they are given;
  - the quantum hooks of the base Executor (`_do_single_qubit_instr`, `_do_single_qubit_rotation`, `_do_controlled_qubit_rotation`,
    `_do_two_qubit_instr`, `_do_meas`) record (operation, virtual qubit ids, angle) - the base class leaves them empty for simulators
    to fill in; a measurement returns the outcome scripted by the rule (0 by default);
  - the network stack of an executor is a recorder that answers a request with the scripted link-layer responses.

`ExecutorWorld` is a controller: Executor() + init_new_application, subroutines parsed from text by the repository's parser (or
handed over as objects), executed by Executor.execute_subroutine.  `SdkWorld` is a host: DebugConnection with the real Builder,
Qubit, futures; what a flush hands to the backend is decoded by the repository's own deserialisers.
"""
from __future__ import annotations

from typing import Any, Dict, List, Optional, Tuple

from . import circuit as C
from .model import AnalysisError, EnumMember

EXE = "netqasm.backend.executor"


class Log:
    _nqsa_model = True

    def debug(self, *a_, **k_):
        return None
    info = warning = error = critical = exception = log = debug

    def isEnabledFor(self, *a_):
        return False

    def getEffectiveLevel(self):
        return 100


def scenario(max_depth: int = 120, max_steps: Optional[int] = 2000000) -> C.Scenario:
    sc = C.Scenario()
    sc.run_constructors = True
    sc.real_objects = True
    sc.plain_registers = True
    sc.apply_decorators = True
    sc.ctypes_model = True
    sc.lazy_generators = True
    sc.max_depth = max_depth
    sc.max_loop = 100000  # (whole programs run here; runaway loops are caught by the step bound)
    if max_steps:
        sc.max_steps = max_steps
    sc.overrides["get_netqasm_logger"] = lambda *a_, **k_: Log()
    sc.method_overrides = {}
    sc.externals.update({"traceback.format_tb": lambda *a_, **k_: ["<traceback>"], "traceback.format_exc": lambda *a_, **k_: "<traceback>",
                         "traceback.print_exc": lambda *a_, **k_: None})
    return sc


def outcome(fn, *args, **kw) -> Tuple:
    """("ok", value) | ("raises", exception name, message) | ("loops",) for a call into the interpreter"""
    try:
        v = fn(*args, **kw)
        if isinstance(v, C.LazyGen):
            # a generator is run to its end, as the backends do (`for _ in executor.execute_subroutine(...)`); its value is what it returns
            while True:
                try:
                    next(v)
                except StopIteration as stop_:
                    v = stop_.value
                    break
        return ("ok", v)
    except C.EvalRaise as ex_:
        return ("raises", ex_.exc_name, str(ex_))
    except C.StepLimit:
        return ("loops",)


class ExecutorWorld:
    """one Executor of the repository with its applications"""

    def __init__(self, ctx, sc: Optional[C.Scenario] = None, meas_outcomes: Optional[List[int]] = None, executor_cls=None, record_gates: bool = True):
        self.ctx, self.repo, self.ev = ctx, ctx.repo, ctx.ev
        self.sc = sc or scenario()
        self.cls = executor_cls or self.repo.get_class(EXE, "Executor")
        self.trace: List[Tuple] = []
        self.meas_outcomes = list(meas_outcomes or [])
        if record_gates:
            mo = self.sc.method_overrides

            def rec(kind):
                def f(o_, *a_, **k_):
                    vals = dict(k_)
                    names = {"single": ("instr", "subroutine_id", "address"), "rot": ("instr", "subroutine_id", "address", "angle"),
                             "crot": ("instr", "subroutine_id", "address1", "address2", "angle"), "two": ("instr", "subroutine_id", "address1", "address2"),
                             "meas": ("subroutine_id", "q_address")}[kind]
                    for n_, v_ in zip(names, a_):
                        vals.setdefault(n_, v_)
                    ins_ = vals.get("instr")
                    mn = ins_.fields.get("mnemonic") if isinstance(ins_, C.Obj) else None
                    if mn is None and isinstance(ins_, C.Obj) and ins_.cls is not None:
                        mn = C.mnemonic_of(self.repo, self.ev, ins_.cls)
                    qs = tuple(vals[k_] for k_ in ("address", "address1", "address2", "q_address") if k_ in vals)
                    self.trace.append((kind if kind == "meas" else mn, qs, vals.get("angle")))
                    if kind == "meas":
                        return self.meas_outcomes.pop(0) if self.meas_outcomes else 0
                    return None
                return f
            mo.update({"_do_single_qubit_instr": rec("single"), "_do_single_qubit_rotation": rec("rot"), "_do_controlled_qubit_rotation": rec("crot"),
                       "_do_two_qubit_instr": rec("two"), "_do_meas": rec("meas")})
        self.I = C.Interp(self.repo, self.ev, self.sc, self.cls)
        self.ex = self.I.construct(self.cls, [], {"name": "node"}, None)
        self.parser_mod = self.repo.module("netqasm.lang.parsing.text")

    def call(self, name, *args, **kw):
        return outcome(self.I.method, self.ex, name, list(args), kw, None)

    def init_app(self, app_id: int = 0, max_qubits: int = 3):
        r_ = self.call("init_new_application", app_id=app_id, max_qubits=max_qubits)
        if r_[0] != "ok":
            raise AnalysisError(f"Executor.init_new_application({app_id}, {max_qubits}) {r_}")

    def parse(self, text: str, flavour=None):
        fn = self.parser_mod.functions.get("parse_text_subroutine")
        if fn is None:
            raise AnalysisError("parsing.text.parse_text_subroutine not found")
        kw = {} if flavour is None else {"flavour": flavour}
        r_ = outcome(self.I.call_function, self.parser_mod, fn, [text], kw)
        if r_[0] != "ok":
            raise AnalysisError(f"the repository's parser refuses the checker's program: {r_}\n{text}")
        return r_[1]

    def run(self, subroutine):
        return self.call("execute_subroutine", subroutine)

    # -- state, in plain Python values ---------------------------------------------------------------------------------------------
    def registers(self, app_id: int = 0) -> Dict[str, int]:
        out = {}
        groups = self.ex.fields.get("_registers", {}).get(app_id, {})
        for k_, g_ in groups.items():
            bank = k_[1] if isinstance(k_, tuple) else getattr(k_, "name", str(k_))
            vals = g_.fields.get("_register") if isinstance(g_, C.Obj) else None
            if isinstance(vals, dict):
                for i_, v_ in vals.items():
                    if v_ is not None:
                        out[f"{bank}{i_}"] = v_
            elif isinstance(vals, list):
                for i_, v_ in enumerate(vals):
                    if v_ is not None:
                        out[f"{bank}{i_}"] = v_
        return out

    def arrays(self, app_id: int = 0) -> Dict[int, List]:
        arrs = self.ex.fields.get("_app_arrays", {}).get(app_id)
        if not isinstance(arrs, C.Obj):
            return {}
        raw = arrs.fields.get("_arrays", {})
        return {a_: list(v_) for a_, v_ in raw.items()}

    def unit_module(self, app_id: int = 0):
        um = self.ex.fields.get("_qubit_unit_modules", {}).get(app_id)
        return list(um) if um is not None else None

    def used(self):
        return set(self.ex.fields.get("_used_physical_qubit_addresses", set()))

    def counters(self):
        return dict(self.ex.fields.get("_program_counters", {}))


def shared_memory_view(world: "ExecutorWorld", app_id: int = 0) -> Dict[str, Any]:
    """what the host can read for an application: returned registers and arrays, in plain values"""
    sm = world.ex.fields.get("_shared_memories", {}).get(app_id)
    out: Dict[str, Any] = {}
    if not isinstance(sm, C.Obj):
        return out
    for key_, g_ in (sm.fields.get("_registers") or {}).items():
        bank = key_[1] if isinstance(key_, tuple) else getattr(key_, "name", str(key_))
        vals = g_.fields.get("_register") if isinstance(g_, C.Obj) else None
        for i_, v_ in (vals.items() if isinstance(vals, dict) else enumerate(vals or [])):
            if v_ is not None:
                out[f"{bank}{i_}"] = v_
    arrs = sm.fields.get("_arrays")
    if isinstance(arrs, C.Obj):
        for a_, v_ in (arrs.fields.get("_arrays") or {}).items():
            out[f"@{a_}"] = list(v_)
    return out


def nv_transpile(world: ExecutorWorld, subroutine):
    """NVSubroutineTranspiler(subroutine).transpile() by the repository's own classes"""
    t = world.repo.get_class("netqasm.sdk.transpile", "NVSubroutineTranspiler")
    o = world.I.construct(t, [subroutine], {}, None)
    return outcome(world.I.method, o, "transpile", [], {}, None)


def trace_unitaries(trace: List[Tuple], n_qubits: int):
    """the recorded quantum operations as a list of segments: ("u", unitary of the gates between two non-unitary events) and the
    non-unitary events themselves (("init", q) / ("meas", q)), in order"""
    import numpy as np
    out: List[Any] = []
    U = np.eye(2 ** n_qubits, dtype=complex)
    dirty = False
    for mn, qs, angle in trace:
        if mn in ("init", "meas"):
            out.append(("u", U))
            out.append((mn,) + tuple(qs))
            U = np.eye(2 ** n_qubits, dtype=complex)
            dirty = False
            continue
        if any(not isinstance(q_, int) or not (0 <= q_ < n_qubits) for q_ in qs):
            raise AnalysisError(f"recorded operation {mn} on qubits {qs} outside the {n_qubits} qubits of the program")
        if mn in C.STATIC:
            op = C.STATIC[mn]
        elif mn in ("rot_x", "rot_y", "rot_z"):
            op = C.rot(mn[-1], angle)
        elif mn in ("crot_x", "crot_y", "crot_z"):
            op = C.crot_vec(C.AXIS[mn[-1]], angle)
        else:
            raise AnalysisError(f"recorded operation {mn!r} has no operator semantics in the checker")
        U = C.embed(op, list(qs), n_qubits) @ U
        dirty = True
    out.append(("u", U))
    return out


def same_behaviour(t1, t2) -> Optional[str]:
    """None when two segment lists describe the same evolution (unitaries equal up to a global phase, same non-unitary events)"""
    if len(t1) != len(t2):
        return f"{sum(1 for x in t1 if x[0] != 'u')} vs {sum(1 for x in t2 if x[0] != 'u')} initialisations / measurements"
    for k_, (a, b) in enumerate(zip(t1, t2)):
        if a[0] != b[0]:
            return f"event {k_}: {a[0]} vs {b[0]}"
        if a[0] == "u":
            if not C.equal_up_to_phase(a[1], b[1]):
                return f"the gates of segment {k_ // 2} do not multiply to the same operator"
        elif a != b:
            return f"event {k_}: {a} vs {b}"
    return None


_FORK_STATE: Dict[str, Any] = {}


def _fork_call(k):
    try:
        return ("ok", _FORK_STATE["fn"](_FORK_STATE["ctx"], _FORK_STATE["items"][k]))
    except AnalysisError as ex_:
        return ("analysis-error", str(ex_))
    except Exception as ex_:  # pragma: no cover - reported by the caller as an analysis error
        import traceback
        return ("analysis-error", f"{type(ex_).__name__}: {ex_} @ {traceback.format_exc().strip().splitlines()[-3:]}")


def parallel_map(ctx, fn, items: List[Any], jobs: int = 12) -> List[Any]:
    """fn(ctx, item) for every item, in forked worker processes (the loaded repository is inherited, nothing is pickled but the
    results); the results in order.  An AnalysisError in a worker is raised here."""
    import multiprocessing
    import os
    if len(items) < 4 or os.environ.get("NQSA_SERIAL") or multiprocessing.current_process().name != "MainProcess":
        # (a worker of the self-test / of a re-evaluation already is one of many processes)
        return [fn(ctx, it) for it in items]
    _FORK_STATE.update({"fn": fn, "ctx": ctx, "items": items})
    try:
        with multiprocessing.get_context("fork").Pool(min(jobs, len(items), os.cpu_count() or 1)) as pool:
            res = pool.map(_fork_call, range(len(items)), chunksize=1)
    finally:
        _FORK_STATE.clear()
    for r_ in res:
        if r_[0] != "ok":
            raise AnalysisError(r_[1])
    return [r_[1] for r_ in res]


class HostWorld:
    """A host and its controller in one scenario: DebugConnection (the repository's Builder, memory manager, Qubit and futures, built by
    their constructors) on one side, QNodeController with its Executor on the other (the controller's three abstract hooks - which
    executor class, stop, message bookkeeping - are the only things supplied).  Every message the connection commits is decoded by the
    repository's deserialize_host_msg and handled by the controller, in order, when `deliver()` is called."""

    def __init__(self, ctx, hardware: str = "generic", qubits: int = 5, nv_compiler: bool = False, sc: Optional[C.Scenario] = None, meas_outcomes: Optional[List[int]] = None,
                 epr: bool = False, bell_states: Optional[List[str]] = None, linked_memory: bool = False):
        self.ctx, self.repo, self.ev = ctx, ctx.repo, ctx.ev
        self.epr = epr
        self.bell_states = list(bell_states or [])
        self.requests: List[Any] = []       # what the executor put on the network stack, in order
        self.to_deliver: List[Any] = []     # (request, pair number, directionality) not yet answered
        self.remote_pending: List[Any] = []  # pairs the remote node will create once this node has asked to receive
        repo = self.repo
        self.sc = sc or scenario()
        self.trace: List[Tuple] = []
        self.meas_outcomes = list(meas_outcomes or [])
        self.dc = repo.get_class("netqasm.sdk.connection", "DebugConnection")
        self.qc = repo.get_class("netqasm.sdk.qubit", "Qubit")
        exc = repo.get_class(EXE, "Executor")
        qn = repo.get_class("netqasm.backend.qnodeos", "QNodeController")
        mo = self.sc.method_overrides
        mo.update({"_get_executor_class": lambda o_, *a_, **k_: ("class", exc), "stop": lambda o_, *a_, **k_: None, "_mark_message_finished": lambda o_, *a_, **k_: None})

        def rec(kind):
            def f(o_, *a_, **k_):
                vals = dict(k_)
                names = {"single": ("instr", "subroutine_id", "address"), "rot": ("instr", "subroutine_id", "address", "angle"),
                         "crot": ("instr", "subroutine_id", "address1", "address2", "angle"), "two": ("instr", "subroutine_id", "address1", "address2"),
                         "meas": ("subroutine_id", "q_address")}[kind]
                for n_, v_ in zip(names, a_):
                    vals.setdefault(n_, v_)
                ins_ = vals.get("instr")
                mn = ins_.fields.get("mnemonic") if isinstance(ins_, C.Obj) else None
                qs = tuple(vals[k2] for k2 in ("address", "address1", "address2", "q_address") if k2 in vals)
                self.trace.append((kind if kind == "meas" else mn, qs, vals.get("angle")))
                if kind == "meas":
                    return self.meas_outcomes.pop(0) if self.meas_outcomes else 0
                return None
            return f
        mo.update({"_do_single_qubit_instr": rec("single"), "_do_single_qubit_rotation": rec("rot"), "_do_controlled_qubit_rotation": rec("crot"),
                   "_do_two_qubit_instr": rec("two"), "_do_meas": rec("meas")})
        self.I = C.Interp(repo, self.ev, self.sc, self.dc)
        bt = repo.module("netqasm.sdk.build_types")
        hw_cls = bt.classes["NVHardwareConfig" if hardware == "nv" else "GenericHardwareConfig"]
        kw: Dict[str, Any] = {"hardware_config": self.I.construct(hw_cls, [qubits], {}, None), "max_qubits": qubits}
        if nv_compiler:
            kw["compiler"] = ("class", repo.get_class("netqasm.sdk.transpile", "NVSubroutineTranspiler"))
        self.epr_socket = None
        # the names of the nodes of the (debug) network, as an application sets them before it connects
        self.sc.__dict__.setdefault("class_attrs", {})[(self.dc.qualname, "node_ids")] = {"alice": 0, "bob": 1}
        if epr:
            es = repo.get_class("netqasm.sdk.epr_socket", "EPRSocket")
            self.epr_socket = self.I.construct(es, ["bob"], {}, None)
            kw["epr_sockets"] = [self.epr_socket]
        r_ = outcome(self.I.construct, self.dc, ["alice"], kw, None)
        if r_[0] != "ok":
            raise AnalysisError(f"DebugConnection('alice', {hardware}, {qubits} qubits) cannot be constructed: {r_}")
        self.conn = r_[1]
        if linked_memory:
            # DebugConnection answers `shared_memory` with a fresh empty memory.  For the host's view of the controller's memory the
            # connection object becomes an instance of the base connection class (whose `shared_memory` is the memory the controller
            # registers for this node and application), its two abstract hooks - keep the committed message, name the network - supplied here
            base = repo.get_class("netqasm.sdk.connection", "BaseNetQASMConnection")
            dni = repo.get_class("netqasm.sdk.connection", "DebugNetworkInfo")
            self.conn.cls = base
            mo["_commit_serialized_message"] = lambda o_, raw_msg=None, *a_, **k_: o_.fields["storage"].append(raw_msg)
            mo["_get_network_info"] = lambda o_, *a_, **k_: ("class", dni)
        flavour = None
        if nv_compiler:
            fl = repo.get_class("netqasm.lang.instr.flavour", "NVFlavour")
            flavour = self.I.construct(fl, [], {}, None)
        self.ctrl = self.I.construct(qn, [], {"name": self.I.getattr(self.conn, "node_name"), "flavour": flavour}, None)
        self.executor = self.ctrl.fields["_executor"]
        self.executor.fields["node_id"] = 0   # (the base class leaves the node id to subclasses)
        if epr:
            self._attach_network()
        self.delivered = 0
        self.msgs_mod = repo.module("netqasm.backend.messages")

    # -- the network stack -------------------------------------------------------------------------------------------------------
    def _attach_network(self):
        """The link layer, modelled: a request put on the stack is answered pair by pair while the executor waits (its `_do_wait` hook);
        a keep-response carries the lowest physical qubit the executor has not marked in use, a Bell state from the script (PHI_PLUS by
        default), the creator's side by its directionality flag."""
        world = self
        qcm = self.repo.module("netqasm.qlink_compat")

        class Stack:
            _nqsa_model = True

            def put(self, request=None, *a_, **k_):
                req = request if request is not None else (a_[0] if a_ else None)
                world.requests.append(req)
                number = getattr(req, "number", None)
                if number is not None:            # a create request: this node is the creator
                    world.to_deliver.extend((req, k, 0) for k in range(number))
                else:                             # a receive request: what the remote node creates can arrive from now on
                    world.to_deliver.extend(world.remote_pending)
                    world.remote_pending = []
                return None

            def setup_epr_socket(self, *a_, **k_):
                return None

            def get_purpose_id(self, remote_node_id=None, epr_socket_id=None, *a_, **k_):
                return 0

        self.stack = Stack()
        self.executor.fields["_network_stack"] = self.stack
        nt = self.I.global_name("LinkLayerOKTypeK", qcm)
        if not isinstance(nt, C.NamedTupleModel):
            raise AnalysisError("qlink_compat.LinkLayerOKTypeK is not a namedtuple class")
        rt, bs = qcm.classes["ReturnType"], qcm.classes["BellState"]

        def do_wait(o_, *a_, **k_):
            if world.remote_pending and any(v_ for v_ in (o_.fields.get("_epr_recv_requests") or {}).values()):
                # the executor has asked to receive: what the remote node creates can arrive from now on
                world.to_deliver.extend(world.remote_pending)
                world.remote_pending = []
            if not world.to_deliver:
                # nothing new from the link layer: a response that had to wait (its virtual qubit was still allocated) is tried again
                pend = o_.fields.get("_pending_epr_responses") or []
                if pend:
                    before = len(pend)
                    world.I.method(o_, "_handle_pending_epr_responses", [], {}, None)
                    world.stalled = 0 if len(o_.fields.get("_pending_epr_responses") or []) < before else getattr(world, "stalled", 0) + 1
                    if world.stalled <= 3:
                        return None
                raise C.EvalRaise("Deadlock", "the executor waits for entanglement nobody will deliver")
            req, k, flag = world.to_deliver.pop(0)
            used = set(o_.fields.get("_used_physical_qubit_addresses", set()))
            phys = next(i_ for i_ in range(64) if i_ not in used)
            bell = world.bell_states.pop(0) if world.bell_states else "PHI_PLUS"
            resp = nt(type=EnumMember(rt.qualname, "OK_K", world.ev.enum_members(rt)["OK_K"]), create_id=len(world.requests), logical_qubit_id=phys, directionality_flag=flag,
                      sequence_number=k, purpose_id=getattr(req, "purpose_id", 0), remote_node_id=getattr(req, "remote_node_id", 1), goodness=1, goodness_time=0,
                      bell_state=EnumMember(bs.qualname, bell, world.ev.enum_members(bs)[bell]))
            world.I.method(o_, "_handle_epr_response", [resp], {}, None)
            return None

        self.sc.method_overrides["_do_wait"] = do_wait
        # (the base class retries at once, i.e. recurses, where a real controller sleeps: here it returns and the wait loop comes back)
        self.sc.method_overrides["_wait_to_handle_epr_responses"] = lambda o_, *a_, **k_: None

    def expect_remote_pairs(self, number: int):
        """the remote node creates `number` pairs towards this one (answers a recv request)"""
        req = type("RemoteCreate", (), {"purpose_id": 0, "remote_node_id": 1})()
        self.remote_pending.extend((req, k, 1) for k in range(number))

    # -- host side -------------------------------------------------------------------------------------------------------------
    def new_qubit(self):
        return outcome(self.I.construct, self.qc, [self.conn], {}, None)

    def call(self, obj, name, *args, **kw):
        return outcome(self.I.method, obj, name, list(args), kw, None)

    def host_active_ids(self) -> List[int]:
        qs = self.I.getattr(self.conn, "active_qubits")
        ids = [self.I.getattr(q_, "qubit_id") for q_ in qs]
        if all(isinstance(i_, int) and not isinstance(i_, bool) for i_ in ids):
            return sorted(ids)
        # (a handle whose id is still a future - a per-pair handle of a context or post routine left active - is named as such)

        def show(i_):
            if isinstance(i_, int) and not isinstance(i_, bool):
                return i_
            return "<" + (i_.cls.name if isinstance(i_, C.Obj) and i_.cls is not None else type(i_).__name__) + ">"
        return sorted((show(i_) for i_ in ids), key=str)

    # -- the wire --------------------------------------------------------------------------------------------------------------
    def deliver(self):
        """hand every message committed since the last call to the controller -> list of (message class, outcome)"""
        out = []
        des = self.msgs_mod.functions.get("deserialize_host_msg")
        if des is None:
            raise AnalysisError("backend.messages.deserialize_host_msg not found")
        storage = self.conn.fields.get("storage")
        if not isinstance(storage, list):
            raise AnalysisError("DebugConnection keeps no `storage` list of committed messages")
        while self.delivered < len(storage):
            raw = storage[self.delivered]
            k = self.delivered
            self.delivered += 1
            m_ = outcome(self.I.call_function, self.msgs_mod, des, [raw], {})
            if m_[0] != "ok":
                out.append(("<undecodable>", m_))
                continue
            msg = m_[1]
            r_ = outcome(self.I.method, self.ctrl, "handle_netqasm_message", [], {"msg_id": k, "msg": msg}, None)
            out.append((msg.cls.name if isinstance(msg, C.Obj) and msg.cls is not None else str(msg), r_))
        return out

    # -- controller side -------------------------------------------------------------------------------------------------------
    def allocated(self, app_id: int = 0) -> List[int]:
        um = self.executor.fields.get("_qubit_unit_modules", {}).get(app_id)
        return sorted(i_ for i_, v_ in enumerate(um or []) if v_ is not None)
