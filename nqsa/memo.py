"""K-key: a value remembered for later calls is remembered under everything it depends on.

Memoisation is the most frequent "optimisation" that silently breaks a per-call computation: the result of the first
call is stored on the object (or in a module-level table) and handed out again to later calls whose arguments differ.
This engine recognises the two idioms in which a function remembers a result and checks a necessary condition for each:

  keyed table    `if K not in T: T[K] = E` ... `return T[K]`    (T a `self` attribute or module-level name; also `.get(K)`,
                 `try: return T[K] except KeyError:`).  Every parameter of the function that E depends on (locals expanded
                 through their single definitions) must occur in K.
  single slot    `if self.x is None: self.x = E` ... use of `self.x`   E must not depend on any parameter of the function
                 (a slot has no key; a value that depends on an argument cannot be shared between calls).

Only parameters are considered: state the value depends on through `self` is out of reach of a key and is the business
of the invalidation rules of the individual properties.  A function that has neither idiom yields no obligation.
"""
from __future__ import annotations

import ast
from typing import List, Optional, Set

from . import astutil as A
from . import guards as G
from .model import src


def _table_of(e) -> Optional[str]:
    """`self.T` or a bare module-level name used as the memo table -> its text"""
    if A.is_self_attr(e):
        return A.norm(e)
    if isinstance(e, ast.Name) and (e.id.isupper() or e.id.startswith("_")):
        return e.id
    return None


def _params_in(e, params: Set[str], defs) -> Set[str]:
    e2 = A.expand(e, defs)
    return {n.id for n in ast.walk(e2) if isinstance(n, ast.Name) and n.id in params}


def _miss_facts(fn, node):
    """(table text, key expr) for every fact `K not in T` / `T.get(K) is None` that holds at node"""
    out = []
    for t, pol in G.path_conditions(fn, node):
        if isinstance(t, ast.Compare) and len(t.ops) == 1:
            op, l, r = t.ops[0], t.left, t.comparators[0]
            if (isinstance(op, ast.NotIn) and pol) or (isinstance(op, ast.In) and not pol):
                tb = _table_of(r)
                if tb:
                    out.append((tb, l))
            elif (isinstance(op, ast.Is) and pol) or (isinstance(op, ast.IsNot) and not pol):
                if isinstance(r, ast.Constant) and r.value is None and isinstance(l, ast.Call) and isinstance(l.func, ast.Attribute) and l.func.attr == "get" and l.args:
                    tb = _table_of(l.func.value)
                    if tb:
                        out.append((tb, l.args[0]))
    # `except KeyError:` handler of a `try: ... T[K] ...`
    for tr in ast.walk(fn):
        if isinstance(tr, ast.Try):
            for h in tr.handlers:
                if any(x is node for b in h.body for x in ast.walk(b)) and h.type is not None and "KeyError" in src(h.type):
                    for x in ast.walk(ast.Module(body=tr.body, type_ignores=[])):
                        if isinstance(x, ast.Subscript) and isinstance(x.ctx, ast.Load) and _table_of(x.value):
                            out.append((_table_of(x.value), x.slice))
    return out


def check(ctx, rule: str, modules: List[str]):
    repo = ctx.repo
    n_memo = 0
    for mn in modules:
        mod = repo.modules.get(mn)
        if mod is None:
            ctx.error(rule, f"module {mn} not found")
            continue
        for _m, qn, fn, cls in repo.iter_functions(mn):
            if _m is not mod or fn.name == "__init__":
                continue
            params = set(A.param_names(fn)) - {"self", "cls"}
            if not params:
                continue
            defs = A.single_defs(fn)
            for st in A.body_nodes(fn):
                if not isinstance(st, ast.Assign) or len(st.targets) != 1:
                    continue
                tg = st.targets[0]
                # keyed table
                if isinstance(tg, ast.Subscript) and _table_of(tg.value):
                    tb = _table_of(tg.value)
                    miss = [k for t_, k in _miss_facts(fn, st) if t_ == tb and A.norm(k) == A.norm(tg.slice)]
                    if not miss:
                        continue
                    n_memo += 1
                    ctx.fn(f"{mn.split('.')[-1]}.{qn}")
                    dep = _params_in(st.value, params, defs)
                    key = _params_in(tg.slice, params, defs)
                    lost = sorted(dep - key)
                    ctx.check(rule, f"{mn.split('.')[-1]}.{qn}:{tb}:remembered-under-every-argument-it-depends-on", not lost,
                              f"{qn} remembers `{src(st.value)[:60]}` in {tb} under the key `{src(tg.slice)}`, but the value also depends on the argument(s) {lost}: "
                              f"a later call that differs only in {lost} gets the value computed for the first one", repo.loc(mod, st),
                              sample={"function": qn, "table": tb, "key": src(tg.slice), "depends on": sorted(dep)})
                # single slot
                elif A.is_self_attr(tg) and any(
                        pol and isinstance(t, ast.Compare) and len(t.ops) == 1 and isinstance(t.ops[0], ast.Is) and A.norm(t.left) == A.norm(tg)
                        and isinstance(t.comparators[0], ast.Constant) and t.comparators[0].value is None for t, pol in G.path_conditions(fn, st)):
                    dep = sorted(_params_in(st.value, params, defs))
                    n_memo += 1
                    ctx.fn(f"{mn.split('.')[-1]}.{qn}")
                    ctx.check(rule, f"{mn.split('.')[-1]}.{qn}:{A.norm(tg)}:a-value-kept-for-later-calls-does-not-depend-on-this-call's-arguments", not dep,
                              f"{qn} fills {src(tg)} once (`if {src(tg)} is None`) with `{src(st.value)[:60]}`, which depends on the argument(s) {dep} of the call that happened to come first; "
                              "later calls with other arguments get that call's value", repo.loc(mod, st), sample={"function": qn, "slot": src(tg), "depends on": dep})
    ctx.check(rule, "memoisation-idioms-examined", True, sample={"remembered values": n_memo}, trivial=True)
