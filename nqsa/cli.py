"""Command line: run the rules of one property on /repo's current tree."""
from __future__ import annotations

import importlib
import json
import os
import sys
import time
import traceback

from . import report
from .model import AnalysisError, ConstEval, Repo, Unknown

CLAIMED = ["C%02d" % i for i in range(1, 21)]


def evaluate(prop: str, tier: str, root=None):
    """Run the rules of one property; no printing, no files."""
    ctx = report.Ctx(prop=prop, tier=tier, repo=None, ev=None)
    try:
        mod = importlib.import_module(f"nqsa.rules.{prop.lower()}")
        ctx.technique = getattr(mod, "TECHNIQUE", "")
        ctx.assumptions = list(getattr(mod, "ASSUMPTIONS", []))
        ctx.explanation = getattr(mod, "EXPLANATION", "")
        repo = Repo(root)
        ctx.repo = repo
        ctx.ev = ConstEval(repo)
        for pe in repo.parse_errors:
            ctx.error("parse", f"file does not parse: {pe}")
        mod.run(ctx)
        if tier == "thorough" and hasattr(mod, "run_thorough"):
            mod.run_thorough(ctx)
    except AnalysisError as e:
        ctx.error("analysis", str(e))
    except Unknown as e:
        ctx.error("consteval", str(e))
    except Exception as e:  # never let a traceback look like a violation
        tb = traceback.format_exc().strip().splitlines()
        ctx.error("internal", f"{type(e).__name__}: {e} @ {tb[-3].strip() if len(tb) >= 3 else ''}")
        if os.environ.get("NQSA_DEBUG"):
            traceback.print_exc()
    if ctx.obligations == 0 and not ctx.errors:
        ctx.error("vacuous", "no obligation was extracted")
    return ctx


def run_property(prop: str, tier: str, write_evidence=True, only=None, root=None):
    t0 = time.time()
    ctx = evaluate(prop, tier, root)
    if only is not None:
        ctx.findings = [f for f in ctx.findings if (f.rule, f.construct) == only]
    extra = None
    if tier == "thorough" and not ctx.errors:
        from . import selftest

        os.environ["NQSA_SELFTEST"] = "1"  # (the replayed variants use the shortest long runs that still exceed the register file)
        extra = selftest.run_for(prop, ctx, own_only=True)
    try:
        return report.finish(ctx, t0, ctx.technique or "static analysis", ctx.assumptions, ctx.explanation or "analysis did not start (see analysis_errors)",
                             write_evidence=write_evidence, extra=extra), ctx
    except Exception as e:  # a failure while reporting is an analysis failure (exit 2), never a verdict
        print(f"ANALYSIS-ERROR property={prop} rule=internal reporting failed: {type(e).__name__}: {str(e)[:200]}")
        if os.environ.get("NQSA_DEBUG"):
            traceback.print_exc()
        return 2, ctx


def main(argv):
    if not argv:
        print(__doc__)
        return 2
    if argv[0] == "--replay":
        path = argv[1]
        with open(path) as fh:
            rp = json.load(fh)
        prop = rp["property"]
        only = (rp["rule"], rp["construct"])
        code, ctx = run_property(prop, "quick", write_evidence=False, only=only)
        if not ctx.findings and not ctx.errors:
            print(f"replay: {only[0]} {only[1]} no longer present")
        return code
    prop = argv[0].upper()
    tier = argv[1] if len(argv) > 1 else os.environ.get("VERIF_TIER", "quick")
    if tier not in ("quick", "thorough"):
        tier = "quick"
    if prop == "ALL":
        worst = 0
        for p in CLAIMED:
            code, _ = run_property(p, tier)
            worst = max(worst, code)
        return worst
    code, _ = run_property(prop, tier)
    return code
