"""C19 - float angles are approximated within tolerance by encodable rotations.

Decided by executing the repository's own functions in the checker's interpreter (nqsa/circuit.py) on enumerated inputs:

C19.G  get_angle_spec_from_float(angle, tol) returns for every executed angle x tolerance, and the steps it returns add up - in units
       of pi, in exact rational arithmetic - to the angle modulo a full turn within the tolerance; an overshoot (sum above the angle) is
       reported separately
C19.B  every returned step is a pair of plain integers 0 <= n, d <= 2^IMMEDIATE_BITS - 1 (the rotation instruction's immediate fields)
C19.E  the builder emits one rotation per step, in order, with the step's (n, d), the same instruction and qubit;
       Qubit.rot_X/Y/Z hand `angle` through

The executed angles (expansion_domain): all dyadic multiples of pi up to 2 pi with exponent <= 7, a spread of finer ones up to exponent 40,
a regular grid, angles within every tolerance of 0 / pi / 2 pi, angles whose float reduction modulo 2 pi is exactly a full turn, negative
angles and angles far beyond a full turn; tolerances: the default, 1e-2, 1e-3, 1e-6, 1e-9.
"""
from __future__ import annotations

import ast
import math
from typing import Optional

from .. import astutil as A
from .. import guards as G
from ..model import AnalysisError, Unknown, dotted, src

TECHNIQUE = ("abstract execution: get_angle_spec_from_float and the rotation builder are run by the checker's own AST interpreter on an enumerated set of angles x tolerances "
             "(numpy's floor / log2 as Python float arithmetic), the results judged in exact rational arithmetic against encodability and the tolerance; nothing of the repository is imported or run by Python")
ENGINES = ["model", "circuit"]
EXPLANATION = (
    "get_angle_spec_from_float is executed by the checker's interpreter for about 1000 angles x 5 tolerances (every dyadic multiple of pi with exponent <= 7, finer ones up to "
    "exponent 40, a regular grid, the neighbourhoods of 0, pi and 2 pi at every tolerance, angles that reduce to exactly a full turn, negative and very large angles): it must return, "
    "every step must be a pair of integers in 0..2^IMMEDIATE_BITS-1, and the steps must add up (exact rationals, units of pi) to the angle modulo 2 pi within the tolerance. "
    "However the function is written - helpers, generators, loops of another form - only what it returns is judged. "
    "C19.E executes the rotation builder with the decomposition modelled: one rotation per step, in order, same instruction and qubit; an explicit (n, d) is one step; templates pass; invalid steps are refused."
)
LEVEL_TEXT = (
    "Abstract execution over an enumerated input domain: exact verdicts (rational arithmetic) for every executed angle and tolerance, including the boundary cases the property names "
    "(negative, beyond 2 pi, dyadic multiples, within tolerance of 0 and of 2 pi). Not decided: that the same holds for every other finite float angle - no static bound on the "
    "floating-point error of the greedy loop for all inputs is derived."
)
LEVEL_NOTE = "the quantifier `every finite float angle` is covered by an enumerated domain, not by a proof over all floats; the float reduction the code performs is compared with the exact reduction up to 1e-12 + 1e-15*|angle| (in units of pi)"
ASSUMPTIONS = [LEVEL_NOTE]
SP = "netqasm.sdk.toolbox.state_prep"
MIN_TOL = 1e-9  # smallest tolerance the property quantifies over


def expansion_domain(default_tolerance_only=False):
    """the angles and tolerances the decomposition is executed on: every dyadic multiple k * pi / 2^j of pi in [0, 2 pi] with j <= 7, a
    spread of finer ones (j up to 40: single steps deep in the exponent range), a regular grid of ordinary angles, angles within the
    tolerances of 0 and of 2 pi, negative angles and angles far beyond a full turn; tolerances: the default and 1e-2 ... 1e-9"""
    angles = []
    for j in range(0, 8):
        for k in range(0, 2 ** (j + 1) + 1):
            angles.append(k * math.pi / 2 ** j)
    for j in range(8, 41):
        for k in (1, 3, 2 ** (j - 1) + 1, 2 ** j - 1, 2 ** j + 5, 2 ** (j + 1) - 1):
            angles.append(k * math.pi / 2 ** j)
    angles += [i * 0.0173 for i in range(0, 364)]
    for eps in (1e-2, 1e-4, 9.9e-5, 1.01e-4, 1e-5, 1e-6, 1e-9, 3e-10, 1e-12, 1e-15, 5e-324):
        angles += [eps, 2 * math.pi - eps, 2 * math.pi + eps, math.pi - eps, math.pi + eps]
    angles += [-1e-16, -1e-17, -3e-16, -1e-300, -5e-324, -0.0, 2 * math.pi - 4e-16, 2 * math.pi * (1 - 2 ** -53)]  # (these reduce to a full turn exactly, or to the float next to it)
    angles += [-0.3, -1e-7, -math.pi, -2 * math.pi - 0.5, -100.25, 7.0, 100.5, 12345.678, 1e6 + 0.125, 2 * math.pi, 4 * math.pi, math.pi / 3, 2.0, 1.0]
    tols = [None] if default_tolerance_only else [None, 1e-2, 1e-3, 1e-6, 1e-9]
    return angles, tols


def check_expansion(ctx, rule="C19", only=None, default_tolerance_only=False):
    """get_angle_spec_from_float executed by the checker's interpreter (numpy's floor / log2 / pi are the library's own arithmetic on
    Python floats) on the enumerated angles x tolerances of expansion_domain().  For every run:
      - the result is a list of (n, d) steps of plain integers with 0 <= n <= 2^IMMEDIATE_BITS - 1 and 0 <= d <= 2^IMMEDIATE_BITS - 1
        (both travel in the rotation instruction's immediate fields)                                                    [B]
      - the steps add up, in units of pi and in exact rational arithmetic, to the angle modulo a full turn within the tolerance
        (the code's tolerance is on the angle in units of pi); a remainder on the other side of the angle, a missing reduction
        modulo 2 pi, the wrong unit or a step dropped above the tolerance all show here                                      [G, M, F]
      - the call returns: it does not raise for a finite angle and does not loop for ever (a bounded number of interpreter steps)  [G]
    The verdicts are exact for the executed inputs; that the same holds for every other finite float is not decided (LEVEL_NOTE)."""
    from fractions import Fraction
    from .. import circuit as C
    repo, ev = ctx.repo, ctx.ev
    m = repo.module(SP)
    fn = m.functions.get("get_angle_spec_from_float")
    if fn is None:
        raise AnalysisError("state_prep.get_angle_spec_from_float not found")
    ctx.fn("state_prep.get_angle_spec_from_float")
    R = lambda letter: f"{rule}.{letter}" if rule == "C19" else rule
    try:
        enc_m = repo.module("netqasm.lang.encoding")
        bits = ev.eval(ast.Name(id="IMMEDIATE_BITS", ctx=ast.Load()), enc_m)
    except Unknown as ex_:
        raise AnalysisError(f"encoding.IMMEDIATE_BITS cannot be evaluated: {ex_}")
    n_max = 2 ** bits - 1
    params = A.param_names(fn)
    if len(params) < 2:
        raise AnalysisError("get_angle_spec_from_float: expected (angle, tol)")
    tol_default = None
    if fn.args.defaults:
        try:
            tol_default = ev.eval(fn.args.defaults[-1], m)
        except Unknown:
            tol_default = None
    if not isinstance(tol_default, float):
        raise AnalysisError("get_angle_spec_from_float: the default tolerance is not a float constant")
    sc = C.Scenario()
    sc.max_depth = 30
    sc.max_steps = 20000
    sc.externals.update({"numpy.floor": lambda x: float(math.floor(x)), "numpy.ceil": lambda x: float(math.ceil(x)), "numpy.log2": math.log2, "numpy.round": lambda x, *a_: float(round(x, *a_)),
                         "numpy.rint": lambda x: float(round(x)), "numpy.abs": abs, "numpy.fabs": abs, "numpy.trunc": lambda x: float(math.trunc(x)), "numpy.mod": lambda a_, b_: a_ % b_,
                         "numpy.fmod": math.fmod, "numpy.power": lambda a_, b_: a_ ** b_, "numpy.isclose": math.isclose, "numpy.sign": lambda x: (x > 0) - (x < 0),
                         "math.floor": math.floor, "math.ceil": math.ceil, "math.log2": math.log2, "math.fmod": math.fmod, "math.trunc": math.trunc, "math.isclose": math.isclose,
                         "math.frexp": math.frexp, "math.ldexp": math.ldexp, "math.isfinite": math.isfinite})
    angles, tols = expansion_domain(default_tolerance_only)
    bad = {}
    n_runs = 0
    two_pi = Fraction(2 * math.pi)
    try:
        for tol in tols:
            for angle in angles:
                n_runs += 1
                I = C.Interp(repo, ev, sc, None)
                I.steps = 0
                what = f"get_angle_spec_from_float({angle!r}" + (f", tol={tol!r})" if tol is not None else ")")
                try:
                    out = I.call_function(m, fn, [angle], {} if tol is None else {params[1]: tol})
                except C.EvalRaise as ex_:
                    bad.setdefault("G:the-call-returns", f"{what} raises {ex_.exc_name} ({ex_})")
                    continue
                except C.StepLimit:
                    bad.setdefault("G:the-call-returns", f"{what} does not return within {sc.max_steps} interpreter steps")
                    continue
                t_ = tol if tol is not None else tol_default
                if isinstance(out, tuple):
                    out = list(out)
                if not isinstance(out, list) or not all(isinstance(s_, (tuple, list)) and len(s_) == 2 for s_ in out):
                    bad.setdefault("B:steps-are-encodable", f"{what} returns {out!r}, not a list of (n, d) steps")
                    continue
                enc = [s_ for s_ in out if not all(isinstance(x_, int) and not isinstance(x_, bool) for x_ in s_) or not (0 <= s_[0] <= n_max) or not (0 <= s_[1] <= n_max)]
                if enc:
                    bad.setdefault("B:steps-are-encodable", f"{what} returns the step {enc[0]!r}: numerator and exponent must be integers in 0..{n_max} (the {bits}-bit immediate fields of the rotation instruction)")
                    continue
                total = sum((Fraction(s_[0], 2 ** s_[1]) for s_ in out), Fraction(0))
                # the angle modulo a full turn, in units of pi (exact rationals of the float constants; the float reduction the code itself
                # performs may differ from this by a few ulps of the angle: allowed for in `slack`)
                red = Fraction(angle) % two_pi
                want = red / Fraction(math.pi)
                slack = Fraction(1, 10 ** 12) + abs(Fraction(angle)) / 10 ** 15
                err = min(abs(total - want), abs(total - want + 2), abs(total - want - 2))
                if err > Fraction(t_) + slack:
                    over = total > want and abs(total - want) == err
                    key = "G:step-never-overshoots" if over else "G:sum-within-the-tolerance"
                    bad.setdefault(key, f"{what} returns {out!r}: the steps add up to {float(total)!r} pi, the angle modulo 2 pi is {float(want)!r} pi - off by {float(err):.3e} with a tolerance of {t_!r}")
    except AnalysisError as ex_:
        ctx.error(R("G"), f"get_angle_spec_from_float cannot be executed: {ex_}")
        return
    ctx.anchor(R("G"), "angle decompositions executed", n_runs, 900 if not default_tolerance_only else 180)
    loc = repo.loc(m, fn)
    for key, text in (("G:the-call-returns", "the decomposition does not return for a finite angle"),
                      ("G:sum-within-the-tolerance", "the steps do not add up to the angle modulo 2 pi within the tolerance"),
                      ("G:step-never-overshoots", "the steps add up to more than the angle by more than the tolerance (a step that overshoots leaves a negative remainder, which the one-sided loop test takes for `done`)"),
                      ("B:steps-are-encodable", "a step does not fit the rotation instruction's immediate fields")):
        letter, name = key.split(":")
        ctx.check(R(letter), f"get_angle_spec_from_float:{name}", key not in bad, f"{text}: {bad.get(key)}", loc, sample={"runs": n_runs})


def rotation_builder_run(ctx, b, fn, kw, steps):
    """_build_cmds_single_qubit_rotation executed with the decomposition modelled (it returns `steps`) and the emitting primitives recorded
    -> (outcome, log, asked)"""
    from .. import circuit as C
    repo = ctx.repo
    log = []
    asked = []
    sc = C.Scenario()
    regs = []

    def get_reg(*a_, **k_):
        regs.append(C.RegSym(f"Q{len(regs)}"))
        return regs[-1]

    sc.overrides.update({"_get_qubit_register": get_reg,
                         "_build_cmds_set_register_value": lambda register=None, value=None, *a_, **k_: log.append(("set", register, value if value is not None else (a_[0] if a_ else None))),
                         "subrt_add_pending_command": lambda command=None, *a_, **k_: log.append(("cmd", command)),
                         "get_angle_spec_from_float": lambda angle=None, *a_, **k_: (asked.append((angle, a_, k_)), list(steps))[1]})
    o = C.object_from_init(repo, b, {}, kind="self")
    try:
        C.Interp(repo, ctx.ev, sc, b).call_function(b.module, fn, [], dict(kw), self_obj=o)
    except C.EvalRaise as ex_:
        return f"raises {ex_.exc_name}", log, asked
    return "ok", log, asked

def rotation_builder_rotations(log):
    """[(qubit id set into the register, instruction name, n, d)] - None when the log is not set/rotation pairs on one register"""
    from .. import circuit as C
    from ..model import EnumMember
    out = []
    if len(log) % 2:
        return None
    for i_ in range(0, len(log), 2):
        s_, c_ = log[i_], log[i_ + 1]
        if s_[0] != "set" or c_[0] != "cmd" or not isinstance(c_[1], C.Obj):
            return None
        ops = c_[1].fields.get("operands")
        ins = c_[1].fields.get("instruction")
        if not isinstance(ops, list) or len(ops) != 3 or ops[0] is not s_[1]:
            return None
        out.append((s_[2], ins.name if isinstance(ins, EnumMember) else ins, ops[1], ops[2]))
    return out



def check_builder(ctx, rule="C19.E"):
    repo = ctx.repo
    b = repo.get_class("netqasm.sdk.builder", "Builder")
    fn = b.methods.get("_build_cmds_single_qubit_rotation")
    if fn is None:
        raise AnalysisError("Builder._build_cmds_single_qubit_rotation not found")
    ctx.fn("Builder._build_cmds_single_qubit_rotation")
    # executed by the checker's interpreter with get_angle_spec_from_float modelled (it returns a fixed list of steps) and the emitting
    # primitives recorded: for a float angle exactly one rotation per step, in order, each `set <qubit register> <qubit id>` followed by
    # the rotation instruction with operands [register, n, d]; without an angle the single step (n, d); an invalid step is refused
    from .. import circuit as C
    from ..model import EnumMember
    gi_ = repo.get_class("netqasm.lang.ir", "GenericInstr")
    rotx = EnumMember(gi_.qualname, "ROT_X", ctx.ev.enum_members(gi_)["ROT_X"])
    tcls = repo.get_class("netqasm.lang.operand", "Template")
    steps = [(3, 1), (0, 0), (255, 9), (1, 7)]
    ctx.anchor(rule, "float-angle arm of the rotation builder", 1, 1)

    run_ = lambda kw: rotation_builder_run(ctx, b, fn, kw, steps)
    rotations = rotation_builder_rotations
    ok, detail = True, ""
    try:
        outcome, log, asked = run_({"instruction": rotx, "virtual_qubit_id": 5, "angle": 0.7})
        got = rotations(log)
        want = [(5, "ROT_X", n_, d_) for n_, d_ in steps]
        if outcome != "ok" or got != want or len(asked) != 1 or asked[0][0] != 0.7 or asked[0][1] or any(k_ != "angle" for k_ in asked[0][2]):
            ok, detail = False, f"angle=0.7 with steps {steps}: {outcome}, the steps were asked for as {asked}, emitted {got if got is not None else log!r}"
        outcome, log, asked = run_({"instruction": rotx, "virtual_qubit_id": 0, "n": 3, "d": 2})
        if ok and (outcome != "ok" or rotations(log) != [(0, "ROT_X", 3, 2)] or asked):
            ok, detail = False, f"n=3, d=2 without an angle: {outcome}, emitted {rotations(log)!r}, decomposition asked for {asked}"
        t_ = C.Obj(tcls, {"name": "t"})
        outcome, log, asked = run_({"instruction": rotx, "virtual_qubit_id": 1, "n": t_, "d": 2})
        if ok and (outcome != "ok" or not (rotations(log) or [None])[0] or rotations(log)[0][2] is not t_):
            ok, detail = False, f"a template numerator is not passed through: {outcome}, {rotations(log)!r}"
        for bad_kw in ({"n": -1, "d": 2}, {"n": 1, "d": -2}, {"n": 1.5, "d": 2}):
            outcome, log, asked = run_(dict({"instruction": rotx, "virtual_qubit_id": 1}, **bad_kw))
            if ok and (outcome == "ok" or log):
                ok, detail = False, f"the invalid step {bad_kw} is not refused before anything is emitted: {outcome}, {log!r}"
    except AnalysisError as ex_:
        ctx.error(rule, f"_build_cmds_single_qubit_rotation cannot be evaluated: {ex_}")
        ok = None
    if ok is not None:
        ctx.check(rule, "_build_cmds_single_qubit_rotation:one-rotation-per-step-in-order", ok,
                  f"for a float angle the builder must emit exactly one rotation per (n, d) step of get_angle_spec_from_float(angle), in order, with the same instruction and qubit, and nothing else ({detail})",
                  b.loc(fn), sample={"steps": steps})
    q = repo.get_class("netqasm.sdk.qubit", "Qubit")
    for meth, gi in (("rot_X", "ROT_X"), ("rot_Y", "ROT_Y"), ("rot_Z", "ROT_Z")):
        f = q.methods.get(meth)
        ok = False
        if f is not None:
            cs = [c for c in A.calls_in(f) if A.call_name(c) == "_build_cmds_single_qubit_rotation"]
            if len(cs) == 1:
                kw = A.kwargs_of(cs[0])
                ok = A.norm(kw.get("angle", ast.Constant(value=0))) == "angle" and A.norm(kw.get("instruction", ast.Constant(value=0))).endswith(gi) and A.norm(kw.get("n", ast.Constant(value=1))) == "n" and A.norm(kw.get("d", ast.Constant(value=1))) == "d"
        ctx.check(rule, f"Qubit.{meth}:forwards-angle-n-d", ok, f"Qubit.{meth} does not hand angle, n and d unchanged to the rotation builder with GenericInstr.{gi}", q.loc(f) if f else "", trivial=True)


def run(ctx):
    check_expansion(ctx)
    check_builder(ctx)


SP_FILE = "netqasm/sdk/toolbox/state_prep.py"
BF = "netqasm/sdk/builder.py"
_POST_SIMPL = "    # Check if some of the (n, d)'s can be simplified, i.e. if `n = b * 2 ^ m` for some `m` and `b`\n    for i, (n, d) in enumerate(nds):\n        n_new, d_new = n, d\n        while (n_new % 2) == 0 and d_new > 0:\n            n_new, d_new = (int(n_new / 2), d_new - 1)\n        nds[i] = (n_new, d_new)\n"
SEEDS = [
    dict(id="c19-inloop-simplification-unguarded", expect="C19.B", construct="steps-are-encodable",
         edits=[(SP_FILE, "        nds.append((n, d))\n        rest -= n / 2**d\n", "        rest -= n / 2**d\n        while n % 2 == 0:\n            n, d = n // 2, d - 1\n        nds.append((n, d))\n"), (SP_FILE, _POST_SIMPL, "")]),
    dict(id="c19-inloop-simplification-halves-n-only", expect="C19.G", construct="sum-within-the-tolerance",
         edits=[(SP_FILE, "        nds.append((n, d))\n        rest -= n / 2**d\n", "        rest -= n / 2**d\n        while d > 0 and n % 2 == 0:\n            n, d = n // 2, d\n        nds.append((n, d))\n"), (SP_FILE, _POST_SIMPL, "")]),
    dict(id="c19-round-to-nearest", file=SP_FILE, expect="C19.G", construct="step-never-overshoots", old="        n = int(np.floor(rest * 2**d))", new="        n = int(np.round(rest * 2**d))"),
    dict(id="c19-tolerance-scaled-by-pi", file=SP_FILE, expect="C19.G", construct="within-the-tolerance", old="    while rest > tol:", new="    tol_rest = tol * np.pi\n    while rest > tol_rest:"),
    dict(id="c19-ceil-numerator", file=SP_FILE, expect="C19.G", construct="step-never-overshoots", old="        n = int(np.floor(rest * 2**d))", new="        n = int(np.ceil(rest * 2**d))"),
    dict(id="c19-subtract-other-step", file=SP_FILE, expect="C19.G", construct="sum-within-the-tolerance", old="        rest -= n / 2**d", new="        rest -= n / 2 ** (d + 1)"),
    dict(id="c19-ceil-exponent", file=SP_FILE, expect="C19.G", construct="the-call-returns", old="        d = int(np.floor(np.log2(n_max / rest)))", new="        d = int(np.ceil(np.log2(n_max / rest)))"),
    dict(id="c19-nmax-nine-bits", file=SP_FILE, expect="C19.B", construct="steps-are-encodable", old="    n_max = 2**IMMEDIATE_BITS - 1", new="    n_max = 2 ** (IMMEDIATE_BITS + 1) - 1"),
    # (removing the `assert n <= n_max` changes no result: with the exponent chosen by floor(log2(n_max / rest)) the assertion never fires; not a breaking change)
    dict(id="c19-no-modulo", file=SP_FILE, expect="C19.G", construct="sum-within-the-tolerance", old="    angle %= 2 * np.pi\n", new=""),
    dict(id="c19-units", file=SP_FILE, expect="C19.G", construct="sum-within-the-tolerance", old="    rest = angle / np.pi\n", new="    rest = angle / (2 * np.pi)\n"),
    dict(id="c19-step-cap-three", file=SP_FILE, expect="C19.G", construct="sum-within-the-tolerance", old="    while rest > tol:", new="    while rest > tol and len(nds) <= 2:"),
    dict(id="c19-simplify-unbounded", file=SP_FILE, expect="C19.B", construct="steps-are-encodable", old="        while (n_new % 2) == 0 and d_new > 0:", new="        while (n_new % 2) == 0:"),
    dict(id="c19-simplify-d-only", file=SP_FILE, expect="C19.G", construct="sum-within-the-tolerance", old="            n_new, d_new = (int(n_new / 2), d_new - 1)", new="            n_new, d_new = (int(n_new / 2), d_new - 2)"),
    dict(id="c19-filter-below-default-tolerance", file=SP_FILE, expect="C19.G", construct="sum-within-the-tolerance", old="        nds[i] = (n_new, d_new)\n    return nds\n", new="        nds[i] = (n_new, d_new)\n    nds = [(n, d) for (n, d) in nds if d < 16]\n    return nds\n"),
    dict(id="c19-filter-32-again", file=SP_FILE, expect="C19.G", construct="sum-within-the-tolerance", old="        nds[i] = (n_new, d_new)\n    return nds\n", new="        nds[i] = (n_new, d_new)\n    nds = [(n, d) for (n, d) in nds if d < 32]\n    return nds\n"),
    dict(id="c19-builder-swaps-n-d", file=BF, expect="C19.E", construct="one-rotation-per-step", old="                    n=n,\n                    d=d,\n                )\n            return", new="                    n=d,\n                    d=n,\n                )\n            return"),
    dict(id="c19-builder-first-step-only", file=BF, expect="C19.E", construct="one-rotation-per-step", old="            for n, d in nds:\n", new="            for n, d in nds[:1]:\n"),
    dict(id="c19-rot-y-drops-angle", file="netqasm/sdk/qubit.py", expect="C19.E", construct="Qubit.rot_Y",
         old="            instruction=GenericInstr.ROT_Y,\n            virtual_qubit_id=self.qubit_id,\n            n=n,\n            d=d,\n            angle=angle,", new="            instruction=GenericInstr.ROT_Y,\n            virtual_qubit_id=self.qubit_id,\n            n=n,\n            d=d,"),
]
BENIGN = [
    dict(id="c19-benign-inloop-simplification", edits=[(SP_FILE, "        nds.append((n, d))\n        rest -= n / 2**d\n", "        rest -= n / 2**d\n        while d > 0 and n % 2 == 0:\n            n, d = n // 2, d - 1\n        nds.append((n, d))\n"), (SP_FILE, _POST_SIMPL, "")]),
    dict(id="c19-benign-stricter-loop-bound", file=SP_FILE, old="    while rest > tol:", new="    half = tol / 2\n    while rest > half:"),
    dict(id="c19-benign-filter-beyond-field-width", file=SP_FILE, old="        nds[i] = (n_new, d_new)\n    return nds\n", new="        nds[i] = (n_new, d_new)\n    nds = [(n, d) for (n, d) in nds if d < 256]\n    return nds\n"),
    dict(id="c19-benign-step-cap-eight", file=SP_FILE, old="    while rest > tol:", new="    while rest > tol and len(nds) < 64 // IMMEDIATE_BITS:"),
    dict(id="c19-benign-positive-remainder-conjunct", file=SP_FILE, old="    while rest > tol:", new="    while rest > 0 and rest > tol:"),
    dict(id="c19-benign-floor-div", file=SP_FILE, old="        n = int(np.floor(rest * 2**d))", new="        n = int(rest * 2**d // 1)"),
    dict(id="c19-benign-two-sided-guard-with-round", edits=[(SP_FILE, "    while rest > tol:", "    while abs(rest) > tol:")]),
]
