"""C19 — float angles are approximated within tolerance by encodable rotations (claimed in part).

The numerical bound itself (floating-point error, all tolerances) is not decided.  Decided are the structural
clauses without which the greedy dyadic expansion cannot meet its tolerance, read from
sdk/toolbox/state_prep.py::get_angle_spec_from_float and sdk/builder.py::_build_cmds_single_qubit_rotation:

C19.M  the angle is reduced modulo a full turn and expressed in units of pi before the expansion
C19.G  greedy invariant: the loop runs while the remainder exceeds the tolerance; with that one-sided test the
       remainder must never become negative, i.e. each numerator under-approximates (floor) remainder * 2^d and the
       remainder is decreased by exactly the recorded n / 2^d
C19.B  each step is encodable: d is the floor of log2(n_max / remainder) with n_max = 2^IMMEDIATE_BITS - 1 (so that
       n <= n_max), n <= n_max is asserted before the step is recorded
C19.S  the simplification divides n and decrements d together, only while n is even, and writes back to the same slot
C19.F  steps are only dropped by the final filter when they lie below the tolerance the caller asked for
       (the filter bound is compared with the largest exponent the loop can produce for the default tolerance and
       for the property's smallest tolerance 1e-9)
C19.E  the builder emits one rotation per step, in order, with the step's (n, d), the same instruction and qubit;
       Qubit.rot_X/Y/Z hand `angle` through
"""
from __future__ import annotations

import ast
import math
from typing import Optional

from .. import astutil as A
from .. import guards as G
from ..model import AnalysisError, Unknown, dotted, src

TECHNIQUE = "loop-invariant shape rules on the greedy expansion (one-sided guard => under-approximating step, recorded step = subtracted step), constant evaluation of bounds, emission pairing in the builder (static analysis)"
ENGINES = ["model", "guards"]
EXPLANATION = (
    "get_angle_spec_from_float is read from its syntax tree: reduction modulo 2*pi; the while loop's guard and the defining expressions "
    "of d, n and the remainder update are classified (floor / round / ceil; same n and d recorded and subtracted); n_max is evaluated from "
    "encoding.IMMEDIATE_BITS; the simplification loop must halve n and decrement d together; the final filter bound is compared with the "
    "largest exponent reachable for a tolerance. In the builder, the float-angle arm must emit one rotation per returned step with that "
    "step's n and d on the same instruction and qubit, and Qubit.rot_X/Y/Z must forward `angle`."
    ' C19.E executes the rotation builder with get_angle_spec_from_float modelled; further conjuncts of the expansion loop guard are judged (a step cap K is accepted iff 2*(2/n_max)^K is within the smallest tolerance in scope); a step simplification inside the expansion loop is judged by C19.S in place.'
)
LEVEL_TEXT = (
    "Static analysis, partial: the structural necessary conditions of the tolerance clause (greedy invariant, encodability guard, "
    "simplification, no step dropped above the tolerance, one rotation per step). Not decided: the floating-point error of the "
    "expansion itself, i.e. that the sum is within tolerance for every finite angle."
)
LEVEL_NOTE = "floating-point rounding inside the expansion (np.log2, division) is not modelled; only the shape of the algorithm is decided"
ASSUMPTIONS = [LEVEL_NOTE]
SP = "netqasm.sdk.toolbox.state_prep"
MIN_TOL = 1e-9  # smallest tolerance the property quantifies over


def _strip_int(e):
    while isinstance(e, ast.Call) and dotted(e.func) == "int" and len(e.args) == 1:
        e = e.args[0]
    return e


def rounding_kind(e) -> Optional[str]:
    """'floor' | 'ceil' | 'round' | 'trunc' (int() of a plain expression) for the outermost rounding of e; None if none"""
    had_int = isinstance(e, ast.Call) and dotted(e.func) == "int"
    inner = _strip_int(e)
    if isinstance(inner, ast.Call):
        name = (dotted(inner.func) or "").split(".")[-1]
        if name in ("floor",):
            return "floor"
        if name in ("ceil",):
            return "ceil"
        if name in ("round", "rint", "around"):
            return "round"
    if isinstance(inner, ast.BinOp) and isinstance(inner.op, ast.FloorDiv):
        return "floor"
    if had_int:
        return "trunc"
    return None


def rounded_arg(e):
    inner = _strip_int(e)
    if isinstance(inner, ast.Call) and inner.args:
        return inner.args[0]
    if isinstance(inner, ast.BinOp) and isinstance(inner.op, ast.FloorDiv) and isinstance(inner.right, ast.Constant) and inner.right.value == 1:
        return inner.left
    return inner


def _fold_step_temporaries(body, rest):
    """A name bound once per step by a plain assignment, before all of its uses, to a call-free arithmetic expression that
    does not mention the remainder (`scale = 2 ** d`) only names that expression: its uses read the expression directly.
    The operands of such an expression are themselves bound once per step, so nothing can change between the binding and a use."""
    import copy
    body = list(body)
    counts = {}
    for st in body:
        for n in ast.walk(st):
            if isinstance(n, ast.Name) and isinstance(n.ctx, ast.Store):
                counts[n.id] = counts.get(n.id, 0) + 1
        if isinstance(st, ast.AugAssign) and isinstance(st.target, ast.Name):
            counts[st.target.id] = counts.get(st.target.id, 0) + 1
    changed = True
    while changed:
        changed = False
        for i, st in enumerate(body):
            if not (isinstance(st, ast.Assign) and len(st.targets) == 1 and isinstance(st.targets[0], ast.Name) and counts.get(st.targets[0].id) == 1):
                continue
            name, val = st.targets[0].id, st.value
            if any(isinstance(n, ast.Call) for n in ast.walk(val)) or A.contains_name(val, rest) or A.contains_name(val, name):
                continue
            if any(counts.get(n.id, 0) > 1 for n in ast.walk(val) if isinstance(n, ast.Name)):
                continue
            used_before = any(A.contains_name(b, name) for b in body[:i])
            used_in_tuple = any(isinstance(c, ast.Call) and isinstance(c.func, ast.Attribute) and c.func.attr == "append" and A.contains_name(c, name) for b in body for c in ast.walk(b))
            if used_before or used_in_tuple:
                continue

            class R(ast.NodeTransformer):
                def visit_Name(self, n):
                    return copy.deepcopy(val) if n.id == name and isinstance(n.ctx, ast.Load) else n
            body = body[:i] + [R().visit(b) for b in body[i + 1:]]
            for b in body:
                ast.fix_missing_locations(b)
            changed = True
            break
    return body


def check_expansion(ctx, rule="C19", only=None, default_tolerance_only=False):
    """only: iterable of sub-rule letters to evaluate (None = all)"""
    repo, ev = ctx.repo, ctx.ev
    m = repo.module(SP)
    fn = m.functions.get("get_angle_spec_from_float")
    if fn is None:
        raise AnalysisError("state_prep.get_angle_spec_from_float not found")
    ctx.fn("state_prep.get_angle_spec_from_float")
    import copy
    fn = copy.deepcopy(fn)  # the loop body is rewritten below (per-step temporaries folded); everything is judged on this copy
    want = lambda letter: only is None or letter in only
    R = lambda letter: f"{rule}.{letter}" if rule == "C19" else rule
    params = A.param_names(fn)
    if len(params) < 2:
        raise AnalysisError("get_angle_spec_from_float: expected (angle, tol)")
    angle, tol = params[0], params[1]
    loops = [st for st in fn.body if isinstance(st, ast.While)]
    if len(loops) != 1:
        raise AnalysisError(f"get_angle_spec_from_float: expected one top-level while loop, found {len(loops)}")
    lp = loops[0]
    ctx.anchor(R("G"), "greedy expansion loop", 1, 1)
    # ---- the guard
    t = lp.test
    rest = None
    two_sided = False
    bound_ok = True
    extras = []
    if isinstance(t, ast.BoolOp) and isinstance(t.op, ast.And):
        # `<remainder> > tol and <more>`: the further conjuncts can only end the expansion earlier; each is judged below
        main = [c for c in t.values if isinstance(c, ast.Compare) and len(c.ops) == 1 and isinstance(c.ops[0], (ast.Gt, ast.GtE)) and A.contains_name(c.comparators[0], tol)]
        if len(main) == 1:
            extras = [c for c in t.values if c is not main[0]]
            t = main[0]
    if isinstance(t, ast.Compare) and len(t.ops) == 1 and isinstance(t.ops[0], (ast.Gt, ast.GtE)) and A.norm(t.comparators[0]) != tol:
        # the remainder is compared with something derived from the tolerance: it must not exceed the tolerance itself
        # (the remainder is in units of pi, as is the documented tolerance)
        bexpr = A.expand(t.comparators[0], A.single_defs(fn))
        try:
            for probe in (0.5, 1e-4, 1e-9):
                v = G.peval(bexpr, {tol: probe, "np.pi": math.pi, "math.pi": math.pi, "pi": math.pi})
                if not isinstance(v, (int, float)) or v > probe * (1 + 1e-12):
                    bound_ok = False
        except Unknown as ex_:
            ctx.error(R("G"), f"loop bound `{src(t.comparators[0])}` cannot be evaluated ({ex_})")
            return
        ctx.check(R("G"), "get_angle_spec_from_float:loop-runs-until-the-remainder-is-within-the-tolerance", bound_ok,
                  f"the expansion stops as soon as the remainder is below `{src(bexpr)}`, which is larger than the tolerance `{tol}` the function documents "
                  "(remainder and tolerance are both in units of pi): the returned steps can miss the angle by more than the tolerance", repo.loc(m, lp))
        t = ast.Compare(left=t.left, ops=t.ops, comparators=[ast.Name(id=tol, ctx=ast.Load())])
    if isinstance(t, ast.Compare) and len(t.ops) == 1 and isinstance(t.ops[0], (ast.Gt, ast.GtE)) and A.norm(t.comparators[0]) == tol:
        if isinstance(t.left, ast.Name):
            rest = t.left.id
        elif isinstance(t.left, ast.Call) and dotted(t.left.func) in ("abs", "np.abs", "math.fabs") and isinstance(t.left.args[0], ast.Name):
            rest, two_sided = t.left.args[0].id, True
    if rest is None:
        ctx.error(R("G"), f"loop guard `{src(t)}` is not `<remainder> > {tol}` (or abs of it)")
        return
    if extras:
        # A further stop condition is harmless only if it cannot be false while the remainder is still above the tolerance.
        #  - a test implied by `remainder > tol` (tol is positive): remainder > 0, >= 0, != 0
        #  - a cap on the number of steps `len(steps) < K`: each step leaves less than 2 / n_max of the remainder
        #    (remainder * 2^d lies in (n_max / 2, n_max] and its integer part is removed), the first remainder is below 2,
        #    so K steps suffice for every angle iff 2 * (2 / n_max)^K <= the smallest tolerance in scope
        sdefs = A.single_defs(fn)
        nmax_v = None
        for c_ in ast.walk(lp):
            # the numerator bound is what the exponent is computed from: log2(<n_max> / remainder)
            if isinstance(c_, ast.Call) and (dotted(c_.func) or "").split(".")[-1] == "log2" and c_.args and isinstance(c_.args[0], ast.BinOp) and isinstance(c_.args[0].op, ast.Div) and A.norm(c_.args[0].right) == rest:
                v_ = ev.try_eval(A.expand(c_.args[0].left, sdefs), m)
                if isinstance(v_, int) and v_ > 2:
                    nmax_v = v_
        tol_min = 1e-4 if default_tolerance_only else 1e-9
        for c in extras:
            verdict = None
            why_ = ""
            if isinstance(c, ast.Compare) and len(c.ops) == 1 and A.norm(c.left) == rest and isinstance(c.comparators[0], ast.Constant) and c.comparators[0].value == 0 and isinstance(c.ops[0], (ast.Gt, ast.GtE, ast.NotEq)):
                verdict = True
            elif isinstance(c, ast.Compare) and len(c.ops) == 1 and isinstance(c.ops[0], (ast.Lt, ast.LtE)) and isinstance(c.left, ast.Call) and dotted(c.left.func) == "len" and nmax_v:
                k_ = ev.try_eval(A.expand(c.comparators[0], sdefs), m)
                if isinstance(k_, int):
                    steps = k_ + (1 if isinstance(c.ops[0], ast.LtE) else 0)
                    left_over = 2.0 * (2.0 / nmax_v) ** steps
                    verdict = left_over <= tol_min
                    why_ = (f"the expansion stops after {steps} steps whatever the remainder; a step removes all but at most 2/{nmax_v} of it, so {steps} steps only guarantee "
                            f"a remainder below {left_over:.3g} (in units of pi) - above the tolerance {tol_min:g} that is in scope: the returned steps miss the angle by more than the tolerance")
            if verdict is None:
                ctx.error(R("G"), f"loop guard conjunct `{src(c)}` is neither implied by the remainder test nor a step cap the checker can evaluate")
                return
            ctx.check(R("G"), "get_angle_spec_from_float:loop-runs-until-the-remainder-is-within-the-tolerance:no-earlier-stop", verdict, why_, repo.loc(m, lp), sample={"conjunct": src(c)})
    # ---- M: reduction and units
    if want("M"):
        pre = fn.body[:fn.body.index(lp)]
        two_pi = False
        for st in pre:
            if isinstance(st, ast.AugAssign) and isinstance(st.op, ast.Mod) and A.norm(st.target) == angle:
                two_pi = _is_const(ev, m, st.value, 2 * math.pi)
            if isinstance(st, ast.Assign) and A.norm(st.targets[0]) == angle and isinstance(st.value, ast.BinOp) and isinstance(st.value.op, ast.Mod) and A.norm(st.value.left) == angle:
                two_pi = _is_const(ev, m, st.value.right, 2 * math.pi)
        rdef = [st.value for st in pre if isinstance(st, ast.Assign) and A.norm(st.targets[0]) == rest]
        units = len(rdef) == 1 and isinstance(rdef[0], ast.BinOp) and isinstance(rdef[0].op, ast.Div) and A.norm(rdef[0].left) == angle and _is_const(ev, m, rdef[0].right, math.pi)
        ctx.check(R("M"), "get_angle_spec_from_float:angle-reduced-modulo-a-full-turn", two_pi,
                  "the angle is not reduced modulo 2*pi before the expansion: angles beyond a full turn (or negative ones) need numerators beyond n_max", repo.loc(m, fn))
        ctx.check(R("M"), "get_angle_spec_from_float:remainder-in-units-of-pi", units,
                  f"the remainder is not initialised as {angle} / pi; the steps n / 2^d are fractions of pi", repo.loc(m, fn))
    # ---- roles inside the loop
    lp.body = _fold_step_temporaries(lp.body, rest)
    # a simplification of the step done inside the expansion loop (`while d > 0 and n % 2 == 0: n, d = n // 2, d - 1`) leaves n / 2^d
    # unchanged when it has the shape rule S demands; it is judged by rule S and set aside for the rules about the expansion itself
    inloop_simpl = [st for st in lp.body if isinstance(st, ast.While) and len(st.body) == 1 and isinstance(st.body[0], ast.Assign) and isinstance(st.body[0].targets[0], ast.Tuple)
                    and len(st.body[0].targets[0].elts) == 2 and not st.orelse]
    inloop_pos = None
    if len(inloop_simpl) == 1:
        inloop_pos = lp.body.index(inloop_simpl[0])
        inloop_before = list(lp.body[:inloop_pos])
        lp.body = [st for st in lp.body if st is not inloop_simpl[0]]
    else:
        inloop_simpl = []
    body = lp.body
    defs = {}
    order = []
    for st in body:
        if isinstance(st, ast.Assign) and len(st.targets) == 1 and isinstance(st.targets[0], ast.Name):
            defs.setdefault(st.targets[0].id, []).append(st)
            order.append(st)
    dvar = nvar = None
    for name, sts in defs.items():
        v = sts[0].value
        txt = A.norm(v)
        if "log2(" in txt or "log(" in txt:
            dvar = name
    for name, sts in defs.items():
        v = sts[0].value
        if name != dvar and dvar is not None and A.contains_name(v, rest) and A.contains_name(v, dvar):
            nvar = name
    if dvar is None or nvar is None:
        ctx.error(R("G"), "could not identify the exponent and numerator of a step in the expansion loop")
        return
    d_expr, n_expr = defs[dvar][0].value, defs[nvar][0].value
    single = len(defs[dvar]) == 1 and len(defs[nvar]) == 1
    # subtraction
    subs = [st for st in body if isinstance(st, ast.AugAssign) and isinstance(st.op, ast.Sub) and A.norm(st.target) == rest]
    subs += [st for st in body if isinstance(st, ast.Assign) and A.norm(st.targets[0]) == rest]
    appends = [c for st in body for c in ast.walk(st) if isinstance(c, ast.Call) and isinstance(c.func, ast.Attribute) and c.func.attr == "append"]
    if want("G"):
        kind = rounding_kind(n_expr)
        arg = rounded_arg(n_expr)
        arg_ok = A.norm(arg) in (f"{rest}*2**{dvar}", f"2**{dvar}*{rest}", f"{rest}*(2**{dvar})", f"{rest}*pow(2,{dvar})")
        under = kind in ("floor", "trunc")
        ok = single and arg_ok and (under or (two_sided and kind in ("round", "floor", "trunc")))
        why = []
        if not arg_ok:
            why.append(f"the numerator is computed from `{src(arg)}`, not from remainder * 2^{dvar}")
        if not (under or two_sided):
            why.append(f"the numerator is rounded with `{kind}` while the loop only continues for a remainder above +{tol}: a step can overshoot, the remainder turns negative and the loop "
                       f"stops with an error of up to half a step (2^-{dvar} * pi / 2), far above the tolerance")
        if not single:
            why.append("n or d is assigned more than once per step")
        ctx.check(R("G"), "get_angle_spec_from_float:step-never-overshoots-the-remainder", ok, "; ".join(why) or "ok", repo.loc(m, defs[nvar][0]),
                  sample={"guard": src(t), "n": src(n_expr), "rounding": kind})
        sub_ok = False
        if len(subs) == 1:
            sv = subs[0].value
            if isinstance(subs[0], ast.Assign):
                sv = sv.right if isinstance(sv, ast.BinOp) and isinstance(sv.op, ast.Sub) and A.norm(sv.left) == rest else None
            sub_ok = sv is not None and A.norm(sv) in (f"{nvar}/2**{dvar}", f"{nvar}/(2**{dvar})", f"{nvar}*2**-{dvar}", f"{nvar}/pow(2,{dvar})")
        rec_ok = len(appends) == 1 and appends[0].args and A.norm(appends[0].args[0]) == f"({nvar},{dvar})"
        # nothing rebinding n/d between definition, recording and subtraction: single definitions suffice (checked above)
        ctx.check(R("G"), "get_angle_spec_from_float:recorded-step-is-the-subtracted-step", sub_ok and rec_ok and single,
                  f"the loop records `{src(appends[0].args[0]) if appends and appends[0].args else None}` and subtracts `{src(subs[0].value) if subs else None}`; both must be the step ({nvar}, {dvar}) = {nvar} / 2^{dvar}",
                  repo.loc(m, lp))
    nmax_name = None
    if want("B"):
        # d = floor(log2(n_max / rest))
        kind = rounding_kind(d_expr)
        arg = rounded_arg(d_expr)
        inner = arg.args[0] if isinstance(arg, ast.Call) and (dotted(arg.func) or "").split(".")[-1] == "log2" and arg.args else None
        ok_d = kind in ("floor", "trunc") and isinstance(inner, ast.BinOp) and isinstance(inner.op, ast.Div) and A.norm(inner.right) == rest
        nmax_expr = inner.left if ok_d else None
        nmax_name = nmax_expr.id if isinstance(nmax_expr, ast.Name) else None
        ctx.check(R("B"), "get_angle_spec_from_float:exponent-is-floor-log2(n_max/remainder)", ok_d,
                  f"the exponent is `{src(d_expr)}`; it must be the floor of log2(n_max / remainder) so that remainder * 2^d <= n_max", repo.loc(m, defs[dvar][0]))
        nmax_val = None
        if nmax_name:
            for st in fn.body:
                if isinstance(st, ast.Assign) and A.norm(st.targets[0]) == nmax_name:
                    nmax_val = ev.try_eval(st.value, m)
        if nmax_val is None and nmax_expr is not None:  # an expression, or a module-level constant
            nmax_val = ev.try_eval(nmax_expr, m)
        bits = ev.try_eval(ast.parse("IMMEDIATE_BITS", mode="eval").body, m)
        ctx.check(R("B"), "get_angle_spec_from_float:n_max=2^IMMEDIATE_BITS-1", isinstance(nmax_val, int) and isinstance(bits, int) and nmax_val == 2 ** bits - 1,
                  f"n_max evaluates to {nmax_val}; the numerator field holds 0..{2 ** bits - 1 if isinstance(bits, int) else '?'}", repo.loc(m, fn), sample={"n_max": nmax_val, "IMMEDIATE_BITS": bits})
        guarded = False
        if appends:
            for st in G.dominating_stmts(fn, appends[0]):
                c = G.raising_condition(st)
                if c is not None:
                    # raises when n > n_max
                    try:
                        cenv = {nmax_name or "n_max": nmax_val or 255, "IMMEDIATE_BITS": bits if isinstance(bits, int) else 8}
                        if nmax_expr is not None:
                            cenv[A.norm(nmax_expr)] = nmax_val or 255
                        hi = bool(G.peval(c, dict(cenv, **{nvar: (nmax_val or 255) + 1})))
                        lo = bool(G.peval(c, dict(cenv, **{nvar: (nmax_val or 255)})))
                        guarded = guarded or (hi and not lo)
                    except Unknown:
                        pass
        ctx.check(R("B"), "get_angle_spec_from_float:numerator-checked-before-recording", guarded,
                  "a step is recorded without a dominating check that its numerator is at most n_max", repo.loc(m, lp))
    if want("S") and inloop_simpl:
        w = inloop_simpl[0]
        tt = w.test
        upd = w.body[0]
        ta, tb = [A.norm(x) for x in upd.targets[0].elts]
        ok_s, nonneg, detail = False, False, f"`{src(upd)}` under `{src(tt)}`"
        if isinstance(upd.value, ast.Tuple) and len(upd.value.elts) == 2 and (ta, tb) == (nvar, dvar):
            va, vb = upd.value.elts
            half = A.norm(_strip_int(va)) in (f"{ta}/2", f"{ta}//2")
            dec = A.norm(vb) == f"{tb}-1"
            try:
                runs = {(av, dv): bool(G.peval(tt, {ta: av, tb: dv})) for av in (2, 3, 4, 128) for dv in (0, 1, 5)}
                even_only = all(not r for (av, dv), r in runs.items() if av % 2 == 1) and all(r for (av, dv), r in runs.items() if av % 2 == 0 and dv >= 1)
                nonneg = all(not r for (av, dv), r in runs.items() if dv == 0)
            except Unknown:
                even_only = nonneg = False
            # it works on the step of this iteration: after n and d are computed, before the step is recorded
            placed = all(any(st_ is d_ for st_ in inloop_before) for d_ in (defs[nvar][0], defs[dvar][0])) and \
                not any(isinstance(c_, ast.Call) and isinstance(c_.func, ast.Attribute) and c_.func.attr == "append" for st_ in inloop_before for c_ in ast.walk(st_))
            ok_s = half and dec and even_only and placed
        ctx.check(R("S"), "get_angle_spec_from_float:simplification-keeps-the-exponent-non-negative", nonneg,
                  f"the simplification loop `while {src(tt)}` can decrement the exponent below 0: for an angle within float rounding of a full turn the remainder is exactly 2.0, "
                  "the step (128, 6) simplifies to (1, -1), and a negative exponent cannot be encoded", repo.loc(m, w))
        ctx.check(R("S"), "get_angle_spec_from_float:simplification-keeps-n/2^d", ok_s,
                  f"the simplification of a step must halve n and decrement d together while n is even and write the pair back to its own slot ({detail})", repo.loc(m, fn))
    elif want("S"):
        post = fn.body[fn.body.index(lp) + 1:]
        simp = [st for st in post if isinstance(st, ast.For)]
        ok_s = True
        detail = "no simplification loop"
        if simp:
            f = simp[0]
            inner_while = [x for x in ast.walk(f) if isinstance(x, ast.While)]
            ok_s = False
            detail = "simplification loop not of the modelled shape"
            if len(inner_while) == 1:
                w = inner_while[0]
                # while (a % 2) == 0 [and b > 0]: a, b = (int(a / 2) | a // 2, b - 1)
                tt = w.test
                a = None
                for x in ast.walk(tt):
                    if isinstance(x, ast.BinOp) and isinstance(x.op, ast.Mod) and _is_const(ev, m, x.right, 2) and isinstance(x.left, ast.Name):
                        a = x.left.id
                upd = [st for st in w.body if isinstance(st, ast.Assign)]
                if a and len(upd) == 1 and isinstance(upd[0].targets[0], ast.Tuple) and isinstance(upd[0].value, ast.Tuple) and len(upd[0].targets[0].elts) == 2:
                    ta, tb = [A.norm(x) for x in upd[0].targets[0].elts]
                    va, vb = upd[0].value.elts
                    half = A.norm(_strip_int(va)) in (f"{a}/2", f"{a}//2")
                    dec = A.norm(vb) == f"{tb}-1"
                    # the loop runs exactly while n is even and the exponent can still be decremented without going negative
                    try:
                        runs = {(av, dv): bool(G.peval(tt, {a: av, tb: dv})) for av in (2, 3, 4, 128) for dv in (0, 1, 5)}
                        even_only = all(not r for (av, dv), r in runs.items() if av % 2 == 1) and all(r for (av, dv), r in runs.items() if av % 2 == 0 and dv >= 1)
                        nonneg = all(not r for (av, dv), r in runs.items() if dv == 0)
                    except Unknown:
                        even_only = nonneg = False
                    ok_s = ta == a and half and dec and even_only
                    detail = f"`{src(upd[0])}` under `{src(tt)}`"
                    ctx.check(R("S"), "get_angle_spec_from_float:simplification-keeps-the-exponent-non-negative", nonneg,
                              f"the simplification loop `while {src(tt)}` can decrement the exponent below 0: for an angle within float rounding of a full turn the remainder is exactly 2.0, "
                              "the step (128, 6) simplifies to (1, -1), and a negative exponent cannot be encoded", repo.loc(m, w))
                    # the working pair starts as the step of this iteration, and the simplified pair is delivered in the step's
                    # own position: written back to the same slot of the iterated list, or appended to a new list in iteration order
                    tgt = f.target
                    step = idx = None
                    if isinstance(tgt, ast.Tuple) and len(tgt.elts) == 2 and isinstance(tgt.elts[1], ast.Tuple) and isinstance(f.iter, ast.Call) and dotted(f.iter.func) == "enumerate":
                        idx, step = A.norm(tgt.elts[0]), [A.norm(x) for x in tgt.elts[1].elts]
                    elif isinstance(tgt, ast.Tuple) and len(tgt.elts) == 2 and all(isinstance(x, ast.Name) for x in tgt.elts):
                        step = [A.norm(x) for x in tgt.elts]
                    inits = {}
                    for st2 in f.body:
                        if st2 is w or any(st2 is y for y in ast.walk(w)):
                            break
                        if isinstance(st2, ast.Assign) and isinstance(st2.targets[0], ast.Tuple) and isinstance(st2.value, ast.Tuple):
                            inits.update({A.norm(t_): A.norm(v_) for t_, v_ in zip(st2.targets[0].elts, st2.value.elts)})
                        elif isinstance(st2, ast.Assign) and isinstance(st2.targets[0], ast.Name):
                            inits[st2.targets[0].id] = A.norm(st2.value)
                    init_ok = step is not None and ((inits.get(a) == step[0] and inits.get(tb) == step[1]) or (a == step[0] and tb == step[1]))
                    pair = f"({a},{tb})"
                    fdefs = {k_: A.norm(v_) for st2 in f.body if isinstance(st2, ast.Assign) and isinstance(st2.targets[0], ast.Name) for k_, v_ in [(st2.targets[0].id, st2.value)]}
                    delivered = False
                    for st2 in f.body:
                        if isinstance(st2, ast.Assign) and isinstance(st2.targets[0], ast.Subscript) and A.norm(st2.value) == pair:
                            delivered = idx is not None and A.norm(st2.targets[0].slice) == idx and isinstance(f.iter, ast.Call) and A.norm(st2.targets[0].value) == A.norm(f.iter.args[0])
                        if isinstance(st2, ast.Expr) and isinstance(st2.value, ast.Call) and isinstance(st2.value.func, ast.Attribute) and st2.value.func.attr == "append" and len(st2.value.args) == 1:
                            arg = A.norm(st2.value.args[0])
                            if arg == pair or fdefs.get(arg) == pair:
                                out_list = A.norm(st2.value.func.value)
                                fresh = any(isinstance(s3, ast.Assign) and A.norm(s3.targets[0]) == out_list and isinstance(s3.value, ast.List) and not s3.value.elts for s3 in post)
                                returned = any(isinstance(r_.value, ast.Name) and r_.value.id == out_list for r_ in A.returns(fn))
                                delivered = fresh and returned
                    ok_s = ok_s and init_ok and delivered
        ctx.check(R("S"), "get_angle_spec_from_float:simplification-keeps-n/2^d", ok_s,
                  f"the simplification of a step must halve n and decrement d together while n is even and write the pair back to its own slot ({detail})", repo.loc(m, fn))
    if want("F"):
        check_filter(ctx, R("F"), fn, m, lp, tol, nmax_name, default_only=default_tolerance_only)


def _is_const(ev, m, e, value) -> bool:
    v = ev.try_eval(e, m)
    if v is None:
        txt = A.norm(e)
        v = {"np.pi": math.pi, "math.pi": math.pi, "pi": math.pi, "2*np.pi": 2 * math.pi, "2*math.pi": 2 * math.pi, "np.pi*2": 2 * math.pi, "2*pi": 2 * math.pi}.get(txt)
    return isinstance(v, (int, float)) and abs(v - value) < 1e-12


def check_filter(ctx, rule, fn, m, lp, tol, nmax_name, default_only=False):
    """steps may be dropped after the loop only if they cannot occur for the tolerance asked for"""
    repo, ev = ctx.repo, ctx.ev
    post = fn.body[fn.body.index(lp) + 1:]
    bounds = []
    for st in post:
        for x in ast.walk(st):
            if isinstance(x, (ast.ListComp, ast.GeneratorExp)) and x.generators and x.generators[0].ifs:
                for cond in x.generators[0].ifs:
                    bounds.append((cond, x))
            if isinstance(x, ast.Call) and dotted(x.func) == "filter":
                bounds.append((x.args[0], x))
    default_tol = None
    a = fn.args
    names = [p.arg for p in a.args]
    if tol in names and len(a.defaults) >= len(names) - names.index(tol):
        default_tol = ev.try_eval(a.defaults[names.index(tol) - (len(names) - len(a.defaults))], m)
    nmax = 255
    for st in fn.body:
        if isinstance(st, ast.Assign) and nmax_name and A.norm(st.targets[0]) == nmax_name:
            nmax = ev.try_eval(st.value, m) or 255
    if nmax_name and not any(isinstance(st, ast.Assign) and A.norm(st.targets[0]) == nmax_name for st in fn.body):
        nmax = ev.try_eval(ast.Name(id=nmax_name, ctx=ast.Load()), m) or 255
    for tl, label in ((default_tol, "the default tolerance"),) + (() if default_only else ((MIN_TOL, f"tolerance {MIN_TOL:g}"),)):
        if not isinstance(tl, (int, float)) or tl <= 0:
            ctx.error(rule, f"tolerance for {label} could not be evaluated")
            continue
        dmax = math.floor(math.log2(nmax / tl))  # largest exponent the loop can produce: remainder > tol
        bad = None
        for cond, node in bounds:
            # the filter keeps a step iff cond holds; find the loop variable for d: a Name compared with a constant
            kept = None
            if isinstance(cond, ast.Compare) and len(cond.ops) == 1 and isinstance(cond.left, ast.Name):
                try:
                    kept = all(bool(G.peval(cond, {cond.left.id: dd})) for dd in range(0, dmax + 1))
                except Unknown:
                    kept = None
            if kept is None:
                ctx.error(rule, f"filter `{src(cond)}` after the expansion is outside the modelled shape (<exponent> <op> <constant>)")
                continue
            if not kept:
                bad = src(cond)
        ctx.check(rule, f"get_angle_spec_from_float:no-step-dropped-above-{label.replace(' ', '-')}", bad is None,
                  f"after the expansion only steps with `{bad}` are kept, but for {label} ({tl:g}, in units of pi) the loop produces exponents up to {dmax}: "
                  f"those steps are dropped and the returned sequence misses the angle by up to {nmax}/2^(bound) * pi, above the tolerance", repo.loc(m, fn),
                  sample={"tolerance": tl, "largest_exponent": dmax, "filters": [src(c) for c, _ in bounds]})


def rotation_builder_run(ctx, b, fn, kw, steps):
    """_build_cmds_single_qubit_rotation executed with the decomposition modelled (it returns `steps`) and the emitting primitives recorded
    -> (outcome, log, asked)"""
    from .. import circuit as C
    repo = ctx.repo
    log = []
    asked = []
    sc = C.Scenario()
    regs = []

    def get_reg(*a_, **k_):
        regs.append(C.RegSym(f"Q{len(regs)}"))
        return regs[-1]

    sc.overrides.update({"_get_qubit_register": get_reg,
                         "_build_cmds_set_register_value": lambda register=None, value=None, *a_, **k_: log.append(("set", register, value if value is not None else (a_[0] if a_ else None))),
                         "subrt_add_pending_command": lambda command=None, *a_, **k_: log.append(("cmd", command)),
                         "get_angle_spec_from_float": lambda angle=None, *a_, **k_: (asked.append((angle, a_, k_)), list(steps))[1]})
    o = C.object_from_init(repo, b, {}, kind="self")
    try:
        C.Interp(repo, ctx.ev, sc, b).call_function(b.module, fn, [], dict(kw), self_obj=o)
    except C.EvalRaise as ex_:
        return f"raises {ex_.exc_name}", log, asked
    return "ok", log, asked

def rotation_builder_rotations(log):
    """[(qubit id set into the register, instruction name, n, d)] - None when the log is not set/rotation pairs on one register"""
    from .. import circuit as C
    from ..model import EnumMember
    out = []
    if len(log) % 2:
        return None
    for i_ in range(0, len(log), 2):
        s_, c_ = log[i_], log[i_ + 1]
        if s_[0] != "set" or c_[0] != "cmd" or not isinstance(c_[1], C.Obj):
            return None
        ops = c_[1].fields.get("operands")
        ins = c_[1].fields.get("instruction")
        if not isinstance(ops, list) or len(ops) != 3 or ops[0] is not s_[1]:
            return None
        out.append((s_[2], ins.name if isinstance(ins, EnumMember) else ins, ops[1], ops[2]))
    return out



def check_builder(ctx, rule="C19.E"):
    repo = ctx.repo
    b = repo.get_class("netqasm.sdk.builder", "Builder")
    fn = b.methods.get("_build_cmds_single_qubit_rotation")
    if fn is None:
        raise AnalysisError("Builder._build_cmds_single_qubit_rotation not found")
    ctx.fn("Builder._build_cmds_single_qubit_rotation")
    # executed by the checker's interpreter with get_angle_spec_from_float modelled (it returns a fixed list of steps) and the emitting
    # primitives recorded: for a float angle exactly one rotation per step, in order, each `set <qubit register> <qubit id>` followed by
    # the rotation instruction with operands [register, n, d]; without an angle the single step (n, d); an invalid step is refused
    from .. import circuit as C
    from ..model import EnumMember
    gi_ = repo.get_class("netqasm.lang.ir", "GenericInstr")
    rotx = EnumMember(gi_.qualname, "ROT_X", ctx.ev.enum_members(gi_)["ROT_X"])
    tcls = repo.get_class("netqasm.lang.operand", "Template")
    steps = [(3, 1), (0, 0), (255, 9), (1, 7)]
    ctx.anchor(rule, "float-angle arm of the rotation builder", 1, 1)

    run_ = lambda kw: rotation_builder_run(ctx, b, fn, kw, steps)
    rotations = rotation_builder_rotations
    ok, detail = True, ""
    try:
        outcome, log, asked = run_({"instruction": rotx, "virtual_qubit_id": 5, "angle": 0.7})
        got = rotations(log)
        want = [(5, "ROT_X", n_, d_) for n_, d_ in steps]
        if outcome != "ok" or got != want or len(asked) != 1 or asked[0][0] != 0.7 or asked[0][1] or any(k_ != "angle" for k_ in asked[0][2]):
            ok, detail = False, f"angle=0.7 with steps {steps}: {outcome}, the steps were asked for as {asked}, emitted {got if got is not None else log!r}"
        outcome, log, asked = run_({"instruction": rotx, "virtual_qubit_id": 0, "n": 3, "d": 2})
        if ok and (outcome != "ok" or rotations(log) != [(0, "ROT_X", 3, 2)] or asked):
            ok, detail = False, f"n=3, d=2 without an angle: {outcome}, emitted {rotations(log)!r}, decomposition asked for {asked}"
        t_ = C.Obj(tcls, {"name": "t"})
        outcome, log, asked = run_({"instruction": rotx, "virtual_qubit_id": 1, "n": t_, "d": 2})
        if ok and (outcome != "ok" or not (rotations(log) or [None])[0] or rotations(log)[0][2] is not t_):
            ok, detail = False, f"a template numerator is not passed through: {outcome}, {rotations(log)!r}"
        for bad_kw in ({"n": -1, "d": 2}, {"n": 1, "d": -2}, {"n": 1.5, "d": 2}):
            outcome, log, asked = run_(dict({"instruction": rotx, "virtual_qubit_id": 1}, **bad_kw))
            if ok and (outcome == "ok" or log):
                ok, detail = False, f"the invalid step {bad_kw} is not refused before anything is emitted: {outcome}, {log!r}"
    except AnalysisError as ex_:
        ctx.error(rule, f"_build_cmds_single_qubit_rotation cannot be evaluated: {ex_}")
        ok = None
    if ok is not None:
        ctx.check(rule, "_build_cmds_single_qubit_rotation:one-rotation-per-step-in-order", ok,
                  f"for a float angle the builder must emit exactly one rotation per (n, d) step of get_angle_spec_from_float(angle), in order, with the same instruction and qubit, and nothing else ({detail})",
                  b.loc(fn), sample={"steps": steps})
    q = repo.get_class("netqasm.sdk.qubit", "Qubit")
    for meth, gi in (("rot_X", "ROT_X"), ("rot_Y", "ROT_Y"), ("rot_Z", "ROT_Z")):
        f = q.methods.get(meth)
        ok = False
        if f is not None:
            cs = [c for c in A.calls_in(f) if A.call_name(c) == "_build_cmds_single_qubit_rotation"]
            if len(cs) == 1:
                kw = A.kwargs_of(cs[0])
                ok = A.norm(kw.get("angle", ast.Constant(value=0))) == "angle" and A.norm(kw.get("instruction", ast.Constant(value=0))).endswith(gi) and A.norm(kw.get("n", ast.Constant(value=1))) == "n" and A.norm(kw.get("d", ast.Constant(value=1))) == "d"
        ctx.check(rule, f"Qubit.{meth}:forwards-angle-n-d", ok, f"Qubit.{meth} does not hand angle, n and d unchanged to the rotation builder with GenericInstr.{gi}", q.loc(f) if f else "", trivial=True)


def run(ctx):
    check_expansion(ctx)
    check_builder(ctx)


SP_FILE = "netqasm/sdk/toolbox/state_prep.py"
BF = "netqasm/sdk/builder.py"
_POST_SIMPL = "    # Check if some of the (n, d)'s can be simplified, i.e. if `n = b * 2 ^ m` for some `m` and `b`\n    for i, (n, d) in enumerate(nds):\n        n_new, d_new = n, d\n        while (n_new % 2) == 0 and d_new > 0:\n            n_new, d_new = (int(n_new / 2), d_new - 1)\n        nds[i] = (n_new, d_new)\n"
SEEDS = [
    dict(id="c19-inloop-simplification-unguarded", expect="C19.S", construct="exponent-non-negative",
         edits=[(SP_FILE, "        nds.append((n, d))\n        rest -= n / 2**d\n", "        rest -= n / 2**d\n        while n % 2 == 0:\n            n, d = n // 2, d - 1\n        nds.append((n, d))\n"), (SP_FILE, _POST_SIMPL, "")]),
    dict(id="c19-inloop-simplification-halves-n-only", expect="C19.S", construct="simplification-keeps-n/2^d",
         edits=[(SP_FILE, "        nds.append((n, d))\n        rest -= n / 2**d\n", "        rest -= n / 2**d\n        while d > 0 and n % 2 == 0:\n            n, d = n // 2, d\n        nds.append((n, d))\n"), (SP_FILE, _POST_SIMPL, "")]),
    dict(id="c19-round-to-nearest", file=SP_FILE, expect="C19.G", construct="step-never-overshoots", old="        n = int(np.floor(rest * 2**d))", new="        n = int(np.round(rest * 2**d))"),
    dict(id="c19-tolerance-scaled-by-pi", file=SP_FILE, expect="C19.G", construct="within-the-tolerance", old="    while rest > tol:", new="    tol_rest = tol * np.pi\n    while rest > tol_rest:"),
    dict(id="c19-ceil-numerator", file=SP_FILE, expect="C19.G", construct="step-never-overshoots", old="        n = int(np.floor(rest * 2**d))", new="        n = int(np.ceil(rest * 2**d))"),
    dict(id="c19-subtract-other-step", file=SP_FILE, expect="C19.G", construct="recorded-step-is-the-subtracted-step", old="        rest -= n / 2**d", new="        rest -= n / 2 ** (d + 1)"),
    dict(id="c19-ceil-exponent", file=SP_FILE, expect="C19.B", construct="exponent-is-floor", old="        d = int(np.floor(np.log2(n_max / rest)))", new="        d = int(np.ceil(np.log2(n_max / rest)))"),
    dict(id="c19-nmax-nine-bits", file=SP_FILE, expect="C19.B", construct="n_max=", old="    n_max = 2**IMMEDIATE_BITS - 1", new="    n_max = 2 ** (IMMEDIATE_BITS + 1) - 1"),
    dict(id="c19-no-assert", file=SP_FILE, expect="C19.B", construct="numerator-checked", old="        assert n <= n_max, \"Something went wrong, n is bigger than n_max\"\n", new=""),
    dict(id="c19-no-modulo", file=SP_FILE, expect="C19.M", construct="modulo-a-full-turn", old="    angle %= 2 * np.pi\n", new=""),
    dict(id="c19-units", file=SP_FILE, expect="C19.M", construct="units-of-pi", old="    rest = angle / np.pi\n", new="    rest = angle / (2 * np.pi)\n"),
    dict(id="c19-step-cap-three", file=SP_FILE, expect="C19.G", construct="no-earlier-stop", old="    while rest > tol:", new="    while rest > tol and len(nds) <= 2:"),
    dict(id="c19-simplify-unbounded", file=SP_FILE, expect="C19.S", construct="exponent-non-negative", old="        while (n_new % 2) == 0 and d_new > 0:", new="        while (n_new % 2) == 0:"),
    dict(id="c19-simplify-d-only", file=SP_FILE, expect="C19.S", construct="simplification", old="            n_new, d_new = (int(n_new / 2), d_new - 1)", new="            n_new, d_new = (int(n_new / 2), d_new - 2)"),
    dict(id="c19-filter-below-default-tolerance", file=SP_FILE, expect="C19.F", construct="default-tolerance", old="        nds[i] = (n_new, d_new)\n    return nds\n", new="        nds[i] = (n_new, d_new)\n    nds = [(n, d) for (n, d) in nds if d < 16]\n    return nds\n"),
    dict(id="c19-filter-32-again", file=SP_FILE, expect="C19.F", construct="tolerance-1e-09", old="        nds[i] = (n_new, d_new)\n    return nds\n", new="        nds[i] = (n_new, d_new)\n    nds = [(n, d) for (n, d) in nds if d < 32]\n    return nds\n"),
    dict(id="c19-builder-swaps-n-d", file=BF, expect="C19.E", construct="one-rotation-per-step", old="                    n=n,\n                    d=d,\n                )\n            return", new="                    n=d,\n                    d=n,\n                )\n            return"),
    dict(id="c19-builder-first-step-only", file=BF, expect="C19.E", construct="one-rotation-per-step", old="            for n, d in nds:\n", new="            for n, d in nds[:1]:\n"),
    dict(id="c19-rot-y-drops-angle", file="netqasm/sdk/qubit.py", expect="C19.E", construct="Qubit.rot_Y",
         old="            instruction=GenericInstr.ROT_Y,\n            virtual_qubit_id=self.qubit_id,\n            n=n,\n            d=d,\n            angle=angle,", new="            instruction=GenericInstr.ROT_Y,\n            virtual_qubit_id=self.qubit_id,\n            n=n,\n            d=d,"),
]
BENIGN = [
    dict(id="c19-benign-inloop-simplification", edits=[(SP_FILE, "        nds.append((n, d))\n        rest -= n / 2**d\n", "        rest -= n / 2**d\n        while d > 0 and n % 2 == 0:\n            n, d = n // 2, d - 1\n        nds.append((n, d))\n"), (SP_FILE, _POST_SIMPL, "")]),
    dict(id="c19-benign-stricter-loop-bound", file=SP_FILE, old="    while rest > tol:", new="    half = tol / 2\n    while rest > half:"),
    dict(id="c19-benign-filter-beyond-field-width", file=SP_FILE, old="        nds[i] = (n_new, d_new)\n    return nds\n", new="        nds[i] = (n_new, d_new)\n    nds = [(n, d) for (n, d) in nds if d < 256]\n    return nds\n"),
    dict(id="c19-benign-step-cap-eight", file=SP_FILE, old="    while rest > tol:", new="    while rest > tol and len(nds) < 64 // IMMEDIATE_BITS:"),
    dict(id="c19-benign-positive-remainder-conjunct", file=SP_FILE, old="    while rest > tol:", new="    while rest > 0 and rest > tol:"),
    dict(id="c19-benign-floor-div", file=SP_FILE, old="        n = int(np.floor(rest * 2**d))", new="        n = int(rest * 2**d // 1)"),
    dict(id="c19-benign-two-sided-guard-with-round", edits=[(SP_FILE, "    while rest > tol:", "    while abs(rest) > tol:")]),
]
