"""C09 — SDK and controller agree on which virtual qubits exist (claimed in part).

C09.F  every emission of a QFREE for a handle's id is paired with the
       deactivation of that handle, under the same guard
C09.L  every qubit handle created by SDK internals (constructors always
       activate) is returned up to a public API, or deactivated on every path
C09.P  the NV relocation peephole rewrites an emitted operand only below a test
       that compares that operand with the address being relocated
C09.M  relocation keeps handle and controller in step (new id allocated, state
       moved, old id freed, handle renamed on both paths; lowest unused id)
C09.I  ids handed to internally created handles are known to be unused
C09.X  controller side: allocation raises on a taken slot / out of bounds, free
       raises on an empty slot  (= C13.G)
"""
from __future__ import annotations

import ast
from typing import Dict, List, Optional, Set, Tuple

from .. import astutil as A
from .. import emit as E
from .. import guards as G
from .. import ownership as O
from ..model import AnalysisError, Unknown, dotted, src
from . import c12, c13
from .c10 import unit_of

TECHNIQUE = "abstract execution of bounded host programs end to end (DebugConnection, Builder, message bytes, QNodeController, Executor driven by the checker's AST interpreter; link layer modelled); QFREE-emission/deactivation pairing, typestate analysis of internally created handles, belief rule on the relocation peephole (static analysis)"
ENGINES = ["model", "flow", "emit", "circuit", "session"]
EXPLANATION = (
    "Over sdk/qubit.py, sdk/builder.py, sdk/epr_socket.py, sdk/memmgr.py: every ICmd(QFREE) construction is located; a builder "
    "primitive that frees the id it is given is followed to its callers, each of which must deactivate the handle whose qubit_id it "
    "passes under the same guard as the emission (measure: `not inplace` on both sides) unless the site is in the reasoned exception "
    "table (retry loops whose handles stay valid, relocation). Every Qubit(...)/FutureQubit(...) created inside the SDK is tracked "
    "by the acquire/release engine (constructor = activate, `.active = False` = deactivate, ownership transferred by return / list / "
    "callee that deactivates its parameter) up to a public API. An in-place rewrite of an already emitted command's operand must lie "
    "under a test reading that same operand against the relocated address. Controller-side allocation guards as in C13.G and the occupied-slot test that holds back an arriving pair while its virtual id is still allocated (as in C12.B)."
    ' C09.I: an explicit virtual id given to a new handle is provably unused. C09.Z: no truthiness test on an int-typed value (qubit id 0, physical address 0).'
    ' C09.M executes get_new_qubit_address abstractly for seven sets of handle ids, and again after a live handle was renamed to the id just handed out (what NV relocation does).'
    " C09.I / C09.F execute Qubit.__init__ and the active setter against the repository's own Builder and MemoryManager objects for six combinations of live ids and explicit / automatic id."
    " C09.H: bounded host programs (create, gate, in-place / destructive measurement, free, flush; create_keep / recv_keep of one and two pairs) run end to end - DebugConnection, Builder, message bytes, deserialize_host_msg, QNodeController, Executor, link layer modelled - on generic hardware, NV hardware and NV hardware with the NV transpiler: the SDK accepts the program, no subroutine faults, live handles have distinct ids, after every flush the host's active qubits are the controller's allocated ones. The structural scan of explicit virtual ids is retired in its favour."
)
LEVEL_TEXT = (
    "Abstract execution of the property as stated on bounded host histories (depth 3 quick, 4-5 thorough, plus entanglement histories) in three hardware settings; static rules for QFREE pairing, handle typestate, the relocation peephole and the controller's guards. Not decided: longer histories, budgets above three, contexts and post routines inside histories."
)
LEVEL_NOTE = "handles returned by a public API are the user's responsibility; exceptional paths not modelled"
ASSUMPTIONS = [LEVEL_NOTE]
B = "netqasm.sdk.builder"
# reasoned exceptions for C09.F: (unit, reason)
QFREE_EXCEPTIONS = {
    "Builder.sdk_create_epr_keep.cleanup": "retry loop of the min-fidelity request: the freed ids are re-used by the next try and the handles are returned to the user",
    "Builder.sdk_recv_epr_keep.cleanup": "retry loop of the min-fidelity request: the freed ids are re-used by the next try and the handles are returned to the user",
    "Builder._build_cmds_move_qubit": "relocation: the source id is freed after the state moved; the caller renames the handle (checked by C09.M)",
    "Builder._build_cmds_wait_move_epr_to_mem.post_loop": "frees the communication qubit (id 0) after moving the pair to its memory qubit; no handle owns id 0 there",
}


def guard_text(fn, node) -> List[str]:
    out = []
    for t, pol in G.path_conditions(fn, node):
        x = A.norm(t)
        if not pol:
            x = x[3:] if x.startswith("not") else "not" + x
        out.append(x)
    return sorted(out)


def guard_of_value(fn, var: str) -> Optional[List[str]]:
    """condition under which list-variable `var` is non-empty when assigned in both arms of an if/else"""
    for n in ast.walk(fn):
        if isinstance(n, ast.If):
            t_assign = [s for s in n.body if isinstance(s, ast.Assign) and A.norm(s.targets[0]) == var]
            f_assign = [s for s in n.orelse if isinstance(s, ast.Assign) and A.norm(s.targets[0]) == var]
            if t_assign and f_assign:
                te = isinstance(t_assign[0].value, ast.List) and not t_assign[0].value.elts
                fe = isinstance(f_assign[0].value, ast.List) and not f_assign[0].value.elts
                x = A.norm(n.test)
                if fe and not te:
                    return [x]
                if te and not fe:
                    return [x[3:] if x.startswith("not") else "not" + x]
    return None


def check_qfree_pairing(ctx):
    repo = ctx.repo
    b = repo.get_class(B, "Builder")
    qc = repo.get_class("netqasm.sdk.qubit", "Qubit")
    # 1. QFREE emission sites in the builder
    prims: Dict[str, Tuple[str, List[str]]] = {}  # builder method -> (param holding the id, guard)
    sites = 0
    for name, fn in sorted(b.methods.items()):
        for c in A.calls_in(fn, nested=True):
            em = E.parse_icmd(c)
            if em is None or em.instr != "QFREE":
                continue
            sites += 1
            unit = unit_of(fn, c)
            uname = f"Builder.{name}" if unit is fn else f"Builder.{name}.{unit.name}"
            ctx.fn(uname)
            reg = A.norm(em.operands[0]) if em.operands else None
            # which parameter's value was put in that register?
            src_param = None
            for s2 in A.calls_in(unit):
                if A.call_name(s2) == "_build_cmds_set_register_value" and len(s2.args) == 2 and A.norm(s2.args[0]) == reg and isinstance(s2.args[1], ast.Name) and s2.args[1].id in A.param_names(unit):
                    src_param = s2.args[1].id
            if src_param is not None:
                g = guard_text(unit, c)
                # the ICmd may be built under a guard and stored in a list variable
                holder = None
                for st in ast.walk(unit):
                    if isinstance(st, ast.Assign) and any(x is c for x in ast.walk(st.value)) and isinstance(st.targets[0], ast.Name):
                        holder = st.targets[0].id
                if holder and not g:
                    gv = guard_of_value(unit, holder)
                    g = gv if gv is not None else g
                prims[name] = (src_param, g)
                ctx.check("C09.F", f"{uname}:frees-the-id-it-is-given", True, sample={"primitive": name, "id_param": src_param, "guard": g})
            else:
                ok = uname in QFREE_EXCEPTIONS
                ctx.check("C09.F", f"{uname}:qfree-of-internal-register", ok, f"{uname} emits a QFREE of `{reg}` which is neither the id it was given nor a listed internal case", b.loc(c),
                          sample={"site": uname, "reason": QFREE_EXCEPTIONS.get(uname)})
    ctx.anchor("C09.F", "QFREE emission sites", sites, 3)
    # 2. callers of the freeing primitives that pass a handle's id
    pairs = 0
    for cls in (qc, b):
        for name, fn in sorted(cls.methods.items()):
            for c in A.calls_in(fn, nested=True):
                callee = A.call_name(c)
                if callee not in prims or not isinstance(c.func, ast.Attribute):
                    continue
                idp, guard = prims[callee]
                kw = A.kwargs_of(c)
                params = [p for p in A.param_names(b.methods[callee]) if p != "self"]
                arg = kw.get(idp, c.args[params.index(idp)] if params.index(idp) < len(c.args) else None)
                if not (isinstance(arg, ast.Attribute) and arg.attr == "qubit_id"):
                    continue  # not a handle's id (e.g. relocation source)
                handle = A.norm(arg.value)
                unit = unit_of(fn, c)
                uname = f"{cls.name}.{name}" if unit is fn else f"{cls.name}.{name}.{unit.name}"
                pairs += 1
                ctx.fn(uname)
                if uname in QFREE_EXCEPTIONS:
                    ctx.check("C09.F", f"{uname}:{callee}:listed-exception", True, sample={"site": uname, "reason": QFREE_EXCEPTIONS[uname]}, trivial=True)
                    continue
                # translate the primitive's guard to the caller
                binding = {p: A.norm(v) for p, v in kw.items()}
                want = sorted(_subst_guard(g, binding) for g in guard)
                deact = []
                for st in ast.walk(unit):
                    if isinstance(st, ast.Assign) and isinstance(st.targets[0], ast.Attribute) and st.targets[0].attr == "active" and A.norm(st.targets[0].value) == handle \
                            and isinstance(st.value, ast.Constant) and st.value.value is False and st.lineno > c.lineno:
                        deact.append(guard_text(unit, st))
                    if isinstance(st, ast.Expr) and isinstance(st.value, ast.Call) and A.norm(st.value.func) == f"{handle}._deactivate" and st.lineno > c.lineno:
                        deact.append(guard_text(unit, st))
                ok = want in deact
                ctx.check("C09.F", f"{uname}:{callee}:handle-deactivated-with-the-qfree", ok,
                          f"{uname} makes the builder emit `qfree` for {handle}.qubit_id (under {want or 'no condition'}) but "
                          f"{'deactivates the handle under ' + str(deact) if deact else 'never deactivates the handle'}: the virtual ID stays reserved on the SDK side while the controller has freed it",
                          cls.loc(c), sample={"site": uname, "emits_qfree_when": want, "deactivates_when": deact})
    ctx.anchor("C09.F", "call sites freeing a handle's id", pairs, 2)
    # the handle's active flag is what the memory manager's list reflects
    for meth, call in (("_activate", "activate_qubit"), ("_deactivate", "deactivate_qubit")):
        r2 = repo.lookup(qc, meth)   # (through the MRO: the handle's activation may live in a base class of Qubit)
        f2 = r2[1] if r2 is not None else None
        ok = f2 is not None and any(A.call_name(x) == call and len(x.args) == 1 and A.norm(x.args[0]) == "self" for x in A.calls_in(f2))
        ctx.check("C09.F", f"Qubit.{meth}:updates-active-list", ok, f"Qubit.{meth} does not {call}(self) on the connection's memory manager", qc.loc(f2) if f2 else "", trivial=True)
    st_ = qc.setters.get("active")
    ok, why_ = _exec_qubit_handle(ctx, qc)["setter"]
    ctx.check("C09.F", "Qubit.active.setter:dispatches", ok, f"the `active` setter does not keep the memory manager's list of active qubits in step with the flag: {why_}", qc.loc(st_) if st_ else "", trivial=True)
    init = qc.methods.get("__init__")
    ok = init is not None and any(A.is_self_attr(x.func, "_activate") for x in A.calls_in(init))
    ctx.check("C09.F", "Qubit.__init__:activates", ok, "the Qubit constructor no longer activates the handle (the typestate model assumes it does)", qc.loc(init) if init else "", trivial=True)


def _subst_guard(g: str, binding: Dict[str, str]) -> str:
    neg = g.startswith("not")
    core = g[3:] if neg else g
    core = binding.get(core, core)
    return ("not" if neg else "") + core


def check_handles(ctx):
    repo = ctx.repo
    units: Dict[str, Tuple[ast.AST, object]] = {}
    by_name: Dict[str, List[str]] = {}
    for mn in ("netqasm.sdk.builder", "netqasm.sdk.epr_socket"):
        m = repo.module(mn)
        for c in m.classes.values():
            for fn in c.methods.values():
                q = f"{c.name}.{fn.name}"
                units[q] = (fn, m)
                by_name.setdefault(fn.name, []).append(q)
                for n in ast.walk(fn):
                    if n is not fn and isinstance(n, (ast.FunctionDef, ast.AsyncFunctionDef)):
                        units.setdefault(f"{q}.{n.name}", (n, m))
    an = O.Analyzer(units, by_name, mode="handle", ctors=("Qubit", "FutureQubit"))
    an.run()
    for e in sorted(set(an.errors)):
        ctx.error("C09.L", e)
    leaks = {(l.qualname, l.site): l for l in an.leaks}
    n = 0
    api = {"EPRSocket"}
    for (q, site), node in sorted(an.acquire_sites.items(), key=lambda kv: (kv[0][0], kv[0][1])):
        n += 1
        ctx.fn(q)
        m = units[q][1]
        l = leaks.get((q, site))
        ctx.check("C09.L", f"{q}:{site}", l is None,
                  (f"{q}: the qubit handle from `{site}` is still active at {l.exit_desc} and is neither returned towards the caller nor deactivated: "
                   f"its virtual ID stays reserved (or, for a FutureQubit, the next Qubit(conn) fails because the active list holds a non-constant id)") if l else "",
                  repo.loc(m, node), sample={"unit": q, "handle": site, "returned_or_deactivated": l is None})
    ctx.anchor("C09.L", "handle creation / hand-over sites", n, 5)  # (creation sites moved into helper classes are followed by the histories of C09.H, not by this engine)
    for q, sm in sorted(an.summaries.items()):
        if sm.returns_owned or sm.releases_params:
            ctx.note(f"handle summary {q}: returns={ {k: v for k, v in sm.returns_owned.items()} } deactivates_params={sorted(sm.releases_params)}")
    # public API functions may return handles to the user; internal ones (leading underscore) were followed by the engine


def check_peephole(ctx):
    repo = ctx.repo
    b = repo.get_class(B, "Builder")
    n = 0
    for name, fn in sorted(b.methods.items()):
        for st in ast.walk(fn):
            if isinstance(st, ast.Assign) and isinstance(st.targets[0], ast.Subscript) and isinstance(st.targets[0].value, ast.Attribute) and st.targets[0].value.attr in ("operands", "args"):
                tgt = st.targets[0]
                # only rewrites of *already emitted* commands (element of a pending-command list)
                if not isinstance(tgt.value.value, ast.Subscript):
                    continue
                n += 1
                ctx.fn(f"Builder.{name}")
                want = A.norm(tgt)
                conj = []
                for t, pol in G.path_conditions(fn, st):
                    if pol:
                        def flat(x):
                            if isinstance(x, ast.BoolOp) and isinstance(x.op, ast.And):
                                for v in x.values:
                                    flat(v)
                            else:
                                conj.append(x)
                        flat(t)
                params = set(A.param_names(fn))
                ok = False
                for x in conj:
                    if isinstance(x, ast.Compare) and len(x.ops) == 1 and isinstance(x.ops[0], ast.Eq):
                        sides = [A.norm(x.left), A.norm(x.comparators[0])]
                        if want in sides:
                            other = [s for s in sides if s != want]
                            ok = bool(other) and other[0] in params
                ctx.check("C09.P", f"Builder.{name}:rewrite-of-emitted-operand-is-guarded", ok,
                          f"Builder.{name} rewrites `{src(tgt)}` of an already emitted command without first testing that this operand equals the address being relocated: "
                          f"after a flush the last set/qalloc/init triple belongs to another qubit, whose allocation is then redirected", b.loc(st),
                          sample={"rewrite": src(st), "guards": [src(x)[:60] for x in conj]})
    ctx.anchor("C09.P", "in-place rewrites of emitted commands", n, 1)


def check_relocation(ctx):
    repo, ev = ctx.repo, ctx.ev
    b = repo.get_class(B, "Builder")
    # (what relocation emits and how it renames the handle - new id allocated, state moved, old id freed, handle renamed on every
    # path, the rewrite of an already emitted `set` only for the relocated address - is decided by the NV histories of C09.H: a
    # relocation that leaves host and controller out of step faults on the controller or breaks the agreement after the flush)
    # lowest unused id: the method is executed abstractly (nqsa/circuit.py) on memory managers holding handles with given ids
    from .. import circuit as C
    mm = repo.get_class("netqasm.sdk.memmgr", "MemoryManager")
    r_ = repo.lookup(mm, "get_new_qubit_address")
    g = r_[1] if r_ is not None else None
    ok = False
    if g is not None:
        ctx.fn("MemoryManager.get_new_qubit_address")
        got = {}
        try:
            for ids in ((), (0,), (1, 2), (0, 1, 3), (0, 1, 2), (2, 0, 1, 5), (0, 0, 1)):
                # attributes other than the handle list start as __init__ leaves them: a remembered answer is state too
                o = C.object_from_init(repo, mm, {"_active_qubits": [C.Obj(None, {"qubit_id": k}) for k in ids]})
                it = C.Interp(repo, ev, C.Scenario(), None)
                first = it.call_function(r_[0].module, g, [], {}, self_obj=o)
                # asked again on the same object after a live handle was given the id just handed out (what NV relocation does:
                # `q.qubit_id = new_virtual_address`, the list of handles itself is untouched): the answer must follow the handles
                hs = o.fields["_active_qubits"]
                want_first = min(set(range(len(ids) + 2)) - set(ids))
                if hs and isinstance(first, int):
                    hs[0].fields["qubit_id"] = first
                now = [h_.fields["qubit_id"] for h_ in hs]
                second = C.Interp(repo, ev, C.Scenario(), None).call_function(r_[0].module, g, [], {}, self_obj=o)
                got[ids] = (first == want_first, second == min(set(range(len(now) + 2)) - set(now)))
            ok = all(a_ and b_ for a_, b_ in got.values())
        except (AnalysisError, C.EvalRaise) as ex_:
            ctx.error("C09.M", f"MemoryManager.get_new_qubit_address cannot be evaluated: {ex_}")
            ok = True
    ctx.check("C09.M", "MemoryManager.get_new_qubit_address:lowest-id-not-held-by-an-active-handle", ok, "a new virtual id is not the lowest id that no active handle holds", mm.loc(g) if g else "")
    # allocation command for a new handle uses the handle's id
    qc = repo.get_class("netqasm.sdk.qubit", "Qubit")
    init = qc.methods["__init__"]
    ok = any(A.call_name(c) == "_build_cmds_new_qubit" and A.norm(A.kwargs_of(c).get("qubit_id", ast.Constant(value=0))) == "self.qubit_id" for c in A.calls_in(init))
    ctx.check("C09.M", "Qubit.__init__:allocates-its-own-id", ok, "a new Qubit does not emit the allocation of its own virtual id", qc.loc(init), trivial=True)
    nq = b.methods.get("_build_cmds_new_qubit")
    ics = [e.instr for e in E.icmds_in(nq)] if nq else []
    ctx.check("C09.M", "_build_cmds_new_qubit:qalloc-then-init", ics == ["QALLOC", "INIT"], f"a new qubit emits {ics}", b.loc(nq) if nq else "", trivial=True)


def check_new_handle_ids(ctx):
    """C09.I: the explicit virtual id given to a handle created by SDK internals is known to be unused: None (the constructor
    picks the lowest unused id, the handles created before it are already active), the direct result of
    get_new_qubit_address(), or an id made free beforehand (relocation of id 0 / assert not is_qubit_id_used(id))"""
    repo = ctx.repo
    b = repo.get_class(B, "Builder")
    # (which id a handle created for a delivered pair gets - None, a fresh address, 0 after relocating the occupant - is decided by the
    # entanglement histories of C09.H: colliding or out-of-range ids fault on the controller or break the agreement after the flush)
    # the Qubit constructor takes the lowest unused id when none is given, and activates immediately
    qc = repo.get_class("netqasm.sdk.qubit", "Qubit")
    init = qc.methods["__init__"]
    ok, why_ = _exec_qubit_handle(ctx, qc)["init"]
    ctx.check("C09.I", "Qubit.__init__:lowest-unused-id-when-none-given", ok, f"the Qubit constructor does not take builder.new_qubit_id() exactly when no virtual address is given, or does not register the handle: {why_}", qc.loc(init))
    nq = b.methods.get("new_qubit_id")
    ok = nq is not None and any(A.norm(r.value) == "self._mem_mgr.get_new_qubit_address()" for r in A.returns(nq))
    ctx.check("C09.I", "Builder.new_qubit_id:from-memory-manager", ok, "Builder.new_qubit_id does not return the memory manager's lowest unused id", b.loc(nq) if nq else "", trivial=True)


def _exec_qubit_handle(ctx, qc):
    """Qubit.__init__ and the `active` setter executed by the checker's interpreter against a modelled connection / builder / memory
    manager.  -> {"init": (ok, why), "setter": (ok, why)}"""
    cached = getattr(ctx, "_c09_qubit_handle", None)
    if cached is not None:
        return cached
    from .. import circuit as C
    repo = ctx.repo

    mmc = repo.get_class("netqasm.sdk.memmgr", "MemoryManager")
    bc = repo.get_class("netqasm.sdk.builder", "Builder")
    res = {"init": (True, ""), "setter": (True, "")}
    init = qc.methods.get("__init__")
    setter = qc.setters.get("active")

    def world(live_ids):
        """the repository's own Builder / MemoryManager (executed like everything else), with handles of the given ids already live"""
        mem = C.object_from_init(repo, mmc, {}, kind="obj")
        bld = C.object_from_init(repo, bc, {"_mem_mgr": mem}, kind="obj")
        conn = C.Obj(None, {"builder": bld, "_builder": bld, "node_name": "n"})
        for i_ in live_ids:
            mem.fields.setdefault("_active_qubits", []).append(C.Obj(qc, {"_qubit_id": i_, "_active": True, "_conn": conn}, "obj"))
        emitted = []
        sc = C.Scenario()
        sc.method_overrides = {}
        return mem, bld, conn, emitted, sc

    def count_of(mem, o):
        return sum(1 for x in mem.fields.get("_active_qubits", []) if x is o)

    try:
        for live, va, add, want_id in (([], None, True, 0), ([0], None, True, 1), ([0, 1, 3], None, False, 2), ([1], 0, True, 0), ([0], 0, True, 0), ([0, 1], 3, False, 3)):
            mem, bld, conn, emitted, sc = world(live)
            o = C.Obj(qc, {}, "self")
            # the allocation commands are recorded, not built (they are the subject of other rules)
            sc.overrides["_build_cmds_new_qubit"] = lambda qubit_id=None, *a_, **k_: emitted.append(qubit_id if qubit_id is not None else (a_[0] if a_ else None))
            label = f"Qubit(virtual_address={va}, add_new_command={add}) with handles {live} live"
            try:
                C.Interp(repo, ctx.ev, sc, qc).call_function(qc.module, init, [conn], {"add_new_command": add, "virtual_address": va}, self_obj=o)
            except C.EvalRaise as ex_:
                res["init"] = (False, f"{label} raises {ex_}")
                break
            got_id = o.fields.get("_qubit_id")
            if got_id != want_id:
                res["init"] = (False, f"{label} gets id {got_id!r}, expected {want_id} ({'the lowest id no live handle holds' if va is None else 'the id that was asked for'})")
                break
            if emitted != ([want_id] if add else []):
                res["init"] = (False, f"{label} emits allocation commands for {emitted}")
                break
            if count_of(mem, o) != 1 or o.fields.get("_active") is not True:
                res["init"] = (False, f"after {label} the handle is listed {count_of(mem, o)} times as active, _active={o.fields.get('_active')!r}")
                break
            if setter is not None and live == [1]:
                steps = []
                for val in (False, False, True, True, False):
                    C.Interp(repo, ctx.ev, sc, qc).call_function(qc.module, setter, [val], {}, self_obj=o)
                    steps.append((val, o.fields.get("_active"), count_of(mem, o)))
                if any(not (flag is val and listed == (1 if val else 0)) for val, flag, listed in steps):
                    res["setter"] = (False, f"setting active to False, False, True, True, False gives (value, flag, times listed) = {steps}")
    except AnalysisError as ex_:
        ctx.error("C09.I", f"Qubit.__init__ / active setter cannot be evaluated: {ex_}")
    ctx._c09_qubit_handle = res
    return res


def host_histories(max_live, depth, alphabet=("new", "gate", "meas", "measin", "free", "flush"), max_flush=2):
    """every sequence of host operations of exactly `depth` steps (or that cannot be continued) that keeps at most `max_live` qubits
    alive: create a qubit, a gate on the newest handle, destructive / in-place measurement and free of any live handle (named by its
    position among the live ones), flush (at most `max_flush`, never two in a row).  A final flush is added by the runner."""
    out = []

    def rec(seq, live, nflush, since_flush):
        if len(seq) == depth:
            out.append(tuple(seq))
            return
        grown = False
        for op in alphabet:
            if op == "new":
                if live < max_live:
                    grown = True
                    rec(seq + [("new",)], live + 1, nflush, since_flush + 1)
            elif op == "flush":
                if nflush < max_flush and since_flush > 0:
                    grown = True
                    rec(seq + [("flush",)], live, nflush + 1, 0)
            elif op == "gate":
                if live > 0 and (not seq or seq[-1][0] != "gate"):
                    grown = True
                    rec(seq + [("gate", live - 1)], live, nflush, since_flush + 1)
            else:
                for k in range(live):
                    if op == "measin" and seq and seq[-1] == ("measin", k):
                        continue
                    grown = True
                    rec(seq + [(op, k)], live - (0 if op == "measin" else 1), nflush, since_flush + 1)
        if not grown and seq:
            out.append(tuple(seq))
    rec([], 0, 0, 0)
    return sorted(set(out))


def _run_history(ctx, job):
    """one host history against one hardware setting -> None, or (construct, what went wrong)"""
    from .. import session as S
    (hardware, qubits, nv_compiler), seq = job
    setting = f"{hardware} hardware, {qubits} qubits" + (", NV transpiler" if nv_compiler else "")
    w = S.HostWorld(ctx, hardware, qubits, nv_compiler, epr=any(o_[0] in ("create", "recv", "py") for o_ in seq))
    handles = []
    done = []

    def tell():
        return f"[{setting}] " + ", ".join((o_[0] + (f"({o_[1]})" if len(o_) > 1 else "")) if o_[0] != "py" else "`" + o_[1].strip().replace("\n", "; ") + "`" for o_ in done)

    def after_flush():
        for cls_name, r_ in w.deliver():
            if r_[0] != "ok":
                return ("every-subroutine-executes-without-a-fault", f"{tell()}: the controller handles {cls_name} with {r_[1]}: {str(r_[2])[:160]!r}")
        host, ctrl = w.host_active_ids(), w.allocated(0)
        if len(set(host)) != len(host):
            return ("live-handles-have-distinct-ids", f"{tell()}: the live handles of the host have the virtual ids {host}")
        if host != ctrl:
            return ("after-a-flush-host-and-controller-agree", f"{tell()}: after the flush the host's active qubits are {host}, the controller has {ctrl} allocated")
        return None

    for op in tuple(seq) + (("flush",),):
        done.append(op)
        if op[0] == "new":
            r_ = w.new_qubit()
            if r_[0] == "ok":
                handles.append(r_[1])
        elif op[0] == "py":
            # a piece of host program as text, run by the interpreter with `conn`, `epr_socket` and the live handles `q0`, `q1`, ... bound
            env = {"conn": w.conn, "epr_socket": w.epr_socket}
            env.update({f"q{i_}": h_ for i_, h_ in enumerate(handles)})
            for k_ in range(op[2]):
                w.expect_remote_pairs(1)
            mod_ = ctx.repo.module("netqasm.sdk.epr_socket")
            r_ = S.outcome(w.I.block, ast.parse(op[1]).body, env, mod_)
        elif op[0] in ("create", "recv"):
            if op[0] == "recv":
                w.expect_remote_pairs(op[1])
            r_ = w.call(w.epr_socket, "create_keep" if op[0] == "create" else "recv_keep", number=op[1])
            if r_[0] == "ok":
                handles.extend(r_[1])
        elif op[0] == "flush":
            r_ = w.call(w.conn, "flush")
            if r_[0] == "ok":
                bad = after_flush()
                if bad is not None:
                    return bad
        else:
            q = handles[op[1]]
            if op[0] == "gate":
                r_ = w.call(q, "H")
            elif op[0] == "meas":
                r_ = w.call(q, "measure")
                handles.pop(op[1])
            elif op[0] == "measin":
                r_ = w.call(q, "measure", inplace=True)
            else:
                r_ = w.call(q, "free")
                handles.pop(op[1])
        if r_[0] != "ok":
            return ("the-host-program-is-accepted", f"{tell()}: the SDK refuses the last operation with {r_[1] if len(r_) > 1 else r_}: {str(r_[2])[:160] if len(r_) > 2 else ''!r} (at most {len(handles)} qubits are alive)")
    return None


def check_histories(ctx, rule="C09.H", thorough=False):
    """C09 as stated, on bounded host programs: the repository's SDK (DebugConnection, Builder, memory manager, Qubit) and the
    repository's controller (QNodeController, Executor) run in the checker's interpreter, connected by the repository's own message
    serialisation.  Every sequence of qubit creation, gate, in-place / destructive measurement, free and flush up to the bound, that keeps
    at most the configured number of qubits alive (one fewer on NV hardware), is run on generic hardware, on NV hardware and on NV hardware
    with the NV transpiler.  Required: the SDK accepts the program; the controller executes every subroutine without a fault; the live
    handles have distinct ids; after every flush the host's active qubits are exactly the controller's allocated virtual qubits."""
    from .. import session as S
    settings = [(("generic", 2, False), 2), (("nv", 3, False), 2), (("nv", 3, True), 2)]
    depth = 4 if thorough else 3
    jobs = []
    for cfg, live in settings:
        for seq in host_histories(live, depth):
            jobs.append((cfg, seq))
    # entanglement: pairs created / received (kept), alone, next to a live qubit, one request after another, with measurements and frees
    epr_family = [(("create", 1),), (("create", 2),), (("recv", 1),), (("recv", 2),),
                  (("new",), ("create", 1)), (("new",), ("flush",), ("create", 1)), (("new",), ("recv", 1)), (("new",), ("gate", 0), ("flush",), ("recv", 1), ("meas", 0)),
                  (("create", 1), ("meas", 0), ("create", 1)), (("create", 1), ("flush",), ("create", 1), ("meas", 0)), (("create", 2), ("free", 0), ("new",)),
                  (("recv", 1), ("measin", 0), ("flush",), ("free", 0), ("recv", 1)), (("create", 1), ("recv", 1)), (("create", 2), ("meas", 1), ("flush",), ("new",), ("meas", 0))]
    for cfg in (("generic", 3, False), ("nv", 3, False), ("nv", 3, True)):
        for seq in epr_family:
            jobs.append((cfg, seq))
    # handles the SDK creates itself: per-pair contexts and post routines (sequential and not), the handle used inside and left behind
    CTX = "with epr_socket.create_context(number={n}, sequential={seq}) as (q, pair):\n    q.H()\n    m = q.measure()\n"
    CTX_KEEP = "with epr_socket.create_context(number={n}, sequential={seq}) as (q, pair):\n    q.H()\n"
    # (a post routine that measures its pair leaves the handles create_keep returns behind as second handles of qubits that are gone -
    # what those mean is not specified; the routines here apply a gate and the returned handles are measured afterwards)
    POST = "def post(conn, q, pair):\n    q.H()\nqs = epr_socket.create_keep(number={n}, post_routine=post)\nfor q in qs:\n    q.measure()\n"
    RECV_POST = "def post(conn, q, pair):\n    q.X()\nqs = epr_socket.recv_keep(number={n}, post_routine=post)\nqs[0].measure()\n"
    for cfg in (("generic", 3, False), ("nv", 3, True)):
        for n_ in (1, 2):
            for seq_ in (True, False):
                if cfg[0] == "nv" and n_ == 2 and not seq_:
                    continue  # (two pairs requested at once on one communication qubit: what the base executor does while the second waits is not modelled)
                jobs.append((cfg, (("py", CTX.format(n=n_, seq=seq_), 0), ("new",), ("meas", 0))))
            if not (cfg[0] == "nv" and n_ == 2):
                jobs.append((cfg, (("py", POST.format(n=n_), 0), ("new",), ("flush",), ("meas", 0))))
        jobs.append((cfg, (("py", RECV_POST.format(n=1), 1), ("new",), ("meas", 0))))
        jobs.append((cfg, (("new",), ("py", CTX.format(n=2, seq=True), 0), ("meas", 0))))
        # (a sequential request for as many pairs as the application has qubits, and more: all of them pass through one id)
        jobs.append((cfg, (("new",), ("py", CTX.format(n=3, seq=True), 0), ("meas", 0))))
        jobs.append((cfg, (("new",), ("gate", 0), ("flush",), ("py", CTX.format(n=4, seq=True), 0), ("meas", 0))))
    # pairs delivered while the live ids have a hole (a handle with a lower id was freed)
    for cfg in (("generic", 3, False), ("generic", 4, False)):
        jobs.append((cfg, (("new",), ("new",), ("free", 0), ("create", 2))))
        jobs.append((cfg, (("new",), ("new",), ("meas", 0), ("flush",), ("recv", 2), ("meas", 0))))
    if thorough:
        for cfg, live in ((("generic", 3, False), 3), (("nv", 4, True), 3)):
            for seq in host_histories(live, 5, ("new", "meas", "measin", "free", "flush")):
                jobs.append((cfg, seq))
    bad = {}
    try:
        for job, res in zip(jobs, S.parallel_map(ctx, _run_history, jobs, jobs=14)):
            if res is not None:
                bad.setdefault(res[0], res[1])
    except AnalysisError as ex_:
        ctx.error(rule, f"the host / controller pair cannot be executed: {ex_}")
        return
    ctx.anchor(rule, "host histories executed against the controller", len(jobs), 120)
    repo = ctx.repo
    b = repo.get_class(B, "Builder")
    for key in ("the-host-program-is-accepted", "every-subroutine-executes-without-a-fault", "live-handles-have-distinct-ids", "after-a-flush-host-and-controller-agree"):
        ctx.check(rule, key, key not in bad, bad.get(key, ""), b.loc(b.node) if hasattr(b, "node") else None, sample={"histories": len(jobs)})


def run(ctx):
    check_histories(ctx, thorough=(ctx.tier == "thorough" and not getattr(ctx, "_in_selftest", False)))
    check_qfree_pairing(ctx)
    check_new_handle_ids(ctx)
    check_handles(ctx)
    check_relocation(ctx)
    c13.check_alloc_guards(ctx, "C09.X")
    # the controller's "is this virtual qubit allocated?" test decides whether an arriving pair may take the id (shared with C12.B)
    c12.check_busy(ctx, ctx.repo.get_class(c12.EXE, "Executor"), "C09.X")
    # 0 is an ordinary id / value / address: nothing int-valued may be tested by truthiness (nqsa/truth.py)
    from .. import truth
    truth.check(ctx, "C09.Z", ['netqasm.sdk.qubit', 'netqasm.sdk.memmgr', 'netqasm.backend.executor'])
    # a value remembered for later calls is keyed by every argument it depends on (nqsa/memo.py)
    from .. import memo
    memo.check(ctx, "C09.K", ['netqasm.sdk.qubit', 'netqasm.sdk.memmgr', 'netqasm.backend.executor'])
    # no type test that an earlier type test has already decided (a subclass tested after its base class: nqsa/shadow.py)
    from .. import shadow
    shadow.check(ctx, "C09.H", ['netqasm.sdk.qubit', 'netqasm.sdk.memmgr', 'netqasm.backend.executor'])


QB = "netqasm/sdk/qubit.py"
BF = "netqasm/sdk/builder.py"
SEEDS = [
    dict(id="c09-occupied-test-truthiness", file="netqasm/backend/executor.py", expect="C09.X", construct="slot-occupied-test",
         old="        return unit_module[virtual_address] is not None", new="        return bool(unit_module[virtual_address])"),
    dict(id="c09-orig-free", file=QB, expect="C09.F", construct="Qubit.free", old="        self.builder._build_cmds_qfree(qubit_id=self.qubit_id)\n        self.active = False\n", new="        self.builder._build_cmds_qfree(qubit_id=self.qubit_id)\n"),
    dict(id="c09-measure-guard", file=QB, expect="C09.F", construct="Qubit.measure", old="        if not inplace:\n            self.active = False\n", new="        if inplace:\n            self.active = False\n"),
    dict(id="c09-measure-always-free", file=BF, expect="C09.F", construct="Qubit.measure", old="        if not inplace:\n            free_commands = [", new="        if True:\n            free_commands = ["),
    dict(id="c09-orig-post-loop-handle", file=BF, expect="C09.L", construct="post_loop", old="            params.post_routine(self, q, pair_future)\n            # The handle only exists for the duration of the post routine.\n            q.active = False\n", new="            params.post_routine(self, q, pair_future)\n"),
    dict(id="c09-orig-context-handles", file=BF, expect="C09.L", construct="", old="        # The qubits of the pairs can only be used inside the context.\n        for q in qubits:\n            q.active = False\n", new=""),
    dict(id="c09-context-only-future", file=BF, expect="C09.L", construct="_pre_epr_context", old="        return pre_commands, loop_register, ent_results_array, q, pair, qubit_futures + [q]\n", new="        return pre_commands, loop_register, ent_results_array, q, pair, [q]\n"),
    dict(id="c09-orig-peephole", file=BF, expect="C09.H", construct="", old="                        and pending_commands[-3].operands[1] == virtual_address  # type: ignore\n", new=""),
    dict(id="c09-rename-one-path", file=BF, expect="C09.H", construct="", old="                        self._build_cmds_move_qubit(\n                            source=virtual_address, target=new_virtual_address\n                        )\n                    # From now on, the original qubit should be referred to with the new virtual address.\n                    q.qubit_id = new_virtual_address",
         new="                        self._build_cmds_move_qubit(\n                            source=virtual_address, target=new_virtual_address\n                        )\n                        # From now on, the original qubit should be referred to with the new virtual address.\n                        q.qubit_id = new_virtual_address"),
    dict(id="c09-move-no-free", file=BF, expect="C09.H", construct="", old="        self._build_cmds_two_qubit(GenericInstr.MOV, source, target)\n        self._build_cmds_qfree(source)", new="        self._build_cmds_two_qubit(GenericInstr.MOV, source, target)"),
    dict(id="c09-new-id", file="netqasm/sdk/memmgr.py", expect="C09.M", construct="get_new_qubit_address", old="        for address in count(0):\n            if address not in qubit_addresses_in_use:", new="        for address in count(1):\n            if address not in qubit_addresses_in_use:"),
    dict(id="c09-consecutive-ids", file=BF, expect="C09.H", construct="", old="                    virtual_address=virt_id,\n", new="                    virtual_address=virt_id if sequential else self._mem_mgr.get_new_qubit_address() + i,\n"),
    dict(id="c09-nv-no-relocation", file=BF, expect="C09.H", construct="", old="            # NV: only ID 0 can be used for entanglement\n            self._build_cmds_free_up_qubit_location(0)\n", new="            # NV: only ID 0 can be used for entanglement\n"),
    dict(id="c09-ent-qubit-dropped", file=BF, expect="C09.L", construct="_create_ent_qubits", old="                    q = Qubit(\n                        self._connection,\n                        add_new_command=False,\n                        ent_info=ent_info_slice,\n                        virtual_address=0,\n                    )\n                    qubits.append(q)", new="                    q = Qubit(\n                        self._connection,\n                        add_new_command=False,\n                        ent_info=ent_info_slice,\n                        virtual_address=0,\n                    )"),
    dict(id="c09-double-alloc", file="netqasm/backend/executor.py", expect="C09.X", construct="_allocate_physical_qubit", old="        if unit_module[virtual_address] is None:\n            if physical_address is None:", new="        if True:\n            if physical_address is None:"),
]
BENIGN = []
