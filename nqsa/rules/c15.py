"""C15 — host/controller messages survive serialisation (claimed in part).

C15.D  dispatch tables total over the type enums, TYPE == key, type byte first
C15.S  fixed-layout messages: generic from_buffer_copy decode of the same struct,
       constructor assigns every declared field, type byte = TYPE.value
C15.V  variable-length messages: writer segments parsed back at the same
       offsets with the same types; every written field read
C15.H  a ctypes.Structure may not define a method/attribute named like one of
       its _fields_ (the field descriptor overrides it); optional-int codec:
       constructor and accessor are mirror images over the discriminant
"""
from __future__ import annotations

import ast
from typing import Any, Dict, List, Optional, Tuple

from .. import astutil as A
from .. import guards as G
from .. import wire
from ..model import AnalysisError, CArray, CScalar, CStructRef, ClassRef, EnumMember, Unknown, dotted, src

TECHNIQUE = "AST dispatch-table totality + writer/reader segment symmetry + ctypes field/method shadow rule; abstract interpretation of small functions over an enumerated finite domain by the checker's own AST interpreter (static analysis)"
ENGINES = ["model", "wire", "circuit"]
EXPLANATION = (
    "Over backend/messages.py and lang/encoding.py: both dispatch tables are total over their type enums and map each type to a "
    "class whose TYPE is that type; the type byte is the first field (offset 0) written by every constructor and the byte the "
    "dispatcher decodes; fixed-layout messages decode with from_buffer_copy of their own struct and their constructors assign "
    "every declared field; for the two variable-length messages the writer's byte concatenation is re-read at the same offsets with "
    "the same struct/element types, the element count travels in the header field the reader uses, and every written field is read; "
    "no ctypes.Structure defines a method or property with the name of one of its fields; the optional-int constructor and accessor "
    "are mirror images over the discriminant byte."
    " The test separating 'undefined' from 'integer' in the optional-int constructor is evaluated for None, several ints, a bool and a non-builtin integer object; payload/segment buffers are created per call. C15.Z: no truthiness test on an int-typed value."
    ' C15.W: no raising guard in a message / OptionalInt constructor rejects a value inside the declared width of the field it is stored in (evaluated at the ends of the range and next to every compared constant). C15.K: memoisation keys cover the arguments.'
    ' C15.H executes OptionalInt.__init__ abstractly for None and several integer objects: the fields it leaves behind are the encoding.'
    ' C15.S executes every fixed-layout constructor with a distinct value per parameter (super().__init__ of a ctypes structure fills the declared fields in order); the optional-int accessor is found by evaluating every parameterless method for both discriminant values.'
)
LEVEL_TEXT = (
    "Static analysis, partial: structural round-trip argument for all 9 message classes (tables, offsets, element types, "
    "discriminant handling). Not decided: field widths versus value ranges of message fields."
)
LEVEL_NOTE = "trusts ctypes from_buffer_copy/bytes as inverse on a struct; message field range checks are not claimed"
ASSUMPTIONS = [LEVEL_NOTE]
MSG = "netqasm.backend.messages"


def _cls_of(repo, v):
    if isinstance(v, (ClassRef, CStructRef)):
        mod, cn = v.qualname.split(":")
        return repo.get_class(mod, cn)
    return None


def check_tables(ctx):
    repo, ev = ctx.repo, ctx.ev
    m = repo.module(MSG)
    result = {}
    for table, enum_name, disp, floor in (("MESSAGE_CLASSES", "MessageType", "deserialize_host_msg", 5), ("RETURN_MESSAGE_CLASSES", "ReturnMessageType", "deserialize_return_msg", 4)):
        if table not in m.assigns:
            raise AnalysisError(f"{table} not found")
        try:
            tab = ev.eval(m.assigns[table], m)
        except Unknown as e:
            raise AnalysisError(f"{table}: {e}")
        enum = m.classes.get(enum_name)
        if enum is None:
            raise AnalysisError(f"{enum_name} not found")
        members = ev.enum_members(enum)
        vals = list(members.values())
        ctx.check("C15.D", f"{enum_name}:distinct-byte-values", len(set(vals)) == len(vals) and all(isinstance(v, int) and 0 <= v <= 255 for v in vals),
                  f"{enum_name} values {members} are not distinct bytes", repo.loc(m, enum.node))
        keys = {k.name: v for k, v in tab.items() if isinstance(k, EnumMember) and k.enum == enum.qualname}
        ctx.anchor("C15.D", f"{table} entries", len(keys), floor)
        for name in members:
            ok = name in keys
            ctx.check("C15.D", f"{table}:{name}:has-class", ok, f"{table} has no class for {enum_name}.{name}: such a message cannot be deserialised", repo.loc(m, m.assigns[table]))
            if not ok:
                continue
            c = _cls_of(repo, keys[name])
            if c is None:
                ctx.error("C15.D", f"{table}[{name}] is not a class")
                continue
            la = repo.lookup_attr(c, "TYPE")
            t = ev.try_eval(la[2], la[0].module) if la and la[2] is not None else None
            ok = isinstance(t, EnumMember) and t.enum == enum.qualname and t.name == name
            ctx.check("C15.D", f"{table}:{name}:TYPE-equals-key", ok,
                      f"{table}[{enum_name}.{name}] is {c.name} whose TYPE is {getattr(t, 'name', t)}: bytes(m) of that class are decoded as another class", c.loc(),
                      sample={"table": table, "key": name, "class": c.name})
            result[c.qualname] = c
        # dispatcher
        fn = m.functions.get(disp)
        if fn is None:
            raise AnalysisError(f"{disp} not found")
        ctx.fn(f"messages.{disp}")
        rawp = A.param_names(fn)[0]
        defs = A.single_defs(fn)
        rets = A.returns(fn)
        e = A.expand(rets[0].value, defs) if len(rets) == 1 else None
        ok_tab = ok_enum = ok_peek = ok_raw = False
        if isinstance(e, ast.Call) and isinstance(e.func, ast.Attribute) and e.func.attr == "deserialize_from":
            ok_raw = len(e.args) == 1 and isinstance(e.args[0], ast.Name) and e.args[0].id == rawp
            sub = e.func.value
            if isinstance(sub, ast.Subscript) and dotted(sub.value) == table:
                ok_tab = True
                k = sub.slice
                if isinstance(k, ast.Call) and dotted(k.func) == enum_name and len(k.args) == 1:
                    ok_enum = True
                    inner = k.args[0]
                    # T.from_buffer_copy(raw[:N]).value
                    for x in ast.walk(inner):
                        if isinstance(x, ast.Call) and isinstance(x.func, ast.Attribute) and x.func.attr == "from_buffer_copy":
                            t = ev.try_eval(x.func.value, m)
                            sl = x.args[0] if x.args else None
                            if isinstance(t, CScalar) and isinstance(sl, ast.Subscript) and isinstance(sl.slice, ast.Slice) and isinstance(sl.value, ast.Name) and sl.value.id == rawp:
                                lo = ev.try_eval(sl.slice.lower, m) if sl.slice.lower else 0
                                hi = ev.try_eval(sl.slice.upper, m) if sl.slice.upper else None
                                ok_peek = lo == 0 and hi == t.size and t.size == 1 and not t.signed
        ctx.check("C15.D", f"{disp}:peeks-type-byte-0", ok_peek, f"{disp} does not decode the unsigned type byte at offset 0", repo.loc(m, fn))
        ctx.check("C15.D", f"{disp}:uses-{enum_name}", ok_enum, f"{disp} does not convert the byte with {enum_name}(...)", repo.loc(m, fn), trivial=True)
        ctx.check("C15.D", f"{disp}:indexes-{table}", ok_tab, f"{disp} does not look the class up in {table}", repo.loc(m, fn))
        ctx.check("C15.D", f"{disp}:decodes-whole-buffer", ok_raw, f"{disp} does not hand the whole buffer to deserialize_from", repo.loc(m, fn), trivial=True)
    return result


def check_fixed(ctx, classes):
    repo, ev = ctx.repo, ctx.ev
    m = repo.module(MSG)
    base = m.classes.get("Message")
    if base is None:
        raise AnalysisError("messages.Message not found")
    n = 0
    for q, c in sorted(classes.items()):
        if not ev.is_struct(c):
            continue
        n += 1
        ctx.fn(q)
        flat, size = wire.layout(ev, c)
        fields = wire.struct_fields(ev, c)
        first = flat[0]
        mt = ev.name(MSG, "MESSAGE_TYPE")
        ok = first.offset == 0 and first.bits == 8 and not first.signed and fields[0][1] == mt
        ctx.check("C15.S", f"{c.name}:type-byte-first", ok, f"{c.name}: the first field {fields[0][0]} is not the message-type byte at offset 0", c.loc())
        # decode = generic from_buffer_copy of cls
        r = repo.lookup(c, "deserialize_from")
        ok = False
        if r is not None:
            rets = A.returns(r[1])
            p = A.param_names(r[1])
            ok = len(rets) == 1 and A.norm(rets[0].value) == f"{p[0]}.from_buffer_copy({p[1]})"
        ctx.check("C15.S", f"{c.name}:decoded-by-own-struct", ok, f"{c.name}.deserialize_from is not cls.from_buffer_copy(raw)", c.loc())
        # constructor, executed by the checker's interpreter (super().__init__ of a ctypes structure fills the declared fields in order):
        # with a distinct value for every parameter, the type byte holds TYPE.value and every declared field named like a parameter
        # holds that parameter's value - however the constructor is written (helpers, loops over keyword arguments, ...)
        r = repo.lookup(c, "__init__")
        if r is None or r[0] is base or not repo.is_subclass(r[0], base):
            ctx.error("C15.S", f"{c.name}: no constructor found")
            continue
        k, init = r
        from .. import circuit as C
        params = [p_ for p_ in A.param_names(init)[1:]]
        vals = {p_: 11 + 3 * i_ for i_, p_ in enumerate(params)}
        # a parameter the constructor reads as an enumeration member (`p.value`) is given one (with the same value)
        enum_like = {x.value.id for x in ast.walk(init) if isinstance(x, ast.Attribute) and x.attr == "value" and isinstance(x.value, ast.Name) and x.value.id in vals}
        o = C.Obj(c, {}, "self")
        outcome = None
        try:
            C.Interp(repo, ev, C.Scenario(), c).call_function(k.module, init, [], {p_: (EnumMember("model:Enum", f"M{v_}", v_) if p_ in enum_like else v_) for p_, v_ in vals.items()}, self_obj=o)
        except C.EvalRaise as ex_:
            outcome = f"raises {ex_}"
        except AnalysisError as ex_:
            ctx.error("C15.S", f"{c.name}.__init__ cannot be evaluated: {ex_}")
            continue
        tla = repo.lookup_attr(c, "TYPE")
        tval = ev.try_eval(tla[2], tla[0].module) if tla is not None and tla[2] is not None else None
        tval = tval.value if isinstance(tval, EnumMember) else tval
        got_t = o.fields.get(fields[0][0])
        ctx.check("C15.S", f"{c.name}:type-byte-is-TYPE", outcome is None and tval is not None and got_t == tval,
                  f"{c.name}.__init__ leaves {got_t!r} in the type byte `{fields[0][0]}`; expected TYPE.value = {tval!r} ({outcome or 'constructor completed'})", c.loc(init))
        for fname, ft, fb in fields[1:]:
            gv = o.fields.get(fname)
            gv = gv.value if isinstance(gv, EnumMember) else gv
            ok = outcome is None and fname in vals and gv == vals[fname]
            ctx.check("C15.S", f"{c.name}.{fname}:assigned-from-parameter", ok,
                      f"{c.name}({', '.join(f'{p_}={v_}' for p_, v_ in vals.items())}) leaves field {fname} = {o.fields.get(fname)!r}; expected its own parameter {fname}"
                      f"{'' if fname in vals else ' (the constructor has no such parameter)'}", c.loc(init), sample={"class": c.name, "field": fname})
    ctx.anchor("C15.S", "fixed-layout message classes", n, 7)


def check_shadow(ctx):
    """C15.H over every ctypes.Structure of the repo"""
    repo, ev = ctx.repo, ctx.ev
    n = 0
    for c in repo.all_classes():
        if c.module.name.startswith("netqasm.examples") or not ev.is_struct(c):
            continue
        try:
            fields = [f for f, _, _ in wire.struct_fields(ev, c)]
        except AnalysisError:
            continue
        n += 1
        for k in repo.mro(c):
            clash = sorted((set(k.methods) | set(k.setters) | {a for a in k.attrs if a != "_fields_"}) & set(fields))
            ctx.check("C15.H", f"{c.name}:no-member-named-like-a-field:{k.name}", not clash,
                      f"{c.name}: {k.name} defines {clash} which are also ctypes fields of {c.name}; the field descriptor replaces the method/property, "
                      f"so a type-aware accessor of that name is dead and readers get the raw field", k.loc(), trivial=not clash and n > 3,
                      sample={"struct": c.name, "fields": fields} if n <= 2 else None)
    ctx.anchor("C15.H", "ctypes structures", n, 30)


def optional_codec(ctx, c) -> Optional[str]:
    """Check constructor/accessor mirror for a (discriminant, payload) struct; returns accessor name."""
    repo, ev = ctx.repo, ctx.ev
    init = c.methods.get("__init__")
    if init is None:
        ctx.error("C15.H", f"{c.name}.__init__ not found")
        return None
    p = A.param_names(init)[1]
    # The constructor is executed abstractly (guards.run_block) for None and for several integer objects, whatever it is written
    # as (if/else with field stores, a conditional expression selecting a pair, ...): the fields it leaves behind are the encoding.
    cenv0 = {}
    for k_ in repo.mro(c):
        for an, (ann_, val_) in k_.attrs.items():
            if val_ is not None and f"self.{an}" not in cenv0:
                v_ = ev.try_eval(val_, k_.module)
                if isinstance(v_, int):
                    cenv0[f"self.{an}"] = v_
    probes = [("None", None), ("0", 0), ("1", 1), ("-7", -7), ("True", True), ("2**31-1", 2 ** 31 - 1), ("an integer object that is not a builtin int (numpy.int64)", G.Sym("int64", ("integer", "Integral")))]
    finals = {}
    assigned = set()
    for st_ in ast.walk(init):
        if isinstance(st_, (ast.Assign, ast.AnnAssign)):
            for t0 in (st_.targets if isinstance(st_, ast.Assign) else [st_.target]):
                for t_ in (t0.elts if isinstance(t0, ast.Tuple) else [t0]):
                    if A.is_self_attr(t_):
                        assigned.add(A.norm(t_))
    # module-level integer constants the constructor mentions
    for nm_ in {n_.id for n_ in ast.walk(init) if isinstance(n_, ast.Name)}:
        v_ = ev.try_eval(ast.Name(id=nm_, ctx=ast.Load()), c.module) if nm_ != p else None
        if isinstance(v_, int) and not isinstance(v_, bool):
            cenv0[nm_] = v_
    for label, v in list(probes):
        env_ = dict(cenv0, **{p: v})
        try:
            G.run_block(A.strip_docstring(init.body), env_, lambda c_, e_: None)
        except Unknown as ex_:
            if isinstance(v, G.Sym):
                probes.remove((label, v))  # e.g. a range guard compares the value with integers: not decidable for an opaque integer object
                continue
            ctx.error("C15.H", f"{c.name}.__init__: cannot be evaluated for value={label} ({ex_})")
            return None
        finals[label] = {k[5:]: env_[k] for k in env_ if k in assigned}
    # the fields holding a constant that differs between None and the value 1 are the discriminant; the field holding the value itself is the payload
    enc = {"none": {k: ast.Constant(value=v_) for k, v_ in finals["None"].items()}, "val": {}}
    one = finals["1"]
    for k, v_ in one.items():
        enc["val"][k] = ast.Name(id=p, ctx=ast.Load()) if (v_ == 1 and finals["-7"].get(k) == -7) else ast.Constant(value=v_)
    dconst = [k for k in one if not isinstance(enc["val"][k], ast.Name) and finals["None"].get(k) != one.get(k)]
    wrong = [label for label, v in probes[1:] if any(finals[label].get(k) != one.get(k) for k in dconst) or not dconst]
    ctx.check("C15.H", f"{c.name}.__init__:undefined-exactly-when-None", not wrong,
              f"{c.name}.__init__ gives {wrong} the encoding of an undefined value (fields {finals.get(wrong[0]) if wrong else None}; None gives {finals['None']}, 1 gives {one}): "
              "a defined array entry is decoded as None", c.loc(init))
    fields = [f for f, _, _ in wire.struct_fields(ev, c)]
    disc = [f for f in fields if f in enc["none"] and f in enc["val"] and ev.try_eval(enc["none"][f], c.module, {"self": ClassRef(c.qualname)}) is not None]
    # discriminant: field assigned constants in both branches that differ
    dfield = None
    for f in fields:
        a = ev.try_eval(enc["none"].get(f, ast.Constant(value=None)), c.module, {"self": ClassRef(c.qualname)})
        b = ev.try_eval(enc["val"].get(f, ast.Constant(value=None)), c.module, {"self": ClassRef(c.qualname)})
        if isinstance(a, int) and isinstance(b, int) and not (isinstance(enc["val"][f], ast.Name)):
            dfield = (f, a, b)
    vfield = [f for f in fields if f in enc["val"] and isinstance(enc["val"][f], ast.Name) and enc["val"][f].id == p]
    ok = dfield is not None and dfield[1] != dfield[2] and len(vfield) == 1
    ctx.check("C15.H", f"{c.name}:encoder-writes-discriminant", ok, f"{c.name}.__init__ does not write distinct discriminant values for None / int and the payload field", c.loc(init),
              sample={"discriminant": dfield, "payload": vfield})
    if not ok:
        return None
    # accessor: the property / parameterless method that, evaluated for both discriminant values (whatever it is written as), gives
    # None for the null discriminant and the payload field for the other one
    PAYLOAD = G.Sym("payload")
    cenv = {}
    for k_ in repo.mro(c):
        for an, (ann_, val_) in k_.attrs.items():
            if val_ is not None and f"self.{an}" not in cenv:
                v_ = ev.try_eval(val_, k_.module)
                if isinstance(v_, int):
                    cenv[f"self.{an}"] = v_
    cands = {}
    for name, fn in c.methods.items():
        if name.startswith("__") or len(A.param_names(fn)) != 1 or c.setters.get(name) is fn:
            continue
        dec = {}
        for dv in (dfield[1], dfield[2]):
            try:
                dec[dv] = G.returned_value(fn, dict(cenv, **{f"self.{dfield[0]}": dv, f"self.{vfield[0]}": PAYLOAD}))
            except Unknown as ex_:
                dec[dv] = f"<not evaluable: {ex_}>"
        cands[name] = (fn, dec)
    mirrors = [n_ for n_, (f_, d_) in cands.items() if d_.get(dfield[1], 0) is None and d_.get(dfield[2]) is PAYLOAD]
    # a candidate that reads the payload or produces None at all is "the accessor" for reporting purposes
    near = [n_ for n_, (f_, d_) in cands.items() if any(v_ is None or v_ is PAYLOAD for v_ in d_.values())]
    if not mirrors and not near:
        ctx.check("C15.H", f"{c.name}:type-aware-accessor", False, f"{c.name} has no accessor that maps the null discriminant to None", c.loc())
        return None
    name = (mirrors or near)[0]
    fn, dec = cands[name]
    a_ok = dec.get(dfield[1], 0) is None
    b_ok = dec.get(dfield[2]) is PAYLOAD
    ctx.check("C15.H", f"{c.name}.{name}:mirror-of-constructor", a_ok and b_ok,
              f"{c.name}.{name} does not mirror the constructor: discriminant {dfield[1]} must give None and {dfield[2]} must give self.{vfield[0]}; got {dec}", c.loc(fn))
    is_prop = c.is_property(name)
    return name if is_prop else name + "()"


def check_variable(ctx, classes):
    repo, ev = ctx.repo, ctx.ev
    m = repo.module(MSG)
    mtb = ev.name(MSG, "MESSAGE_TYPE_BYTES")
    mt = ev.name(MSG, "MESSAGE_TYPE")
    ctx.check("C15.V", "MESSAGE_TYPE_BYTES=sizeof(MESSAGE_TYPE)", isinstance(mt, CScalar) and mtb == mt.size, f"MESSAGE_TYPE_BYTES={mtb} but the type is {mt}")
    n = 0
    for q, c in sorted(classes.items()):
        if ev.is_struct(c):
            continue
        n += 1
        wb, rd = c.methods.get("__bytes__"), c.methods.get("deserialize_from")
        init = c.methods.get("__init__")
        if not (wb and rd and init):
            ctx.error("C15.V", f"{c.name}: __bytes__/deserialize_from/__init__ missing")
            continue
        ctx.fn(q + ".__bytes__")
        ctx.fn(q + ".deserialize_from")
        # constructor: self.type = self.TYPE.value
        ok = any(isinstance(st, ast.Assign) and A.is_self_attr(st.targets[0], "type") and A.norm(st.value) == "self.TYPE.value" for st in A.body_nodes(init))
        ctx.check("C15.V", f"{c.name}:type-is-TYPE", ok, f"{c.name}.__init__ does not set self.type = self.TYPE.value", c.loc(init))
        # ---- writer segments
        defs = A.single_defs(wb)
        rets = A.returns(wb)
        if len(rets) != 1:
            ctx.error("C15.V", f"{c.name}.__bytes__: expected one return")
            continue
        terms = []

        def flat(e):
            if isinstance(e, ast.BinOp) and isinstance(e.op, ast.Add):
                flat(e.left)
                flat(e.right)
            else:
                terms.append(e)
        flat(rets[0].value)
        segs = []
        bad = False
        for t in terms:
            t = A.expand(t, defs)  # a term may be a local holding bytes(...)
            if not (isinstance(t, ast.Call) and dotted(t.func) == "bytes" and len(t.args) == 1):
                bad = True
                break
            x = A.expand(t.args[0], defs)
            segs.append(x)
        if bad or not segs:
            ctx.error("C15.V", f"{c.name}.__bytes__: not a concatenation of bytes(...) terms")
            continue
        # first segment: MESSAGE_TYPE(self.type)
        s0 = segs[0]
        ok = isinstance(s0, ast.Call) and ev.try_eval(s0.func, m) == mt and len(s0.args) == 1 and A.norm(s0.args[0]) == "self.type"
        ctx.check("C15.V", f"{c.name}:writer:type-byte-first", ok, f"{c.name}.__bytes__ does not start with the type byte MESSAGE_TYPE(self.type)", c.loc(wb))
        # ---- reader: track offset of raw
        rawp = A.param_names(rd)[1]
        # views of the input: a name bound to <view>[k:] starts k bytes further (re-binding the parameter itself or a new name)
        views = {rawp: 0}
        reads = []  # (offset, type value, var name)
        varmap = {}
        unknown = False
        def view_offset(e):
            """offset of a view of the input: a name of `views`, or <view>[k:] written in place"""
            if isinstance(e, ast.Name) and e.id in views:
                return views[e.id]
            if isinstance(e, ast.Subscript) and isinstance(e.slice, ast.Slice) and e.slice.upper is None and e.slice.step is None:
                base_ = view_offset(e.value)
                k_ = (_eval_len(ctx, m, e.slice.lower) if e.slice.lower is not None else 0) if base_ is not None else None
                return base_ + k_ if base_ is not None and k_ is not None else None
            return None

        for st in rd.body:
            if isinstance(st, ast.Expr) and isinstance(st.value, ast.Constant):
                continue
            if isinstance(st, ast.Assign) and len(st.targets) == 1 and isinstance(st.targets[0], ast.Name):
                tname, v = st.targets[0].id, st.value
                if isinstance(v, ast.Subscript) and isinstance(v.value, ast.Name) and v.value.id in views and isinstance(v.slice, ast.Slice) and v.slice.upper is None and v.slice.step is None:
                    k = _eval_len(ctx, m, v.slice.lower) if v.slice.lower is not None else 0
                    if k is None:
                        unknown = True
                        break
                    views[tname] = views[v.value.id] + k
                    continue
                if isinstance(v, ast.Call) and isinstance(v.func, ast.Attribute) and v.func.attr == "from_buffer_copy" and len(v.args) == 1 and view_offset(v.args[0]) is not None:
                    t = ev.try_eval(v.func.value, m, varmap)
                    reads.append((view_offset(v.args[0]), t, tname, v.func.value))
                    varmap[tname] = ("read", len(reads) - 1)
                    continue
                for x in ast.walk(v):
                    if isinstance(x, ast.Call) and isinstance(x.func, ast.Attribute) and x.func.attr == "from_buffer_copy" and len(x.args) == 1 and view_offset(x.args[0]) is not None:
                        reads.append((view_offset(x.args[0]), None, None, x.func.value))
                varmap[tname] = ("expr", v)
                continue
            if isinstance(st, ast.Return):
                continue
            unknown = True
        off = views[rawp]
        if unknown:
            ctx.error("C15.V", f"{c.name}.deserialize_from: statement form outside the enumerated idioms")
            continue
        rets = A.returns(rd)
        rcall = rets[0].value if len(rets) == 1 and isinstance(rets[0].value, ast.Call) and dotted(rets[0].value.func) == "cls" else None
        if rcall is None:
            ctx.error("C15.V", f"{c.name}.deserialize_from does not return cls(...)")
            continue
        rkw = A.kwargs_of(rcall)
        init_params = A.param_names(init)[1:]
        for i, a in enumerate(rcall.args):
            rkw[init_params[i]] = a
        # locals of the reader that only name a part of something read (`length = hdr.length`) stand for that expression
        exprdefs = {k_: v_[1] for k_, v_ in varmap.items() if v_[0] == "expr" and not any(isinstance(x_, ast.Call) for x_ in ast.walk(v_[1]))
                    and sum(1 for n_ in ast.walk(rd) if isinstance(n_, ast.Name) and n_.id == k_ and isinstance(n_.ctx, ast.Store)) == 1}
        rkw = {k_: A.expand(v_, exprdefs) for k_, v_ in rkw.items()}
        # which self attributes are set from which ctor params
        attr_from_param = {}
        for st in A.body_nodes(init):
            if isinstance(st, ast.Assign) and A.is_self_attr(st.targets[0]):
                for x in ast.walk(st.value):
                    if isinstance(x, ast.Name) and x.id in init_params:
                        attr_from_param.setdefault(st.targets[0].attr, set()).add(x.id)
        if len(segs) == 2 and not isinstance(segs[1], ast.Call):
            # | TYPE | opaque rest |
            src_attr = segs[1].attr if A.is_self_attr(segs[1]) else None
            params = attr_from_param.get(src_attr, set())
            ok = False
            for pn in params:
                v = rkw.get(pn)
                if isinstance(v, ast.Subscript) and isinstance(v.value, ast.Name) and v.value.id == rawp and isinstance(v.slice, ast.Slice) and v.slice.upper is None:
                    k = _eval_len(ctx, m, v.slice.lower)
                    ok = k is not None and off + k == mt.size
            ctx.check("C15.V", f"{c.name}:payload-offset", ok,
                      f"{c.name}: the writer emits | type byte | {src(segs[1])} | but the reader does not take the payload from offset {mt.size} to the end", c.loc(rd),
                      sample={"class": c.name, "writer": [src(s) for s in segs], "reader_kwargs": {k: src(v) for k, v in rkw.items()}})
            continue
        # | TYPE | struct header | array payload |
        woff = mt.size
        for si, seg in enumerate(segs[1:]):
            if not isinstance(seg, ast.Call):
                # where does the segment object come from?
                shared = None
                if isinstance(seg, ast.Name):
                    for v in A.assigned_names(wb).get(seg.id, []):
                        if v is None:
                            continue
                        for x in ast.walk(v):
                            if isinstance(x, ast.Attribute) and isinstance(x.value, ast.Name) and x.value.id in ("self", "cls", c.name) and x.attr not in ("values", "address", "type", "subroutine"):
                                la = repo.lookup_attr(c, x.attr)
                                if la is not None:
                                    shared = f"{c.name}.{x.attr}"
                if shared is not None:
                    ctx.check("C15.V", f"{c.name}:segment{si + 1}:built-from-this-message-only", False,
                              f"{c.name}.__bytes__ serialises `{src(seg)}`, an object taken from the class-level container {shared} that outlives the call: "
                              f"bytes of one message can carry field values written for an earlier message (e.g. an undefined entry keeps a stale integer)", c.loc(wb))
                else:
                    ctx.error("C15.V", f"{c.name}.__bytes__: segment {src(seg)[:50]} not understood")
                break
            # type of the segment
            ftype = seg.func
            t = None
            count_expr = None
            if isinstance(ftype, ast.BinOp) and isinstance(ftype.op, ast.Mult):
                elem = ev.try_eval(ftype.left, m)
                t = ("array", elem)
                count_expr = ftype.right
            else:
                t = ("struct", ev.try_eval(ftype, m))
            r = [x for x in reads if x[0] == woff]
            if t[0] == "struct":
                ok = bool(r) and r[0][1] == t[1] and isinstance(t[1], CStructRef)
                ctx.check("C15.V", f"{c.name}:segment{si + 1}:same-struct-same-offset", ok,
                          f"{c.name}: writer puts {src(ftype)} at offset {woff}; reader reads {[(x[0], src(x[3])) for x in reads]}", c.loc(rd),
                          sample={"class": c.name, "segment": src(ftype), "offset": woff})
                if not ok:
                    break
                hc = wire.struct_class(ev, t[1])
                hdr_var = r[0][2]
                hdr_fields = [f for f, _, _ in wire.struct_fields(ev, hc)]
                wkw = A.kwargs_of(seg)
                for i, a in enumerate(seg.args):
                    wkw[hdr_fields[i]] = a
                hdr_written = wkw
                woff += wire.sizeof(ev, t[1])
                # every written header field is read somewhere in the reader through hdr_var
                used = {x.attr for x in ast.walk(rd) if isinstance(x, ast.Attribute) and isinstance(x.value, ast.Name) and x.value.id == hdr_var}
                for f in hdr_fields:
                    ctx.check("C15.V", f"{c.name}:header.{f}:written-and-read", f in wkw and f in used,
                              f"{c.name}: header field {f} written={f in wkw} read={f in used}", c.loc(rd))
            else:
                elem = t[1]
                # reader array type: E * hdr.length (a local expr)
                ok = False
                detail = ""
                if r:
                    texpr = r[0][3]
                    if isinstance(texpr, ast.Name) and texpr.id in varmap and varmap[texpr.id][0] == "expr":
                        texpr = varmap[texpr.id][1]
                    texpr = A.expand(texpr, exprdefs)
                    if isinstance(texpr, ast.BinOp) and isinstance(texpr.op, ast.Mult):
                        relem = ev.try_eval(texpr.left, m)
                        rcount = texpr.right
                        # writer count must equal what was stored in the header field the reader uses
                        hfield = rcount.attr if isinstance(rcount, ast.Attribute) and isinstance(rcount.value, ast.Name) and rcount.value.id == hdr_var else None
                        wcount = hdr_written.get(hfield) if hfield else None
                        ok = relem == elem and wcount is not None and A.norm(A.expand(wcount, defs)) == A.norm(A.expand(count_expr, defs))
                        detail = f"reader: {src(texpr)} with count from header.{hfield}; writer stored {src(wcount) if wcount is not None else None} there and emits {src(count_expr)} elements"
                ctx.check("C15.V", f"{c.name}:segment{si + 1}:same-element-type-count-offset", ok,
                          f"{c.name}: array payload at offset {woff}: {detail or 'reader does not read an array at that offset: ' + str([(x[0], src(x[3])) for x in reads])}", c.loc(rd),
                          sample={"class": c.name, "array": src(ftype), "offset": woff})
                # element codec: writer E(v) for v in self.X ; reader list(v.ACC for v in arr)
                ec = wire.struct_class(ev, elem) if isinstance(elem, CStructRef) else None
                if ec is not None:
                    acc = optional_codec(ctx, ec)
                    arrvar = r[0][2] if r else None
                    used_acc = None
                    for x in ast.walk(rd):
                        if isinstance(x, (ast.GeneratorExp, ast.ListComp)) and len(x.generators) == 1:
                            g = x.generators[0]
                            it = g.iter
                            if isinstance(it, ast.Name) and it.id in varmap and varmap[it.id][0] == "expr":
                                it = varmap[it.id][1]
                            is_arr = (isinstance(it, ast.Name) and it.id == arrvar) or (isinstance(it, ast.Call) and isinstance(it.func, ast.Attribute) and it.func.attr == "from_buffer_copy")
                            if is_arr and isinstance(g.target, ast.Name):
                                e = x.elt
                                if isinstance(e, ast.Call) and isinstance(e.func, ast.Attribute) and isinstance(e.func.value, ast.Name) and e.func.value.id == g.target.id:
                                    used_acc = e.func.attr + "()"
                                elif isinstance(e, ast.Attribute) and isinstance(e.value, ast.Name) and e.value.id == g.target.id:
                                    used_acc = e.attr
                    ctx.check("C15.V", f"{c.name}:elements-read-through-type-aware-accessor", acc is not None and used_acc == acc,
                              f"{c.name}: elements are written as {ec.name}(v) (None -> null discriminant) but read back through `{used_acc}`; the accessor that honours the discriminant is `{acc}`", c.loc(rd),
                              sample={"element": ec.name, "accessor": acc, "reader_uses": used_acc})
        # ctor kwargs of the reader cover every constructor parameter
        for pn in init_params:
            ctx.check("C15.V", f"{c.name}:reader-passes-{pn}", pn in rkw, f"{c.name}.deserialize_from does not pass {pn} to the constructor", c.loc(rd), trivial=True)
        # address path: writer Address(self.address) -> reader hdr.address.address
        if "address" in init_params and "address" in rkw:
            v = rkw["address"]
            ch = A.attr_chain(v)
            wv = None
            for seg in segs[1:]:
                if isinstance(seg, ast.Call):
                    wv = A.kwargs_of(seg).get("address", wv)
            wargs = (list(wv.args) + [k_.value for k_ in wv.keywords]) if isinstance(wv, ast.Call) else []
            okw = isinstance(wv, ast.Call) and len(wargs) == 1 and A.norm(wargs[0]) == "self.address"
            okr = False
            if okw and ch and len(ch) == 3:
                sc = ev.try_eval(wv.func, m)
                if isinstance(sc, CStructRef):
                    f0 = wire.struct_fields(ev, wire.struct_class(ev, sc))[0][0]
                    okr = ch[1] == "address" and ch[2] == f0
            ctx.check("C15.V", f"{c.name}:address-path", okw and okr, f"{c.name}: address is written as {src(wv) if wv is not None else None} but read as {src(v)}", c.loc(rd))
    ctx.anchor("C15.V", "variable-length message classes", n, 2)


def _eval_len(ctx, m, e):
    """MESSAGE_TYPE_BYTES | X.len() | int"""
    ev = ctx.ev
    if e is None:
        return 0
    v = ev.try_eval(e, m)
    if isinstance(v, int):
        return v
    if isinstance(e, ast.Call) and isinstance(e.func, ast.Attribute) and e.func.attr == "len" and not e.args:
        c = ctx.repo.resolve_class(m, e.func.value)
        if c is not None and "len" in c.methods:
            rets = A.returns(c.methods["len"])
            if len(rets) == 1 and A.norm(rets[0].value) == "len(bytes(cls()))":
                return wire.layout(ev, c)[1]
    return None


def check_full_width(ctx):
    """C15.W — "every message ... deserialises ... with the same field values", for all values of the declared widths: a guard
    in a constructor of a message / OptionalInt must not reject (raise for) a value that the field it is stored in can hold."""
    from .. import wire
    from ..wire import CScalar
    repo, ev = ctx.repo, ctx.ev
    n = 0
    for modname in ("netqasm.lang.encoding", "netqasm.backend.messages"):
        m = repo.module(modname)
        for c in m.classes.values():
            init = c.methods.get("__init__")
            if init is None:
                continue
            try:
                fields = {nm: (t, b) for nm, t, b in wire.struct_fields(ev, c)}
            except Exception:
                continue
            if not fields:
                continue
            # parameter -> field it is stored in
            stored = {}
            for st in A.body_nodes(init):
                if isinstance(st, ast.Assign) and A.is_self_attr(st.targets[0]) and isinstance(st.value, ast.Name) and st.targets[0].attr in fields:
                    t, bits = fields[st.targets[0].attr]
                    if isinstance(t, CScalar):
                        stored[st.value.id] = (st.targets[0].attr, (0, (1 << bits) - 1) if bits is not None else (t.lo, t.hi))
            for node in ast.walk(init):
                cond = G.raising_condition(node) if isinstance(node, (ast.If, ast.Assert)) else None
                if cond is None:
                    continue
                for pname, (fld, (lo, hi)) in stored.items():
                    v = ast.Name(id=pname, ctx=ast.Load())
                    if not G.mentions(cond, v):
                        continue
                    n += 1
                    ctx.fn(f"{c.name}.__init__")
                    rej = G.rejected_in_range(ev, m, cond, v, lo, hi)
                    if rej is None:
                        continue  # type tests and the like: not a range guard
                    ctx.check("C15.W", f"{c.name}.__init__:{fld}:guard-admits-the-whole-declared-width", not rej,
                              f"{c.name}.__init__ raises on `{src(cond)[:70]}`, which rejects {rej[:3]} although {c.name}.{fld} holds {lo}..{hi}: a message carrying that value "
                              "can no longer be serialised", c.loc(node), sample={"class": c.name, "field": fld, "rejected": rej[:3]})
    ctx.check("C15.W", "constructor-guards-examined", True, sample={"guards on stored values": n}, trivial=True)


def run(ctx):
    classes = check_tables(ctx)
    check_fixed(ctx, classes)
    check_variable(ctx, classes)
    check_shadow(ctx)
    check_full_width(ctx)
    # 0 is an ordinary id / value / address: nothing int-valued may be tested by truthiness (nqsa/truth.py)
    from .. import truth
    truth.check(ctx, "C15.Z", ['netqasm.lang.encoding', 'netqasm.backend.messages'])
    # a value remembered for later calls is keyed by every argument it depends on (nqsa/memo.py)
    from .. import memo
    memo.check(ctx, "C15.K", ['netqasm.lang.encoding', 'netqasm.backend.messages'])
    # no type test that an earlier type test has already decided (a subclass tested after its base class: nqsa/shadow.py)
    from .. import shadow
    shadow.check(ctx, "C15.H", ['netqasm.lang.encoding', 'netqasm.backend.messages'])


M = "netqasm/backend/messages.py"
E = "netqasm/lang/encoding.py"
SEEDS = [
    dict(id="c15-optionalint-guard-excludes-min", file="netqasm/lang/encoding.py", expect="C15.W", construct="OptionalInt.__init__",
         old="        else:\n            self.type = self._INT_TYPE\n            self._value = value",
         new="        else:\n            if not -(2 ** (INTEGER_BITS - 1)) < value < 2 ** (INTEGER_BITS - 1):\n                raise ValueError(\"does not fit\")\n            self.type = self._INT_TYPE\n            self._value = value"),
    dict(id="c15-optionalint-guard-unsigned", file="netqasm/lang/encoding.py", expect="C15.W", construct="OptionalInt.__init__",
         old="        else:\n            self.type = self._INT_TYPE\n            self._value = value",
         new="        else:\n            if value < 0:\n                raise ValueError(\"negative\")\n            self.type = self._INT_TYPE\n            self._value = value"),
    dict(id="c15-optionalint-isinstance", file="netqasm/lang/encoding.py", expect="C15.H", construct="undefined-exactly-when-None",
         old="        if value is None:\n            self.type = self._NULL_TYPE\n            self._value = 0\n        else:\n            self.type = self._INT_TYPE\n            self._value = value",
         new="        if isinstance(value, int):\n            self.type = self._INT_TYPE\n            self._value = value\n        else:\n            self.type = self._NULL_TYPE\n            self._value = 0"),
    dict(id="c15-optionalint-truthiness", file="netqasm/lang/encoding.py", expect="C15.H", construct="undefined-exactly-when-None",
         old="        if value is None:\n            self.type = self._NULL_TYPE", new="        if not value:\n            self.type = self._NULL_TYPE"),

    dict(id="c15-shadow-again", file=E, expect="C15.H", construct="OptionalInt",
         edits=[(E, '("_value", INTEGER)', '("value", INTEGER)'), (E, "self._value", "self.value")], count="all"),
    dict(id="c15-reader-raw-field", file=M, expect="C15.V", construct="type-aware-accessor", old="values = list(v.value for v in array_type.from_buffer_copy(raw))", new="values = list(v._value for v in array_type.from_buffer_copy(raw))"),
    dict(id="c15-table-swap", file=M, expect="C15.D", construct="TYPE-equals-key", old="    ReturnMessageType.RET_REG: ReturnRegMessage,\n    ReturnMessageType.RET_ARR: ReturnArrayMessage,", new="    ReturnMessageType.RET_REG: ReturnArrayMessage,\n    ReturnMessageType.RET_ARR: ReturnRegMessage,"),
    dict(id="c15-table-missing", file=M, expect="C15.D", construct="SIGNAL:has-class", old="    MessageType.SIGNAL: SignalMessage,\n", new=""),
    dict(id="c15-wrong-type", file=M, expect="C15.D", construct="STOP_APP", old="    TYPE = MessageType.STOP_APP", new="    TYPE = MessageType.SIGNAL"),
    dict(id="c15-ctor-drops-field", file=M, expect="C15.S", construct="remote_epr_socket_id", old="        self.remote_epr_socket_id = remote_epr_socket_id\n", new="        self.remote_epr_socket_id = epr_socket_id\n"),
    dict(id="c15-hdr-skip", file=M, expect="C15.V", construct="ReturnArrayMessage", old="        raw = raw[ReturnArrayMessageHeader.len() :]", new="        raw = raw[MESSAGE_TYPE_BYTES :]"),
    dict(id="c15-len-off", file=M, expect="C15.V", construct="ReturnArrayMessage", old="            length=len(self.values),", new="            length=len(self.values) - 1,"),
    dict(id="c15-sub-offset", file=M, expect="C15.V", construct="SubroutineMessage", old="        return cls(subroutine=raw[MESSAGE_TYPE_BYTES:])", new="        return cls(subroutine=raw[MESSAGE_TYPE_BYTES + 1:])"),
    dict(id="c15-shared-payload-buffer", file=M, expect="C15.V", construct="built-from-this-message-only",
         edits=[(M, "    def __bytes__(self):\n        array_type = OptionalInt * len(self.values)\n        payload = array_type(*(OptionalInt(v) for v in self.values))\n",
                 "    _payloads = {}\n\n    def __bytes__(self):\n        payload = self._payloads.get(len(self.values))\n        if payload is None:\n            payload = (OptionalInt * len(self.values))()\n            self._payloads[len(self.values)] = payload\n        for i, v in enumerate(self.values):\n            if v is not None:\n                payload[i] = OptionalInt(v)\n")]),
    dict(id="c15-optional-mirror", file=E, expect="C15.H", construct="mirror", old="        if self.type == self._NULL_TYPE:\n            return None", new="        if self.type == self._INT_TYPE and self._value == 0:\n            return None"),
    dict(id="c15-disc-same", file=E, expect="C15.H", construct="OptionalInt", old="    _INT_TYPE = 0x01", new="    _INT_TYPE = 0x00"),
]
BENIGN = [
    dict(id="c15-benign-optionalint-exact-guard", file="netqasm/lang/encoding.py",
         old="        else:\n            self.type = self._INT_TYPE\n            self._value = value",
         new="        else:\n            if not -(2 ** (INTEGER_BITS - 1)) <= value < 2 ** (INTEGER_BITS - 1):\n                raise ValueError(\"does not fit\")\n            self.type = self._INT_TYPE\n            self._value = value"),

    dict(id="c15-benign-optionalint-branches-swapped", file="netqasm/lang/encoding.py",
         old="        if value is None:\n            self.type = self._NULL_TYPE\n            self._value = 0\n        else:\n            self.type = self._INT_TYPE\n            self._value = value",
         new="        if value is not None:\n            self.type = self._INT_TYPE\n            self._value = value\n        else:\n            self.type = self._NULL_TYPE\n            self._value = 0"),
]
