"""C15 — host/controller messages survive serialisation (claimed in part).

C15.D  dispatch tables total over the type enums, TYPE == key, type byte first
C15.S  fixed-layout messages: generic from_buffer_copy decode of the same struct,
       constructor assigns every declared field, type byte = TYPE.value
C15.V  variable-length messages: writer segments parsed back at the same
       offsets with the same types; every written field read
C15.H  a ctypes.Structure may not define a method/attribute named like one of
       its _fields_ (the field descriptor overrides it); optional-int codec:
       constructor and accessor are mirror images over the discriminant
"""
from __future__ import annotations

import ast
from typing import Any, Dict, List, Optional, Tuple

from .. import astutil as A
from .. import guards as G
from .. import wire
from ..model import AnalysisError, CArray, CScalar, CStructRef, ClassRef, EnumMember, Unknown, dotted, src

TECHNIQUE = "AST dispatch-table totality + ctypes field/method shadow rule; every message class executed through its own __bytes__ and its dispatcher by the checker's AST interpreter over a ctypes model (static analysis; abstract execution)"
ENGINES = ["model", "wire", "cmodel", "circuit"]
EXPLANATION = (
    "Over backend/messages.py and lang/encoding.py: both dispatch tables are total over their type enums and map each type to a "
    "class whose TYPE is that type; the type byte is the first field (offset 0) written by every constructor and the byte the "
    "dispatcher decodes; fixed-layout messages decode with from_buffer_copy of their own struct and their constructors assign "
    "every declared field; for the two variable-length messages the writer's byte concatenation is re-read at the same offsets with "
    "the same struct/element types, the element count travels in the header field the reader uses, and every written field is read; "
    "no ctypes.Structure defines a method or property with the name of one of its fields; the optional-int constructor and accessor "
    "are mirror images over the discriminant byte."
    " The test separating 'undefined' from 'integer' in the optional-int constructor is evaluated for None, several ints, a bool and a non-builtin integer object; payload/segment buffers are created per call. C15.Z: no truthiness test on an int-typed value."
    ' C15.W: no raising guard in a message / OptionalInt constructor rejects a value inside the declared width of the field it is stored in (evaluated at the ends of the range and next to every compared constant). C15.K: memoisation keys cover the arguments.'
    ' C15.H executes OptionalInt.__init__ abstractly for None and several integer objects: the fields it leaves behind are the encoding.'
    ' C15.S executes every fixed-layout constructor with a distinct value per parameter (super().__init__ of a ctypes structure fills the declared fields in order); the optional-int accessor is found by evaluating every parameterless method for both discriminant values.'
)
LEVEL_TEXT = (
    "Static analysis, partial: structural round-trip argument for all 9 message classes (tables, offsets, element types, "
    "discriminant handling). Not decided: field widths versus value ranges of message fields."
)
LEVEL_NOTE = "trusts ctypes from_buffer_copy/bytes as inverse on a struct; message field range checks are not claimed"
ASSUMPTIONS = [LEVEL_NOTE]
MSG = "netqasm.backend.messages"


def _cls_of(repo, v):
    if isinstance(v, (ClassRef, CStructRef)):
        mod, cn = v.qualname.split(":")
        return repo.get_class(mod, cn)
    return None


def check_tables(ctx):
    repo, ev = ctx.repo, ctx.ev
    m = repo.module(MSG)
    result = {}
    for table, enum_name, disp, floor in (("MESSAGE_CLASSES", "MessageType", "deserialize_host_msg", 5), ("RETURN_MESSAGE_CLASSES", "ReturnMessageType", "deserialize_return_msg", 4)):
        if table not in m.assigns:
            raise AnalysisError(f"{table} not found")
        try:
            tab = ev.eval(m.assigns[table], m)
        except Unknown as e:
            raise AnalysisError(f"{table}: {e}")
        enum = m.classes.get(enum_name)
        if enum is None:
            raise AnalysisError(f"{enum_name} not found")
        members = ev.enum_members(enum)
        vals = list(members.values())
        ctx.check("C15.D", f"{enum_name}:distinct-byte-values", len(set(vals)) == len(vals) and all(isinstance(v, int) and 0 <= v <= 255 for v in vals),
                  f"{enum_name} values {members} are not distinct bytes", repo.loc(m, enum.node))
        keys = {k.name: v for k, v in tab.items() if isinstance(k, EnumMember) and k.enum == enum.qualname}
        ctx.anchor("C15.D", f"{table} entries", len(keys), floor)
        for name in members:
            ok = name in keys
            ctx.check("C15.D", f"{table}:{name}:has-class", ok, f"{table} has no class for {enum_name}.{name}: such a message cannot be deserialised", repo.loc(m, m.assigns[table]))
            if not ok:
                continue
            c = _cls_of(repo, keys[name])
            if c is None:
                ctx.error("C15.D", f"{table}[{name}] is not a class")
                continue
            la = repo.lookup_attr(c, "TYPE")
            t = ev.try_eval(la[2], la[0].module) if la and la[2] is not None else None
            ok = isinstance(t, EnumMember) and t.enum == enum.qualname and t.name == name
            ctx.check("C15.D", f"{table}:{name}:TYPE-equals-key", ok,
                      f"{table}[{enum_name}.{name}] is {c.name} whose TYPE is {getattr(t, 'name', t)}: bytes(m) of that class are decoded as another class", c.loc(),
                      sample={"table": table, "key": name, "class": c.name})
            result[c.qualname] = c
        # dispatcher
        fn = m.functions.get(disp)
        if fn is None:
            raise AnalysisError(f"{disp} not found")
        ctx.fn(f"messages.{disp}")
        rawp = A.param_names(fn)[0]
        defs = A.single_defs(fn)
        rets = A.returns(fn)
        e = A.expand(rets[0].value, defs) if len(rets) == 1 else None
        ok_tab = ok_enum = ok_peek = ok_raw = False
        if isinstance(e, ast.Call) and isinstance(e.func, ast.Attribute) and e.func.attr == "deserialize_from":
            ok_raw = len(e.args) == 1 and isinstance(e.args[0], ast.Name) and e.args[0].id == rawp
            sub = e.func.value
            if isinstance(sub, ast.Subscript) and dotted(sub.value) == table:
                ok_tab = True
                k = sub.slice
                if isinstance(k, ast.Call) and dotted(k.func) == enum_name and len(k.args) == 1:
                    ok_enum = True
                    inner = k.args[0]
                    # T.from_buffer_copy(raw[:N]).value
                    for x in ast.walk(inner):
                        if isinstance(x, ast.Call) and isinstance(x.func, ast.Attribute) and x.func.attr == "from_buffer_copy":
                            t = ev.try_eval(x.func.value, m)
                            sl = x.args[0] if x.args else None
                            if isinstance(t, CScalar) and isinstance(sl, ast.Subscript) and isinstance(sl.slice, ast.Slice) and isinstance(sl.value, ast.Name) and sl.value.id == rawp:
                                lo = ev.try_eval(sl.slice.lower, m) if sl.slice.lower else 0
                                hi = ev.try_eval(sl.slice.upper, m) if sl.slice.upper else None
                                ok_peek = lo == 0 and hi == t.size and t.size == 1 and not t.signed
        ctx.check("C15.D", f"{disp}:peeks-type-byte-0", ok_peek, f"{disp} does not decode the unsigned type byte at offset 0", repo.loc(m, fn))
        ctx.check("C15.D", f"{disp}:uses-{enum_name}", ok_enum, f"{disp} does not convert the byte with {enum_name}(...)", repo.loc(m, fn), trivial=True)
        ctx.check("C15.D", f"{disp}:indexes-{table}", ok_tab, f"{disp} does not look the class up in {table}", repo.loc(m, fn))
        ctx.check("C15.D", f"{disp}:decodes-whole-buffer", ok_raw, f"{disp} does not hand the whole buffer to deserialize_from", repo.loc(m, fn), trivial=True)
    return result


def check_fixed(ctx, classes):
    repo, ev = ctx.repo, ctx.ev
    m = repo.module(MSG)
    base = m.classes.get("Message")
    if base is None:
        raise AnalysisError("messages.Message not found")
    n = 0
    for q, c in sorted(classes.items()):
        if not ev.is_struct(c):
            continue
        n += 1
        ctx.fn(q)
        flat, size = wire.layout(ev, c)
        fields = wire.struct_fields(ev, c)
        first = flat[0]
        mt = ev.name(MSG, "MESSAGE_TYPE")
        ok = first.offset == 0 and first.bits == 8 and not first.signed and fields[0][1] == mt
        ctx.check("C15.S", f"{c.name}:type-byte-first", ok, f"{c.name}: the first field {fields[0][0]} is not the message-type byte at offset 0", c.loc())
        # constructor, executed by the checker's interpreter (super().__init__ of a ctypes structure fills the declared fields in order):
        # with a distinct value for every parameter, the type byte holds TYPE.value and every declared field named like a parameter
        # holds that parameter's value - however the constructor is written (helpers, loops over keyword arguments, ...)
        r = repo.lookup(c, "__init__")
        if r is None or r[0] is base or not repo.is_subclass(r[0], base):
            ctx.error("C15.S", f"{c.name}: no constructor found")
            continue
        k, init = r
        from .. import circuit as C
        params = [p_ for p_ in A.param_names(init)[1:]]
        vals = {p_: 11 + 3 * i_ for i_, p_ in enumerate(params)}
        # a parameter the constructor reads as an enumeration member (`p.value`) is given one (with the same value)
        enum_like = {x.value.id for x in ast.walk(init) if isinstance(x, ast.Attribute) and x.attr == "value" and isinstance(x.value, ast.Name) and x.value.id in vals}
        o = C.Obj(c, {}, "self")
        outcome = None
        try:
            C.Interp(repo, ev, C.Scenario(), c).call_function(k.module, init, [], {p_: (EnumMember("model:Enum", f"M{v_}", v_) if p_ in enum_like else v_) for p_, v_ in vals.items()}, self_obj=o)
        except C.EvalRaise as ex_:
            outcome = f"raises {ex_}"
        except AnalysisError as ex_:
            ctx.error("C15.S", f"{c.name}.__init__ cannot be evaluated: {ex_}")
            continue
        tla = repo.lookup_attr(c, "TYPE")
        tval = ev.try_eval(tla[2], tla[0].module) if tla is not None and tla[2] is not None else None
        tval = tval.value if isinstance(tval, EnumMember) else tval
        got_t = o.fields.get(fields[0][0])
        ctx.check("C15.S", f"{c.name}:type-byte-is-TYPE", outcome is None and tval is not None and got_t == tval,
                  f"{c.name}.__init__ leaves {got_t!r} in the type byte `{fields[0][0]}`; expected TYPE.value = {tval!r} ({outcome or 'constructor completed'})", c.loc(init))
        for fname, ft, fb in fields[1:]:
            gv = o.fields.get(fname)
            gv = gv.value if isinstance(gv, EnumMember) else gv
            ok = outcome is None and fname in vals and gv == vals[fname]
            ctx.check("C15.S", f"{c.name}.{fname}:assigned-from-parameter", ok,
                      f"{c.name}({', '.join(f'{p_}={v_}' for p_, v_ in vals.items())}) leaves field {fname} = {o.fields.get(fname)!r}; expected its own parameter {fname}"
                      f"{'' if fname in vals else ' (the constructor has no such parameter)'}", c.loc(init), sample={"class": c.name, "field": fname})
    ctx.anchor("C15.S", "fixed-layout message classes", n, 7)


def check_shadow(ctx):
    """C15.H over every ctypes.Structure of the repo"""
    repo, ev = ctx.repo, ctx.ev
    n = 0
    for c in repo.all_classes():
        if c.module.name.startswith("netqasm.examples") or not ev.is_struct(c):
            continue
        try:
            fields = [f for f, _, _ in wire.struct_fields(ev, c)]
        except AnalysisError:
            continue
        n += 1
        for k in repo.mro(c):
            clash = sorted((set(k.methods) | set(k.setters) | {a for a in k.attrs if a != "_fields_"}) & set(fields))
            ctx.check("C15.H", f"{c.name}:no-member-named-like-a-field:{k.name}", not clash,
                      f"{c.name}: {k.name} defines {clash} which are also ctypes fields of {c.name}; the field descriptor replaces the method/property, "
                      f"so a type-aware accessor of that name is dead and readers get the raw field", k.loc(), trivial=not clash and n > 3,
                      sample={"struct": c.name, "fields": fields} if n <= 2 else None)
    ctx.anchor("C15.H", "ctypes structures", n, 30)


def optional_codec(ctx, c) -> Optional[str]:
    """Check constructor/accessor mirror for a (discriminant, payload) struct; returns accessor name."""
    repo, ev = ctx.repo, ctx.ev
    init = c.methods.get("__init__")
    if init is None:
        ctx.error("C15.H", f"{c.name}.__init__ not found")
        return None
    p = A.param_names(init)[1]
    # The constructor is executed abstractly (guards.run_block) for None and for several integer objects, whatever it is written
    # as (if/else with field stores, a conditional expression selecting a pair, ...): the fields it leaves behind are the encoding.
    cenv0 = {}
    for k_ in repo.mro(c):
        for an, (ann_, val_) in k_.attrs.items():
            if val_ is not None and f"self.{an}" not in cenv0:
                v_ = ev.try_eval(val_, k_.module)
                if isinstance(v_, int):
                    cenv0[f"self.{an}"] = v_
    probes = [("None", None), ("0", 0), ("1", 1), ("-7", -7), ("True", True), ("2**31-1", 2 ** 31 - 1), ("an integer object that is not a builtin int (numpy.int64)", G.Sym("int64", ("integer", "Integral")))]
    finals = {}
    assigned = set()
    for st_ in ast.walk(init):
        if isinstance(st_, (ast.Assign, ast.AnnAssign)):
            for t0 in (st_.targets if isinstance(st_, ast.Assign) else [st_.target]):
                for t_ in (t0.elts if isinstance(t0, ast.Tuple) else [t0]):
                    if A.is_self_attr(t_):
                        assigned.add(A.norm(t_))
    # module-level integer constants the constructor mentions
    for nm_ in {n_.id for n_ in ast.walk(init) if isinstance(n_, ast.Name)}:
        v_ = ev.try_eval(ast.Name(id=nm_, ctx=ast.Load()), c.module) if nm_ != p else None
        if isinstance(v_, int) and not isinstance(v_, bool):
            cenv0[nm_] = v_
    for label, v in list(probes):
        env_ = dict(cenv0, **{p: v})
        try:
            G.run_block(A.strip_docstring(init.body), env_, lambda c_, e_: None)
        except Unknown as ex_:
            if isinstance(v, G.Sym):
                probes.remove((label, v))  # e.g. a range guard compares the value with integers: not decidable for an opaque integer object
                continue
            ctx.error("C15.H", f"{c.name}.__init__: cannot be evaluated for value={label} ({ex_})")
            return None
        finals[label] = {k[5:]: env_[k] for k in env_ if k in assigned}
    # the fields holding a constant that differs between None and the value 1 are the discriminant; the field holding the value itself is the payload
    enc = {"none": {k: ast.Constant(value=v_) for k, v_ in finals["None"].items()}, "val": {}}
    one = finals["1"]
    for k, v_ in one.items():
        enc["val"][k] = ast.Name(id=p, ctx=ast.Load()) if (v_ == 1 and finals["-7"].get(k) == -7) else ast.Constant(value=v_)
    dconst = [k for k in one if not isinstance(enc["val"][k], ast.Name) and finals["None"].get(k) != one.get(k)]
    wrong = [label for label, v in probes[1:] if any(finals[label].get(k) != one.get(k) for k in dconst) or not dconst]
    ctx.check("C15.H", f"{c.name}.__init__:undefined-exactly-when-None", not wrong,
              f"{c.name}.__init__ gives {wrong} the encoding of an undefined value (fields {finals.get(wrong[0]) if wrong else None}; None gives {finals['None']}, 1 gives {one}): "
              "a defined array entry is decoded as None", c.loc(init))
    fields = [f for f, _, _ in wire.struct_fields(ev, c)]
    disc = [f for f in fields if f in enc["none"] and f in enc["val"] and ev.try_eval(enc["none"][f], c.module, {"self": ClassRef(c.qualname)}) is not None]
    # discriminant: field assigned constants in both branches that differ
    dfield = None
    for f in fields:
        a = ev.try_eval(enc["none"].get(f, ast.Constant(value=None)), c.module, {"self": ClassRef(c.qualname)})
        b = ev.try_eval(enc["val"].get(f, ast.Constant(value=None)), c.module, {"self": ClassRef(c.qualname)})
        if isinstance(a, int) and isinstance(b, int) and not (isinstance(enc["val"][f], ast.Name)):
            dfield = (f, a, b)
    vfield = [f for f in fields if f in enc["val"] and isinstance(enc["val"][f], ast.Name) and enc["val"][f].id == p]
    ok = dfield is not None and dfield[1] != dfield[2] and len(vfield) == 1
    ctx.check("C15.H", f"{c.name}:encoder-writes-discriminant", ok, f"{c.name}.__init__ does not write distinct discriminant values for None / int and the payload field", c.loc(init),
              sample={"discriminant": dfield, "payload": vfield})
    if not ok:
        return None
    # accessor: the property / parameterless method that, evaluated for both discriminant values (whatever it is written as), gives
    # None for the null discriminant and the payload field for the other one
    PAYLOAD = G.Sym("payload")
    cenv = {}
    for k_ in repo.mro(c):
        for an, (ann_, val_) in k_.attrs.items():
            if val_ is not None and f"self.{an}" not in cenv:
                v_ = ev.try_eval(val_, k_.module)
                if isinstance(v_, int):
                    cenv[f"self.{an}"] = v_
    cands = {}
    for name, fn in c.methods.items():
        if name.startswith("__") or len(A.param_names(fn)) != 1 or c.setters.get(name) is fn:
            continue
        dec = {}
        for dv in (dfield[1], dfield[2]):
            try:
                dec[dv] = G.returned_value(fn, dict(cenv, **{f"self.{dfield[0]}": dv, f"self.{vfield[0]}": PAYLOAD}))
            except Unknown as ex_:
                dec[dv] = f"<not evaluable: {ex_}>"
        cands[name] = (fn, dec)
    mirrors = [n_ for n_, (f_, d_) in cands.items() if d_.get(dfield[1], 0) is None and d_.get(dfield[2]) is PAYLOAD]
    # a candidate that reads the payload or produces None at all is "the accessor" for reporting purposes
    near = [n_ for n_, (f_, d_) in cands.items() if any(v_ is None or v_ is PAYLOAD for v_ in d_.values())]
    if not mirrors and not near:
        ctx.check("C15.H", f"{c.name}:type-aware-accessor", False, f"{c.name} has no accessor that maps the null discriminant to None", c.loc())
        return None
    name = (mirrors or near)[0]
    fn, dec = cands[name]
    a_ok = dec.get(dfield[1], 0) is None
    b_ok = dec.get(dfield[2]) is PAYLOAD
    ctx.check("C15.H", f"{c.name}.{name}:mirror-of-constructor", a_ok and b_ok,
              f"{c.name}.{name} does not mirror the constructor: discriminant {dfield[1]} must give None and {dfield[2]} must give self.{vfield[0]}; got {dec}", c.loc(fn))
    is_prop = c.is_property(name)
    return name if is_prop else name + "()"


def check_variable(ctx, classes):
    """what is left of the structural rules on the variable-length messages: the type prefix constant and the optional-int codec (C15.H).
    Writer / reader agreement itself is decided by executing both (C15.T)."""
    repo, ev = ctx.repo, ctx.ev
    mtb = ev.name(MSG, "MESSAGE_TYPE_BYTES")
    mt = ev.name(MSG, "MESSAGE_TYPE")
    ctx.check("C15.V", "MESSAGE_TYPE_BYTES=sizeof(MESSAGE_TYPE)", isinstance(mt, CScalar) and mtb == mt.size, f"MESSAGE_TYPE_BYTES={mtb} but the type is {mt}")
    oc = repo.module("netqasm.lang.encoding").classes.get("OptionalInt")
    if oc is None:
        raise AnalysisError("encoding.OptionalInt not found")
    ctx.fn("OptionalInt.__init__")
    optional_codec(ctx, oc)


def _eval_len(ctx, m, e):
    """MESSAGE_TYPE_BYTES | X.len() | int"""
    ev = ctx.ev
    if e is None:
        return 0
    v = ev.try_eval(e, m)
    if isinstance(v, int):
        return v
    if isinstance(e, ast.Call) and isinstance(e.func, ast.Attribute) and e.func.attr == "len" and not e.args:
        c = ctx.repo.resolve_class(m, e.func.value)
        if c is not None and "len" in c.methods:
            rets = A.returns(c.methods["len"])
            if len(rets) == 1 and A.norm(rets[0].value) == "len(bytes(cls()))":
                return wire.layout(ev, c)[1]
    return None


def check_full_width(ctx):
    """C15.W — "every message ... deserialises ... with the same field values", for all values of the declared widths: a guard
    in a constructor of a message / OptionalInt must not reject (raise for) a value that the field it is stored in can hold."""
    from .. import wire
    from ..wire import CScalar
    repo, ev = ctx.repo, ctx.ev
    n = 0
    for modname in ("netqasm.lang.encoding", "netqasm.backend.messages"):
        m = repo.module(modname)
        for c in m.classes.values():
            init = c.methods.get("__init__")
            if init is None:
                continue
            try:
                fields = {nm: (t, b) for nm, t, b in wire.struct_fields(ev, c)}
            except Exception:
                continue
            if not fields:
                continue
            # parameter -> field it is stored in
            stored = {}
            for st in A.body_nodes(init):
                if isinstance(st, ast.Assign) and A.is_self_attr(st.targets[0]) and isinstance(st.value, ast.Name) and st.targets[0].attr in fields:
                    t, bits = fields[st.targets[0].attr]
                    if isinstance(t, CScalar):
                        stored[st.value.id] = (st.targets[0].attr, (0, (1 << bits) - 1) if bits is not None else (t.lo, t.hi))
            for node in ast.walk(init):
                cond = G.raising_condition(node) if isinstance(node, (ast.If, ast.Assert)) else None
                if cond is None:
                    continue
                for pname, (fld, (lo, hi)) in stored.items():
                    v = ast.Name(id=pname, ctx=ast.Load())
                    if not G.mentions(cond, v):
                        continue
                    n += 1
                    ctx.fn(f"{c.name}.__init__")
                    rej = G.rejected_in_range(ev, m, cond, v, lo, hi)
                    if rej is None:
                        continue  # type tests and the like: not a range guard
                    ctx.check("C15.W", f"{c.name}.__init__:{fld}:guard-admits-the-whole-declared-width", not rej,
                              f"{c.name}.__init__ raises on `{src(cond)[:70]}`, which rejects {rej[:3]} although {c.name}.{fld} holds {lo}..{hi}: a message carrying that value "
                              "can no longer be serialised", c.loc(node), sample={"class": c.name, "field": fld, "rejected": rej[:3]})
    ctx.check("C15.W", "constructor-guards-examined", True, sample={"guards on stored values": n}, trivial=True)


def check_message_round_trip(ctx, rule="C15.T"):
    """"Messages survive serialisation", decided by executing it: every message class of both dispatch tables is constructed with
    enumerated field values (the ends of each field's width, 0, None entries, empty and non-empty payloads, payloads that begin with
    the message's own type byte), turned into bytes by its own bytes() / __bytes__ and decoded by the dispatcher of its table
    (deserialize_host_msg / deserialize_return_msg) - all in the checker's interpreter with ctypes modelled (nqsa/cmodel.py).  The
    decoded object must be of the same class and hold the same values."""
    from .. import circuit as C
    repo, ev = ctx.repo, ctx.ev
    m = repo.module(MSG)
    enc = repo.module("netqasm.lang.encoding")

    def scenario():
        sc = C.Scenario()
        sc.ctypes_model, sc.run_constructors, sc.max_depth, sc.plain_registers, sc.strict_text = True, True, 30, True, True
        return sc

    def plain(v):
        if isinstance(v, C.Obj):
            return (v.cls.name if v.cls is not None else v.kind,) + tuple((k_, plain(x_)) for k_, x_ in sorted(v.fields.items()) if not k_.lower().startswith("pad"))
        if isinstance(v, EnumMember):
            return v.value
        if isinstance(v, (list, tuple)):
            return [plain(x_) for x_ in v]
        return v

    n_cls = n_inst = 0
    for table, disp in (("MESSAGE_CLASSES", "deserialize_host_msg"), ("RETURN_MESSAGE_CLASSES", "deserialize_return_msg")):
        dfn = m.functions.get(disp)
        if dfn is None or table not in m.assigns:
            raise AnalysisError(f"{table} / {disp} not found")
        ctx.fn(f"messages.{disp}")
        tab = ev.eval(m.assigns[table], m)
        for key, ref in sorted(tab.items(), key=lambda kv: str(kv[0])):
            c = _cls_of(repo, ref)
            if c is None:
                continue
            n_cls += 1
            init = repo.lookup(c, "__init__")
            params = A.param_names(init[1])[1:] if init is not None else []
            is_struct = ev.is_struct(c)
            ftypes = {n_: (t_, b_) for n_, t_, b_ in wire.struct_fields(ev, c)} if is_struct else {}
            enum_like = {x.value.id for x in ast.walk(init[1]) if isinstance(x, ast.Attribute) and x.attr == "value" and isinstance(x.value, ast.Name) and x.value.id in params} if init is not None else set()
            # value sets per parameter
            variants = []
            for variant5 in range(5):
                variant = variant5 % 4
                kw = {}
                for i_, p_ in enumerate(params):
                    t_ = ftypes.get(p_, (None, None))[0]
                    if p_ in enum_like:
                        # a member of the enumeration the parameter is annotated / defaulted with, else a small model member
                        em = None
                        a_ = init[1].args
                        for arg, dflt in zip(reversed(a_.args), reversed(a_.defaults)):
                            if arg.arg == p_ and isinstance(dflt, ast.Attribute):
                                ec = repo.resolve_class(init[0].module, dflt.value)
                                if ec is not None and ev.is_enum(ec):
                                    mem = ev.enum_members(ec)
                                    names = sorted(mem, key=lambda k_: mem[k_])
                                    nm = names[variant % len(names)]
                                    em = EnumMember(ec.qualname, nm, mem[nm])
                        if em is None:
                            for arg in a_.args:
                                if arg.arg == p_ and arg.annotation is not None:
                                    ec = repo.resolve_class(init[0].module, arg.annotation)
                                    if ec is not None and ev.is_enum(ec):
                                        mem = ev.enum_members(ec)
                                        names = sorted(mem, key=lambda k_: mem[k_])
                                        nm = names[variant % len(names)]
                                        em = EnumMember(ec.qualname, nm, mem[nm])
                        kw[p_] = em if em is not None else EnumMember("model:Enum", f"M{variant}", variant)
                    elif isinstance(t_, CScalar):
                        kw[p_] = (0, t_.hi - i_, 1 + i_, (t_.lo + i_) if t_.signed else 2 + i_)[variant]
                    elif isinstance(t_, CStructRef):
                        sc_ = wire.struct_class(ev, t_)
                        sub = {}
                        for fn_, ft_, fb_ in wire.struct_fields(ev, sc_):
                            if fn_.lower().startswith("pad") or not isinstance(ft_, CScalar):
                                continue
                            hi_ = (1 << fb_) - 1 if fb_ is not None else ft_.hi
                            sub[fn_] = (0, hi_, 1, 2)[variant] & hi_
                        kw[p_] = ("struct", sc_, sub)
                    elif p_ == "subroutine":
                        kw[p_] = (b"", bytes([0, 10, 7, 0]) + bytes(range(1, 15)), bytes([key.value if isinstance(key, EnumMember) else 2]) * 4 + bytes(7), bytes([0, 10, 7, 0]))[variant]
                    elif p_ == "values":
                        kw[p_] = ([0, None, -1, 2 ** 31 - 1, -2 ** 31, 7], [None], [], [5, 6], [None, 9])[variant5]  # the last two: same length, an undefined entry where the earlier message had a value
                    elif p_ == "address":
                        kw[p_] = (0, (key.value if isinstance(key, EnumMember) else 2), 0x02020202, -5)[variant]
                    else:
                        kw[p_] = (0, 1, 2, 3)[variant]
                variants.append(kw)
            bad = None
            sc = scenario()  # one scenario per class: what a class keeps between two messages (a buffer, a table) is kept here too
            first = None
            for kw in variants + variants[:1]:
                n_inst += 1
                try:
                    args = {k_: (C.Interp(repo, ev, sc, None).construct(v_[1], [], dict(v_[2]), None) if isinstance(v_, tuple) and v_ and v_[0] == "struct" else v_) for k_, v_ in kw.items()}
                    o = C.Interp(repo, ev, sc, None).construct(c, [], dict(args), None)
                    raw = C.Interp(repo, ev, sc, None).call(ast.parse("bytes(x)", mode="eval").body, {"x": o}, m)
                    back = C.Interp(repo, ev, sc, None).call_function(m, dfn, [raw], {})
                except C.EvalRaise as ex_:
                    bad = bad or f"{c.name}({ {k_: plain(v_) if not isinstance(v_, tuple) else v_[2] for k_, v_ in kw.items()} }) does not survive: {ex_}"
                    continue
                if first is None:
                    first = raw
                elif kw is variants[0] and raw != first:
                    bad = bad or f"{c.name}: the same message serialises to {raw.hex()[:60]} after other messages were serialised, to {first.hex()[:60]} before"
                if not isinstance(back, C.Obj) or back.cls is not c:
                    bad = bad or f"{raw.hex()} (a {c.name}) decodes as {back.cls.name if isinstance(back, C.Obj) and back.cls else back!r}"
                    continue
                names = [n_ for n_ in (list(ftypes) if is_struct else sorted(set(o.fields) | set(back.fields))) if not n_.lower().startswith("pad")]
                diff = [n_ for n_ in names if plain(o.fields.get(n_)) != plain(back.fields.get(n_))]
                if diff:
                    bad = bad or f"{c.name}: after bytes() and {disp}() the field {diff[0]} is {plain(back.fields.get(diff[0]))!r}, it was {plain(o.fields.get(diff[0]))!r} ({raw.hex()[:60]})"
                tla = repo.lookup_attr(c, "TYPE")
                tval = ev.try_eval(tla[2], tla[0].module) if tla is not None and tla[2] is not None else None
                if isinstance(tval, EnumMember) and raw[:1] != bytes([tval.value]):
                    bad = bad or f"{c.name}: the first byte is {raw[:1].hex()}, its TYPE is {tval.value}"
            ctx.check(rule, f"{c.name}:survives-bytes-and-{disp}", bad is None, f"{bad}", c.loc(), sample={"class": c.name, "table": table})
    ctx.anchor(rule, "message classes sent through bytes() and their dispatcher", n_cls, 9)


def run(ctx):
    classes = check_tables(ctx)
    check_fixed(ctx, classes)
    check_variable(ctx, classes)
    try:
        check_message_round_trip(ctx, "C15.T")
    except AnalysisError as ex_:
        ctx.error("C15.T", f"the messages cannot be evaluated: {ex_}")
    check_shadow(ctx)
    check_full_width(ctx)
    # 0 is an ordinary id / value / address: nothing int-valued may be tested by truthiness (nqsa/truth.py)
    from .. import truth
    truth.check(ctx, "C15.Z", ['netqasm.lang.encoding', 'netqasm.backend.messages'])
    # a value remembered for later calls is keyed by every argument it depends on (nqsa/memo.py)
    from .. import memo
    memo.check(ctx, "C15.K", ['netqasm.lang.encoding', 'netqasm.backend.messages'])
    # no type test that an earlier type test has already decided (a subclass tested after its base class: nqsa/shadow.py)
    from .. import shadow
    shadow.check(ctx, "C15.H", ['netqasm.lang.encoding', 'netqasm.backend.messages'])


M = "netqasm/backend/messages.py"
E = "netqasm/lang/encoding.py"
SEEDS = [
    dict(id="c15-optionalint-guard-excludes-min", file="netqasm/lang/encoding.py", expect="C15.W", construct="OptionalInt.__init__",
         old="        else:\n            self.type = self._INT_TYPE\n            self._value = value",
         new="        else:\n            if not -(2 ** (INTEGER_BITS - 1)) < value < 2 ** (INTEGER_BITS - 1):\n                raise ValueError(\"does not fit\")\n            self.type = self._INT_TYPE\n            self._value = value"),
    dict(id="c15-optionalint-guard-unsigned", file="netqasm/lang/encoding.py", expect="C15.W", construct="OptionalInt.__init__",
         old="        else:\n            self.type = self._INT_TYPE\n            self._value = value",
         new="        else:\n            if value < 0:\n                raise ValueError(\"negative\")\n            self.type = self._INT_TYPE\n            self._value = value"),
    dict(id="c15-optionalint-isinstance", file="netqasm/lang/encoding.py", expect="C15.H", construct="undefined-exactly-when-None",
         old="        if value is None:\n            self.type = self._NULL_TYPE\n            self._value = 0\n        else:\n            self.type = self._INT_TYPE\n            self._value = value",
         new="        if isinstance(value, int):\n            self.type = self._INT_TYPE\n            self._value = value\n        else:\n            self.type = self._NULL_TYPE\n            self._value = 0"),
    dict(id="c15-optionalint-truthiness", file="netqasm/lang/encoding.py", expect="C15.H", construct="undefined-exactly-when-None",
         old="        if value is None:\n            self.type = self._NULL_TYPE", new="        if not value:\n            self.type = self._NULL_TYPE"),

    dict(id="c15-shadow-again", file=E, expect="C15.H", construct="OptionalInt",
         edits=[(E, '("_value", INTEGER)', '("value", INTEGER)'), (E, "self._value", "self.value")], count="all"),
    dict(id="c15-reader-raw-field", file=M, expect="C15.T", construct="", old="values = list(v.value for v in array_type.from_buffer_copy(raw))", new="values = list(v._value for v in array_type.from_buffer_copy(raw))"),
    dict(id="c15-table-swap", file=M, expect="C15.D", construct="TYPE-equals-key", old="    ReturnMessageType.RET_REG: ReturnRegMessage,\n    ReturnMessageType.RET_ARR: ReturnArrayMessage,", new="    ReturnMessageType.RET_REG: ReturnArrayMessage,\n    ReturnMessageType.RET_ARR: ReturnRegMessage,"),
    dict(id="c15-table-missing", file=M, expect="C15.D", construct="SIGNAL:has-class", old="    MessageType.SIGNAL: SignalMessage,\n", new=""),
    dict(id="c15-wrong-type", file=M, expect="C15.D", construct="STOP_APP", old="    TYPE = MessageType.STOP_APP", new="    TYPE = MessageType.SIGNAL"),
    dict(id="c15-ctor-drops-field", file=M, expect="C15", construct="", old="        self.remote_epr_socket_id = remote_epr_socket_id\n", new="        self.remote_epr_socket_id = epr_socket_id\n"),
    dict(id="c15-hdr-skip", file=M, expect="C15.T", construct="", old="        raw = raw[ReturnArrayMessageHeader.len() :]", new="        raw = raw[MESSAGE_TYPE_BYTES :]"),
    dict(id="c15-len-off", file=M, expect="C15.T", construct="", old="            length=len(self.values),", new="            length=len(self.values) - 1,"),
    dict(id="c15-sub-offset", file=M, expect="C15.T", construct="", old="        return cls(subroutine=raw[MESSAGE_TYPE_BYTES:])", new="        return cls(subroutine=raw[MESSAGE_TYPE_BYTES + 1:])"),
    dict(id="c15-shared-payload-buffer", file=M, expect="C15.T", construct="",
         edits=[(M, "    def __bytes__(self):\n        array_type = OptionalInt * len(self.values)\n        payload = array_type(*(OptionalInt(v) for v in self.values))\n",
                 "    _payloads = {}\n\n    def __bytes__(self):\n        payload = self._payloads.get(len(self.values))\n        if payload is None:\n            payload = (OptionalInt * len(self.values))()\n            self._payloads[len(self.values)] = payload\n        for i, v in enumerate(self.values):\n            if v is not None:\n                payload[i] = OptionalInt(v)\n")]),
    dict(id="c15-optional-mirror", file=E, expect="C15.H", construct="mirror", old="        if self.type == self._NULL_TYPE:\n            return None", new="        if self.type == self._INT_TYPE and self._value == 0:\n            return None"),
    dict(id="c15-disc-same", file=E, expect="C15.H", construct="OptionalInt", old="    _INT_TYPE = 0x01", new="    _INT_TYPE = 0x00"),
]
BENIGN = [
    dict(id="c15-benign-optionalint-exact-guard", file="netqasm/lang/encoding.py",
         old="        else:\n            self.type = self._INT_TYPE\n            self._value = value",
         new="        else:\n            if not -(2 ** (INTEGER_BITS - 1)) <= value < 2 ** (INTEGER_BITS - 1):\n                raise ValueError(\"does not fit\")\n            self.type = self._INT_TYPE\n            self._value = value"),

    dict(id="c15-benign-optionalint-branches-swapped", file="netqasm/lang/encoding.py",
         old="        if value is None:\n            self.type = self._NULL_TYPE\n            self._value = 0\n        else:\n            self.type = self._INT_TYPE\n            self._value = value",
         new="        if value is not None:\n            self.type = self._INT_TYPE\n            self._value = value\n        else:\n            self.type = self._NULL_TYPE\n            self._value = 0"),
]
