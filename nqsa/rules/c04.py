"""C04 — executor classical semantics and precise faults (claimed in part).

C04.H   dispatch exhaustive for the instructions the statement lists
C04.PC  program counter updated exactly once on every non-raising path of every handler
C04.N   Optional values (registers / array entries) reach state writes only through a raising None-guard;
        modulus < 1 raises before the computation
C04.B/A branch predicates and arithmetic = reference semantics (evaluated on a grid)
C04.S   dataflow signature of every classical handler = reference
C04.M   the register/array store the handlers write through performs exactly the requested write once per path
C04.E   the fault line reported is the counter read before the instruction; the failing path leaves the loop
"""
from __future__ import annotations

import ast
import json
import os
from typing import Dict, List, Optional, Set, Tuple

from .. import astutil as A
from .. import flow as F
from .. import guards as G
from .. import instrs as I
from ..model import AnalysisError, Unknown, dotted, src

TECHNIQUE = "differential abstract execution: the repository's Executor (built by its constructor, programs parsed by the repository's parser) driven by the checker's AST interpreter and compared with a reference semantics after every subroutine; dispatch exhaustiveness, must-pass-once CFG path rule, fault atomicity and used-set rules (static analysis)"
ENGINES = ["model", "flow", "circuit", "session", "refsem"]
EXPLANATION = (
    "Over backend/executor.py and lang/instr/core.py: every listed classical instruction is dispatched to a handler; every "
    "handler (21 under @inc_program_counter plus the branch handler) updates the program counter exactly once on every "
    "non-raising path of its CFG, the decorator increments after the call; the reported fault line is the counter read before "
    "execution. What each instruction does to registers, arrays, the counter and the shared memory - operand roles, predicates, "
    "arithmetic, the guards against undefined values - is decided by C04.D on executed programs (below)."
    ' C04.M: the memory primitives (Arrays, RegisterGroup, SharedMemory) store exactly once what they are given and declare fresh arrays. C04.F: inside an executor method no state effect precedes an explicit raise/assert on any path (a fault leaves the state untouched). C04.Z: no truthiness test on an int-typed value.'
    ' C04.Q: the in-use-set bookkeeping rules of C13.U evaluated under this property (qalloc / qfree bookkeeping). C04.K: memoisation keys cover the arguments.'
    ' Executed abstractly (checker-side AST interpreter, nothing of the repository runs): _handle_branch_instr for the six predicates over a 4x4 grid of operand values with two applications (counter = target iff the reference predicate holds, else +1; other counters untouched); the seven state accessors (_get/_set_register, _expand_array_part incl. undefined index registers, _get/_set_array_entry, _get_array, _initialize_array) on modelled register banks and array stores of two applications; _compute_binary_classical_instr for the four classes over a grid and four moduli; RegisterGroup.__getitem__.'
    ' C04.E executes the command loop with a scripted _execute_command over eight counter histories and three fault positions with a raising and a returning exception hook; C04.M executes SharedMemory.set_register / get_register for four banks and both register forms; C04.H: no type test already decided by an earlier test on a base class.'
    " C04.D: 130 programs (arithmetic, branches, arrays, qubit bookkeeping, several subroutines, faults) parsed by the repository's parser are executed by the repository's Executor - built by its own constructor, driven by the checker's interpreter - and by the reference semantics nqsa/refsem.py; after every subroutine both agree on finished / faulted and the line named, every register, every array, the allocated qubits (= the in-use set) and the shared memory (a returned array is shared with the host). The shape rules on handler signatures, None guards, predicates and arithmetic are retired in its favour; Arrays is executed as a script."
)
LEVEL_TEXT = (
    "Abstract execution (differential against a reference semantics) over an enumerated family of programs for the instruction semantics and the faults; static path rules for dispatch exhaustiveness, the program counter, fault atomicity and the in-use set. Not decided: programs outside the family (e.g. a branch on an undefined register is not specified and not executed), the exception class of a fault."
)
LEVEL_NOTE = "subclasses overriding hooks are outside the claim; exceptional edges out of ordinary calls are not modelled (a raising path stops execution by C04.E)"
ASSUMPTIONS = [LEVEL_NOTE]
EXE = "netqasm.backend.executor"
REF = os.path.join(os.path.dirname(os.path.dirname(os.path.dirname(os.path.abspath(__file__)))), "reference", "classical_semantics.json")

LISTED = ["set", "load", "store", "lea", "undef", "array", "add", "sub", "addm", "subm", "bez", "bnz", "beq", "bne", "blt", "bge",
          "jmp", "ret_reg", "ret_arr", "qalloc", "qfree"]
SINKS = ["_set_register", "_set_array_entry", "_update_shared_memory", "_initialize_array", "_allocate_physical_qubit",
         "_free_physical_qubit", "_compute_binary_classical_instr"]
GETTERS = {"_get_register": ("REG", "register"), "_get_array_entry": ("ARR", "array_entry"), "_get_array": ("ARRAY", "address"), "_get_array_slice": ("SLICE", "array_slice")}
PC = "_program_counters"


def executor(ctx):
    return ctx.repo.get_class(EXE, "Executor")


def is_pc_write(n) -> bool:
    """assignment / aug-assignment to self._program_counters[...]"""
    def tgt(t):
        return isinstance(t, ast.Subscript) and A.is_self_attr(t.value, PC)
    if isinstance(n, ast.Assign):
        return any(tgt(t) for t in n.targets)
    if isinstance(n, ast.AugAssign):
        return tgt(n.target)
    return False


def touches_pc(fn) -> bool:
    return any(isinstance(n, ast.Attribute) and n.attr == PC for n in ast.walk(fn))


class DispatchUnread(AnalysisError):
    """_execute_command dispatches in a form the shape rules do not read (a table walked by a loop, getattr by kind, ...).  What every
    instruction does - that it is dispatched at all, and that the counter moves by one - is decided on executed programs by C04.D; the
    rules that read the chain (C04.H, C04.PC, the executor entry of C08.J, the ret_reg / ret_arr signatures of C05.H) say so and step aside."""


def handler_table(ctx) -> Dict[str, str]:
    """mnemonic -> handler method name, as _execute_command dispatches (for all registered core classes)"""
    repo, ev = ctx.repo, ctx.ev
    ex = executor(ctx)
    gih = ex.methods.get("_get_instruction_handlers")
    exc = ex.methods.get("_execute_command")
    if gih is None or exc is None:
        raise AnalysisError("Executor._get_instruction_handlers/_execute_command not found")
    ctx.fn("Executor._get_instruction_handlers")
    ctx.fn("Executor._execute_command")
    # list of mnemonics and the f-string naming the method
    mn_list = None
    pattern = None
    def _strs(e):
        return [x.value for x in e.elts] if isinstance(e, (ast.List, ast.Tuple)) and all(isinstance(x, ast.Constant) and isinstance(x.value, str) for x in e.elts) else None

    table = None
    for n in A.body_nodes(gih):
        if isinstance(n, ast.Assign) and _strs(n.value) is not None:
            mn_list = _strs(n.value)
        if isinstance(n, ast.DictComp) and isinstance(n.value, ast.Call) and dotted(n.value.func) == "getattr" and len(n.value.args) == 2 and isinstance(n.value.args[1], ast.JoinedStr):
            js = n.value.args[1]
            pattern = "".join(v.value if isinstance(v, ast.Constant) else "{}" for v in js.values)
            if _strs(n.generators[0].iter) is not None:  # the comprehension iterates over the display itself
                mn_list = _strs(n.generators[0].iter)
        if isinstance(n, ast.Dict) and n.keys and all(isinstance(k_, ast.Constant) and isinstance(k_.value, str) for k_ in n.keys) and all(A.is_self_attr(v_) for v_ in n.values):
            table = {k_.value: v_.attr for k_, v_ in zip(n.keys, n.values)}  # written out: {'set': self._instr_set, ...}
    if table is None and (mn_list is None or pattern is None):
        raise AnalysisError("handler table of _get_instruction_handlers not recognised (list of mnemonics + getattr(self, f'_instr_{mne}'))")
    if table is None:
        table = {}
        for mn in mn_list:
            table[mn] = pattern.format(mn)
    # first test in _execute_command must be `command.mnemonic in self._instruction_handlers`
    cmdp = A.param_names(exc)[2]
    chain = None
    for st in exc.body:
        if isinstance(st, ast.If) and isinstance(st.test, ast.Compare) and A.norm(st.test) == f"{cmdp}.mnemonicinself._instruction_handlers":
            chain = st
    if chain is None:
        raise DispatchUnread("_execute_command: `command.mnemonic in self._instruction_handlers` dispatch not found")
    arms = []  # (set of classes, handler name or None)
    # every call of a _handle_* method is one arm; the classes it serves are read from the facts that hold where it is called
    # (isinstance tests of the enclosing / preceding branches), whatever style the chain is written in
    for c in A.calls_in(exc):
        if not (isinstance(c.func, ast.Attribute) and A.is_self_attr(c.func) and c.func.attr.startswith("_handle_")):
            continue
        pos_classes, neg = [], 0
        for t, pol in G.path_conditions(exc, c):
            lits = t.values if isinstance(t, ast.BoolOp) and isinstance(t.op, ast.Or) else [t]
            if not all(isinstance(x, ast.Call) and dotted(x.func) == "isinstance" and len(x.args) == 2 and A.norm(x.args[0]) == cmdp for x in lits):
                continue
            if pol:
                pos_classes = []  # the innermost (latest) positive test is the arm's own; earlier ones are general guards
                for x in lits:
                    k = repo.resolve_class(ex.module, x.args[1])
                    if k is None:
                        raise AnalysisError(f"_execute_command: cannot resolve {src(x.args[1])}")
                    pos_classes.append(k)
            else:
                neg += 1
        if not pos_classes:
            raise DispatchUnread(f"_execute_command: the call of {c.func.attr} is not under an isinstance test of the command")
        arms.append((pos_classes, c.func.attr))
    if not arms:
        raise DispatchUnread("_execute_command: isinstance dispatch chain not found")
    result = {}
    for c in I.core_instructions(repo):
        mn = I.field_default(repo, ev, c, "mnemonic")
        if mn in table:
            result[mn] = table[mn]
            continue
        for classes, h in arms:
            if any(k in repo.mro(c) for k in classes):
                result[mn] = h
                break
    ctx._c04_arms = arms
    return result


def check_dispatch(ctx, table):
    repo = ctx.repo
    ex = executor(ctx)
    for mn in LISTED:
        h = table.get(mn)
        ok = h is not None and repo.lookup(ex, h) is not None
        ctx.check("C04.H", f"{mn}:dispatched", ok, f"instruction {mn} is not dispatched to an existing handler (resolved: {h}); executing it raises 'unknown instr type'", ex.loc(),
                  sample={"mnemonic": mn, "handler": h})
    others = {mn: h for mn, h in table.items() if mn not in LISTED}
    ctx.note(f"other dispatched core instructions: {sorted(others.items())}")
    # branch arm = exactly the classes with a `line` target
    arms = ctx._c04_arms
    branch_classes = set()
    for classes, h in arms:
        if h == "_handle_branch_instr":
            branch_classes = {c.name for c in classes}
    with_line = set()
    for c in I.core_instructions(repo):
        if repo.lookup(c, "line") is not None:
            # every instruction class that has a `line` target (wherever in its bases the property is defined - a mixin included)
            with_line.add(c.name)
    ctx.check("C04.H", "branch-arm:covers-every-class-with-a-line-target", with_line <= branch_classes | {c.name for cl, h in arms if h == "_handle_branch_instr" for k in cl for c in repo.subclasses(k)},
              f"classes with a jump target {sorted(with_line)} vs classes dispatched to _handle_branch_instr {sorted(branch_classes)}", ex.loc())


def check_pc(ctx, table):
    repo = ctx.repo
    ex = executor(ctx)
    m = ex.module
    # the decorator
    dec = m.functions.get("inc_program_counter")
    if dec is None:
        raise AnalysisError("inc_program_counter not found")
    inner = A.nested_defs(dec)
    if len(inner) != 1:
        raise AnalysisError("inc_program_counter: expected one inner function")
    nm = inner[0]
    ctx.fn("executor.inc_program_counter.new_method")
    cfg = F.CFG(nm)
    mn_, mx_ = cfg.count_on_paths(lambda st: F.events_in(st, is_pc_write))
    ctx.check("C04.PC", "inc_program_counter:increments-exactly-once", (mn_, mx_) == (1, 1), f"the decorator updates the program counter between {mn_} and {mx_} times per call", repo.loc(m, nm))
    # increment is += 1 and comes after the wrapped call
    param = A.param_names(dec)[0]
    call_nodes = [cfg.stmt_containing(c) for c in A.calls_in(nm) if isinstance(c.func, ast.Name) and c.func.id == param]
    inc_nodes = [n for n, st in cfg.stmt.items() if st is not None and F.events_in(st, is_pc_write)]
    ok = bool(call_nodes) and bool(inc_nodes) and all(cfg.dominates(call_nodes[0], i) for i in inc_nodes)
    ctx.check("C04.PC", "inc_program_counter:increment-after-handler", ok, "the increment is not dominated by the call of the wrapped handler (a faulting instruction would still advance the counter)", repo.loc(m, nm))
    inc_ok = all(isinstance(cfg.stmt[i], ast.AugAssign) and isinstance(cfg.stmt[i].op, ast.Add) and A.norm(cfg.stmt[i].value) == "1"
                 and A.norm(cfg.stmt[i].target.slice) == A.param_names(nm)[1] for i in inc_nodes)
    ctx.check("C04.PC", "inc_program_counter:plus-one-on-own-subroutine", inc_ok, "the decorator does not do `_program_counters[subroutine_id] += 1`", repo.loc(m, nm))
    rets = A.returns(dec)
    ctx.check("C04.PC", "inc_program_counter:returns-wrapper", len(rets) == 1 and isinstance(rets[0].value, ast.Name) and rets[0].value.id == nm.name, "the decorator does not return the wrapper", repo.loc(m, dec), trivial=True)
    # every handler
    handlers = set(table.values())
    # also all decorated methods
    decorated = {name for name, fn in ex.methods.items() if any(dotted(d) == "inc_program_counter" for d in fn.decorator_list)}
    ctx.anchor("C04.PC", "handlers under @inc_program_counter", len(decorated), 21)
    for h in sorted(handlers | decorated):
        r = repo.lookup(ex, h)
        if r is None:
            continue
        fn = r[1]
        ctx.fn(f"Executor.{h}")
        deco = h in decorated
        if deco:
            ok = not any(F.events_in(st, is_pc_write) for st in ast.walk(fn) if isinstance(st, ast.stmt))
            ctx.check("C04.PC", f"{h}:once", ok, f"{h} is wrapped by @inc_program_counter and also writes the program counter itself", repo.loc(m, fn),
                      sample={"handler": h, "mode": "decorator"})
        else:
            cfg = F.CFG(fn)
            mn_, mx_ = cfg.count_on_paths(lambda st: F.events_in(st, is_pc_write))
            ctx.check("C04.PC", f"{h}:once", (mn_, mx_) == (1, 1),
                      f"{h} is not wrapped by @inc_program_counter and updates the program counter between {mn_} and {mx_} times on its non-raising paths (must be exactly once)", repo.loc(m, fn),
                      sample={"handler": h, "mode": "own update", "min": mn_, "max": mx_})
    # branch handler arms
    r = repo.lookup(ex, "_handle_branch_instr")
    if r is None:
        raise AnalysisError("_handle_branch_instr not found")
    fn = r[1]
    # The handler is executed abstractly (nqsa/circuit.py) for jmp, the two unary and the four binary branches over a grid of
    # register values of two applications: afterwards the program counter of this subroutine is the target line exactly when the
    # reference predicate holds for the values of the registers the instruction names (read from the subroutine's own application),
    # else one more than before; no other counter changes.
    from .. import circuit as C
    from ..model import EnumMember
    ctx.fn("Executor._handle_branch_instr")
    ev = ctx.ev
    refp = json.load(open(REF))["branch_predicates"]
    import operator as _op
    OPS_ = {"==": _op.eq, "!=": _op.ne, "<": _op.lt, ">=": _op.ge}
    rn = repo.get_class("netqasm.lang.encoding", "RegisterName")
    rmem = ev.enum_members(rn)
    opm = repo.module("netqasm.lang.operand")
    R_ = opm.classes["Register"]
    core = repo.module("netqasm.lang.instr.core")

    class _Log:
        _nqsa_model = True

        def debug(self, *a_, **k_):
            return None
        info = warning = error = debug

    def reg(name, index):
        return C.Obj(R_, {"name": EnumMember(rn.qualname, name, rmem[name]), "index": index})

    results = {"taken": True, "nottaken": True, "jmp": True, "unary_a": True, "binary_a": True, "binary_b": True, "others": True}
    why = {}
    try:
        for mn, spec in sorted(refp.items()):
            cname = mn.capitalize() + "Instruction"
            icls = core.classes.get(cname)
            if icls is None:
                raise AnalysisError(f"core.{cname} not found")
            ar = spec["arity"]
            grid = [(x, y, tgt) for x in (-1, 0, 1, 5) for y in ((-1, 0, 1, 5) if ar == 2 else (0,)) for tgt in (33, 0)]  # line 0 is a target like any other
            for (x, y, tgt) in grid:
                it = C.Interp(repo, ev, C.Scenario(), ex)
                keyR = it._hashable(EnumMember(rn.qualname, "R", rmem["R"]))
                banks = {app: {it._hashable(EnumMember(rn.qualname, n_, v_)): [900 + 10 * app + i for i in range(16)] for n_, v_ in rmem.items()} for app in (0, 1)}
                banks[1][keyR][3], banks[1][keyR][6] = x, y      # the subroutine's application is 1: R3, R6 are the operands
                banks[0][keyR][3], banks[0][keyR][6] = 77, 78    # another application's registers must not matter
                pcs = {4: 20, 5: 40}
                o = C.object_from_init(repo, ex, {"_registers": banks, "_program_counters": pcs, "_logger": _Log(),
                                                  "_subroutines": {4: C.Obj(None, {"app_id": 1}), 5: C.Obj(None, {"app_id": 0})}}, kind="self")
                fields = {"imm": C.Imm(tgt)}
                if ar == 1:
                    fields["reg"] = reg("R", 3)
                else:
                    fields["reg0"], fields["reg1"] = reg("R", 3), reg("R", 6)
                instr = C.Obj(icls, fields)
                it.call_function(r[0].module, fn, [], {"subroutine_id": 4, "instr": instr}, self_obj=o)
                want = OPS_[spec["op"]](x, y if ar == 2 else 0)
                got_pc = pcs.get(4)
                if pcs.get(5) != 40:
                    results["others"] = False
                    why["others"] = f"{mn}: the counter of another subroutine changed to {pcs.get(5)}"
                if want and got_pc != tgt:
                    results["taken"] = False
                    why["taken"] = f"{mn} with operands ({x}, {y}) and target line {tgt}: counter {got_pc}, expected the target line"
                if not want and got_pc != 21:
                    results["nottaken"] = False
                    why["nottaken"] = f"{mn} with operands ({x}, {y}): counter {got_pc}, expected 21"
                if (got_pc == tgt) != want:
                    k_ = "unary_a" if ar == 1 else ("binary_a" if x != y or True else "binary_b")
                    results[k_] = False
                    why[k_] = f"{mn} with R3={x}" + (f", R6={y}" if ar == 2 else "") + f" {'branches' if got_pc == tgt else 'does not branch'} (target line {tgt})"
                    if ar == 2:
                        results["binary_b"] = False
                        why["binary_b"] = why[k_]
        # jmp
        for tgt in (33, 0):
            it = C.Interp(repo, ev, C.Scenario(), ex)
            pcs = {4: 20}
            o = C.object_from_init(repo, ex, {"_registers": {}, "_program_counters": pcs, "_logger": _Log(), "_subroutines": {4: C.Obj(None, {"app_id": 1})}}, kind="self")
            it.call_function(r[0].module, fn, [], {"subroutine_id": 4, "instr": C.Obj(core.classes["JmpInstruction"], {"imm": C.Imm(tgt)})}, self_obj=o)
            if pcs.get(4) != tgt:
                results["jmp"] = False
                why["jmp"] = f"jmp to line {tgt} leaves the counter at {pcs.get(4)}"
    except C.EvalRaise as ex_:
        for k_ in results:
            results[k_] = False
            why[k_] = f"raises {ex_}"
    except AnalysisError as ex_:
        ctx.error("C04.S", f"_handle_branch_instr cannot be evaluated: {ex_}")
        return
    ctx.check("C04.PC", "_handle_branch_instr:taken-arm-jumps-to-line", results["taken"] and results["others"], f"a taken branch does not set this subroutine's counter to the target line: {why.get('taken') or why.get('others')}", repo.loc(m, fn))
    ctx.check("C04.PC", "_handle_branch_instr:not-taken-arm-plus-one", results["nottaken"], f"a branch that is not taken does not add 1 to the counter: {why.get('nottaken')}", repo.loc(m, fn))
    for k in ("jmp", "unary", "binary", "unary_a", "binary_a", "binary_b"):
        key = {"unary": "unary_a", "binary": "binary_a"}.get(k, k)
        ctx.check("C04.S", f"_handle_branch_instr:{k}", results[key], f"branch handler: {why.get(key)} — the decision must be the instruction's predicate on the values of its own register operands "
                  "(of the subroutine's application)", repo.loc(m, fn), sample={"branch": k})


def canon(ctx, ex, fn, e, instrp, cls_hint=None) -> str:
    """canonical form of an expression in a handler"""
    repo = ctx.repo
    if e is None:
        return "<missing>"
    if isinstance(e, ast.Constant):
        return repr(e.value)
    if isinstance(e, ast.Name):
        return e.id if e.id in (instrp, "subroutine_id", "app_id") else "?" + e.id
    if isinstance(e, ast.Attribute):
        ch = A.attr_chain(e)
        if ch and ch[0] == instrp:
            # resolve alias of the first attribute through the annotated classes
            first = ch[1]
            for c in _instr_classes(ctx, ex, fn, instrp, cls_hint):
                al = repo.property_alias(c, first)
                if al:
                    first = al
                    break
            return ".".join(["instr", first] + ch[2:])
        return "?" + src(e)
    if isinstance(e, ast.Call) and A.is_self_attr(e.func) and e.func.attr in GETTERS:
        tag, pname = GETTERS[e.func.attr]
        r = repo.lookup(ex, e.func.attr)
        b = bind(e, r[1]) if r else {}
        return f"{tag}[{canon(ctx, ex, fn, b.get(pname), instrp, cls_hint)}]"
    if isinstance(e, ast.Call) and A.is_self_attr(e.func) and e.func.attr == "_compute_binary_classical_instr":
        return "COMPUTE"
    return "?"


def _instr_classes(ctx, ex, fn, instrp, cls_hint=None):
    repo = ctx.repo
    out = []
    if cls_hint:
        c = repo.get_class(I.CORE_MOD, cls_hint) if cls_hint in repo.module(I.CORE_MOD).classes else None
        if c:
            return [c]
    for a in fn.args.args:
        if a.arg == instrp and a.annotation is not None:
            ann = a.annotation
            elts = [ann]
            if isinstance(ann, ast.Subscript):
                sl = ann.slice
                elts = sl.elts if isinstance(sl, ast.Tuple) else [sl]
            for e in elts:
                c = repo.resolve_class(ex.module, e)
                if c is not None:
                    out.append(c)
    return out


def bind(call: ast.Call, fn) -> Dict[str, ast.AST]:
    params = A.param_names(fn)
    if params and params[0] in ("self", "cls"):
        params = params[1:]
    out = {}
    for i, a in enumerate(call.args):
        if i < len(params):
            out[params[i]] = a
    for k in call.keywords:
        if k.arg:
            out[k.arg] = k.value
    return out


def multi_defs(fn) -> Dict[str, List[ast.AST]]:
    return {k: [v for v in vs if v is not None] for k, vs in A.assigned_names(fn).items()}


def handler_signature(ctx, ex, h) -> Optional[List[str]]:
    repo = ctx.repo
    r = repo.lookup(ex, h)
    if r is None:
        return None
    fn = r[1]
    params = A.param_names(fn)
    if len(params) < 3:
        return None
    instrp = params[2]
    defs = A.single_defs(fn)
    mdefs = multi_defs(fn)
    out = []
    for call in A.calls_in(fn):
        if A.is_self_attr(call.func) and call.func.attr in SINKS:
            rr = repo.lookup(ex, call.func.attr)
            b = bind(call, rr[1]) if rr else {}
            parts = []
            for p, e in sorted(b.items()):
                if p == "app_id":
                    continue
                if isinstance(e, ast.Name) and e.id not in defs and e.id in mdefs and len(mdefs[e.id]) > 1:
                    alts = sorted(canon(ctx, ex, fn, A.expand(v, defs), instrp) for v in mdefs[e.id])
                    parts.append(f"{p}=ANY({'|'.join(alts)})")
                else:
                    parts.append(f"{p}={canon(ctx, ex, fn, A.expand(e, defs), instrp)}")
            out.append(f"{call.func.attr}({', '.join(parts)})")
    return sorted(out)


def all_signatures(ctx, table) -> Dict[str, List[str]]:
    ex = executor(ctx)
    out = {}
    for mn, h in sorted(table.items()):
        s = handler_signature(ctx, ex, h)
        if s is not None:
            out[mn] = s
    return out


def check_signatures(ctx, table, rule="C04.S", only=None):
    repo = ctx.repo
    ex = executor(ctx)
    if not os.path.exists(REF):
        raise AnalysisError("reference/classical_semantics.json missing")
    ref = json.load(open(REF))
    sigs = all_signatures(ctx, table)
    for mn, exp in sorted(ref["handler_signatures"].items()):
        if only is not None and mn not in only:
            continue
        got = sigs.get(mn)
        ctx.check(rule, f"{mn}:signature", got == exp, f"{mn}: handler {table.get(mn)} has dataflow signature {got}; reference semantics {exp}", ex.loc(),
                  sample={"mnemonic": mn, "signature": got})
    if only is not None:
        return
    check_state_accessors(ctx, rule)


def check_state_accessors(ctx, rule="C04.S"):
    """The small state accessors of the executor are executed abstractly (nqsa/circuit.py) on an executor object with two
    applications, modelled register banks and a modelled array store: each must touch exactly the cell the instruction names,
    of the application it is given (whatever it is written as)."""
    from .. import circuit as C
    from ..model import EnumMember
    repo, ev = ctx.repo, ctx.ev
    ex = executor(ctx)
    rn = repo.get_class("netqasm.lang.encoding", "RegisterName")
    rmem = ev.enum_members(rn)
    opm = repo.module("netqasm.lang.operand")
    R_, ADDR, ENTRY, SLICE = (opm.classes[n_] for n_ in ("Register", "Address", "ArrayEntry", "ArraySlice"))

    class Store:
        """model of the per-application array store: records what is asked of it"""
        _nqsa_model = True

        def __init__(self, tag):
            self.tag, self.log = tag, []

        def __getitem__(self, key):
            self.log.append(("get", key))
            return 50000 + 10000 * self.tag + 100 * key[0] + key[1] if isinstance(key, tuple) and all(isinstance(k_, int) for k_ in key) else ("cell", self.tag, key)

        def __setitem__(self, key, value):
            self.log.append(("set", key, value))

        def _get_array(self, address):
            self.log.append(("array", address))
            return ("array", self.tag, address)

        def init_new_array(self, address, length):
            self.log.append(("init", address, length))

    def fresh():
        it = C.Interp(repo, ev, C.Scenario(), ex)
        banks = {app: {it._hashable(EnumMember(rn.qualname, n_, v_)): [1000 * app + 100 * v_ + i for i in range(16)] for n_, v_ in rmem.items()} for app in (0, 1)}
        stores = {0: Store(0), 1: Store(1)}
        o = C.object_from_init(repo, ex, {"_registers": banks, "_app_arrays": stores}, kind="self")
        return it, o, banks, stores

    def reg(name, index):
        return C.Obj(R_, {"name": EnumMember(rn.qualname, name, rmem[name]), "index": index})

    def run(mname, *args, **kwargs):
        it, o, banks, stores = fresh()
        r_ = repo.lookup(ex, mname)
        if r_ is None:
            raise AnalysisError(f"Executor.{mname} not found")
        ctx.fn(f"Executor.{mname}")
        try:
            out = it.call_function(r_[0].module, r_[1], list(args), kwargs, self_obj=o)
        except C.EvalRaise as ex_:
            out = ("raises", str(ex_))
        return out, banks, stores, it

    def slice_eq(x, lo, hi):
        return isinstance(x, slice) and (x.start, x.stop, x.step) == (lo, hi, None)

    try:
        # registers
        ok = True
        for app in (0, 1):
            for name in rmem:
                out, banks, _s, it = run("_get_register", app_id=app, register=reg(name, 3))
                ok = ok and out == 1000 * app + 100 * rmem[name] + 3
        ctx.check(rule, "_get_register:shape", ok, "Executor._get_register does not read cell [app][bank][index] of the register it is given", ex.loc(), sample={"helper": "_get_register"})
        ok = True
        for app in (0, 1):
            out, banks, _s, it = run("_set_register", app_id=app, register=reg("M", 5), value=777)
            key = it._hashable(EnumMember(rn.qualname, "M", rmem["M"]))
            flat = {(a_, k_, i_): v_ for a_ in banks for k_ in banks[a_] for i_, v_ in enumerate(banks[a_][k_])}
            want = {(a_, k_, i_): (777 if (a_, k_, i_) == (app, key, 5) else v_) for (a_, k_, i_), v_ in fresh_flat(repo, ev, ex, rn, rmem, C).items()}
            ok = ok and flat == want
        ctx.check(rule, "_set_register:shape", ok, "Executor._set_register does not write exactly cell [app][bank][index] of the register it is given", ex.loc(), sample={"helper": "_set_register"})
        # array parts
        A5 = C.Obj(ADDR, {"address": 5})
        cases = []
        out, *_ = run("_expand_array_part", app_id=1, array_part=C.Obj(ENTRY, {"address": A5, "index": 7}))
        cases.append(out == (5, 7))
        out, *_ = run("_expand_array_part", app_id=1, array_part=C.Obj(ENTRY, {"address": A5, "index": reg("R", 2)}))
        cases.append(out == (5, 1000 + 100 * rmem["R"] + 2))
        out, *_ = run("_expand_array_part", app_id=0, array_part=C.Obj(SLICE, {"address": A5, "start": 2, "stop": reg("C", 4)}))
        cases.append(isinstance(out, tuple) and len(out) == 2 and out[0] == 5 and slice_eq(out[1], 2, 100 * rmem["C"] + 4))
        out, *_ = run("_expand_array_part", app_id=0, array_part=C.Obj(SLICE, {"address": A5, "start": reg("R", 1), "stop": 9}))
        cases.append(isinstance(out, tuple) and len(out) == 2 and out[0] == 5 and slice_eq(out[1], 100 * rmem["R"] + 1, 9))
        # an undefined index register is a fault
        it, o, banks, stores = fresh()
        banks[0][it._hashable(EnumMember(rn.qualname, "R", rmem["R"]))][2] = None
        r_ = repo.lookup(ex, "_expand_array_part")
        for part in (C.Obj(ENTRY, {"address": A5, "index": reg("R", 2)}), C.Obj(SLICE, {"address": A5, "start": 0, "stop": reg("R", 2)}), C.Obj(SLICE, {"address": A5, "start": reg("R", 2), "stop": 3})):
            try:
                C.Interp(repo, ev, C.Scenario(), ex).call_function(r_[0].module, r_[1], [], {"app_id": 0, "array_part": part}, self_obj=o)
                cases.append(False)
            except C.EvalRaise:
                cases.append(True)
        ctx.check(rule, "_expand_array_part:shape", all(cases),
                  f"Executor._expand_array_part does not turn an entry / slice into (address, index | slice(start, stop)) with register bounds read from the given application, "
                  f"faulting on an undefined register (cases {cases})", ex.loc(), sample={"helper": "_expand_array_part", "cases": cases})
        # array store accessors
        E57 = C.Obj(ENTRY, {"address": A5, "index": 7})
        out, _b, stores, _i = run("_get_array_entry", app_id=1, array_entry=E57)
        ctx.check(rule, "_get_array_entry:shape", out == 50000 + 10000 + 500 + 7 and not stores[0].log, f"Executor._get_array_entry reads {out!r}, not entry (5, 7) of application 1", ex.loc(), sample={"helper": "_get_array_entry"})
        out, _b, stores, _i = run("_set_array_entry", app_id=1, array_entry=E57, value=42)
        ctx.check(rule, "_set_array_entry:shape", stores[1].log == [("set", (5, 7), 42)] and not stores[0].log, f"Executor._set_array_entry does {stores[1].log + stores[0].log!r}, not `arrays[1][5, 7] = 42`", ex.loc(), sample={"helper": "_set_array_entry"})
        out, _b, stores, _i = run("_get_array", app_id=1, address=A5)
        ctx.check(rule, "_get_array:shape", out == ("array", 1, 5) and not stores[0].log, f"Executor._get_array returns {out!r}, not array 5 of application 1", ex.loc(), sample={"helper": "_get_array"})
        out, _b, stores, _i = run("_initialize_array", app_id=1, address=A5, length=3)
        ctx.check(rule, "_initialize_array:shape", stores[1].log == [("init", 5, 3)] and not stores[0].log, f"Executor._initialize_array does {stores[1].log + stores[0].log!r}, not init_new_array(5, 3) for application 1", ex.loc(), sample={"helper": "_initialize_array"})
    except AnalysisError as ex_:
        ctx.error(rule, f"state accessors cannot be evaluated: {ex_}")


def fresh_flat(repo, ev, ex, rn, rmem, C):
    from ..model import EnumMember
    it = C.Interp(repo, ev, C.Scenario(), ex)
    return {(app, it._hashable(EnumMember(rn.qualname, n_, v_)), i): 1000 * app + 100 * v_ + i for app in (0, 1) for n_, v_ in rmem.items() for i in range(16)}


def _key_roles(f, pk):
    """(address local, index local, array local) of an Arrays accessor: `a, i = self._extract_key(<key>)`, `arr = self._get_array(a)`"""
    addr_v = idx_v = arr_v = None
    for n in ast.walk(f):
        if isinstance(n, ast.Assign) and isinstance(n.targets[0], ast.Tuple) and len(n.targets[0].elts) == 2 and A.norm(n.value) == f"self._extract_key({pk})" \
                and all(isinstance(x, ast.Name) for x in n.targets[0].elts):
            addr_v, idx_v = n.targets[0].elts[0].id, n.targets[0].elts[1].id
    if addr_v is not None:
        for n in ast.walk(f):
            if isinstance(n, ast.Assign) and isinstance(n.targets[0], ast.Name) and A.norm(n.value) == f"self._get_array({addr_v})":
                arr_v = n.targets[0].id
    return addr_v, idx_v, arr_v


def helper_shape(ctx, ex, name, fn) -> str:
    """normalised body of the small state accessors"""
    body = A.strip_docstring(fn.body)
    defs = A.single_defs(fn)
    if name == "_expand_array_part":
        # address source, entry index source, slice order; locals in alpha form (L0, L1, ... by first binding) so that their names do not matter
        fn = A.alpha(fn)
        defs = A.single_defs(fn)
        p = A.param_names(fn)[2]
        rets0 = A.returns(fn)
        addr_local = rets0[0].value.elts[0].id if rets0 and isinstance(rets0[0].value, ast.Tuple) and isinstance(rets0[0].value.elts[0], ast.Name) else None
        # name the locals by their role: returned pair = (address, index); the loop over the two bounds binds `elem` and fills `bounds`
        roles = {}
        if rets0 and isinstance(rets0[0].value, ast.Tuple) and len(rets0[0].value.elts) == 2 and all(isinstance(x, ast.Name) for x in rets0[0].value.elts):
            roles[rets0[0].value.elts[0].id] = "address"
            roles[rets0[0].value.elts[1].id] = "index"
        for n in ast.walk(fn):
            if isinstance(n, ast.For) and isinstance(n.iter, ast.List) and isinstance(n.target, ast.Name):
                roles[n.target.id] = "elem"
                for c in ast.walk(n):
                    if isinstance(c, ast.Call) and isinstance(c.func, ast.Attribute) and c.func.attr == "append" and isinstance(c.func.value, ast.Name):
                        roles.setdefault(c.func.value.id, "bounds")
        for n in ast.walk(fn):
            if isinstance(n, ast.Name) and n.id in roles:
                n.id = roles[n.id]
        defs = A.single_defs(fn)
        addr = A.norm(defs.get("address", ast.Constant(value=None)))
        order = None
        for n in ast.walk(fn):
            if isinstance(n, ast.For) and isinstance(n.iter, ast.List):
                order = [A.norm(e) for e in n.iter.elts]
        slice_call = [A.norm(n) for n in ast.walk(fn) if isinstance(n, ast.Call) and dotted(n.func) == "slice"]
        idx_reg = [A.norm(A.get_arg(n, None, "register") or (n.args[1] if len(n.args) > 1 else ast.Constant(value=None))) for n in ast.walk(fn)
                   if isinstance(n, ast.Call) and A.is_self_attr(n.func, "_get_register")]
        rets = [A.norm(r.value) for r in A.returns(fn)]
        none_guards = len([n for n in ast.walk(fn) if isinstance(n, ast.If) and G.always_raises(n.body) and isinstance(n.test, ast.Compare) and isinstance(n.test.ops[0], ast.Is)])
        return f"address={addr}; slice-order={order}; slice={slice_call}; index-registers={sorted(idx_reg)}; none-guards={none_guards}; returns={rets}".replace(p, "part")
    # state accessors: only the state access itself (return value / subscript store), locals expanded; asserts and logging ignored
    out = []
    for s in body:
        if isinstance(s, ast.Return) and s.value is not None:
            out.append("return " + A.norm(A.expand(s.value, defs)))
        elif isinstance(s, ast.Assign) and isinstance(s.targets[0], ast.Subscript):
            out.append(A.norm(A.expand(s.targets[0], defs)) + "=" + A.norm(A.expand(s.value, defs)))
        elif isinstance(s, ast.Expr) and isinstance(s.value, ast.Call) and not A.norm(s.value).startswith("self._logger"):
            out.append(A.norm(A.expand(s.value, defs)))
    return " ; ".join(out)


def check_none_guards(ctx, table):
    repo, ev = ctx.repo, ctx.ev
    ex = executor(ctx)
    m = ex.module
    optional_getters = set()
    for name, fn in ex.methods.items():
        if fn.returns is not None and isinstance(fn.returns, ast.Subscript) and (dotted(fn.returns.value) or "").split(".")[-1] == "Optional" and name.startswith("_get_"):
            optional_getters.add(name)
    ctx.anchor("C04.N", "Optional-returning getters", len(optional_getters & set(GETTERS)), 2)
    n_flows = 0
    for h in sorted(set(table.values()) | {"_instr_array"}):
        r = repo.lookup(ex, h)
        if r is None:
            continue
        fn = r[1]
        mdefs = multi_defs(fn)
        for call in A.calls_in(fn):
            if not (A.is_self_attr(call.func) and call.func.attr in SINKS):
                continue
            rr = repo.lookup(ex, call.func.attr)
            b = bind(call, rr[1]) if rr else {}
            for p, e in sorted(b.items()):
                if not isinstance(e, ast.Name):
                    continue
                vdefs = mdefs.get(e.id, [])
                from_opt = [v for v in vdefs if isinstance(v, ast.Call) and A.is_self_attr(v.func) and v.func.attr in optional_getters]
                if not from_opt:
                    continue
                if h == "_handle_binary_classical_instr" and p == "mod":
                    continue  # handled below: None means "no modulus"
                n_flows += 1
                guarded = False
                for st in G.dominating_stmts(fn, call):
                    cond = G.raising_condition(st)
                    if cond is None:
                        continue
                    # must raise when var is None
                    if _raises_when_none(cond, e.id):
                        guarded = True
                ctx.check("C04.N", f"{h}:{call.func.attr}.{p}<-{e.id}", guarded,
                          f"{h}: `{e.id}` comes from {src(from_opt[0].func)} (Optional) and reaches {call.func.attr}({p}=...) without a dominating `is None -> raise/assert`: "
                          f"an undefined value would be written instead of faulting at this instruction", repo.loc(m, call),
                          sample={"handler": h, "value": e.id, "sink": f"{call.func.attr}.{p}", "guarded": guarded})
    ctx.anchor("C04.N", "Optional value -> state write flows", n_flows, 8)
    # undef is the only literal None
    for h in sorted(set(table.values())):
        r = repo.lookup(ex, h)
        if r is None:
            continue
        for call in A.calls_in(r[1]):
            if A.is_self_attr(call.func) and call.func.attr in ("_set_register", "_set_array_entry", "_update_shared_memory"):
                rr = repo.lookup(ex, call.func.attr)
                b = bind(call, rr[1])
                v = b.get("value")
                if isinstance(v, ast.Constant) and v.value is None:
                    ctx.check("C04.N", f"{h}:literal-None", h == "_instr_undef", f"{h} writes a literal None with {call.func.attr}; only undef may do that", repo.loc(m, call))
    # modulus guard
    r = repo.lookup(ex, "_handle_binary_classical_instr")
    if r is None:
        raise AnalysisError("_handle_binary_classical_instr not found")
    fn = r[1]
    comp = [c for c in A.calls_in(fn) if A.is_self_attr(c.func, "_compute_binary_classical_instr")]
    if not comp:
        ctx.error("C04.N", "_handle_binary_classical_instr does not call _compute_binary_classical_instr")
        return
    rr = repo.lookup(ex, "_compute_binary_classical_instr")
    b = bind(comp[0], rr[1])
    modv = b.get("mod")
    strength = "none"
    if isinstance(modv, ast.Name):
        def guard_strength(stmts):
            sts = []
            for st in stmts:
                cond = G.raising_condition(st)
                if cond is not None and G.mentions(cond, modv):
                    s = G.range_strength(ev, m, cond, modv, 1, 10**40)
                    if s is not None:
                        sts.append(s)
            return G.combine(sts)

        strength = guard_strength(G.dominating_stmts(fn, comp[0]))
        if strength not in ("lower-only", "full"):
            # or: every definition of the modulus that can be a number is followed, in its own block, by the raising guard
            # (a definition `mod = None` needs none: there is no modulus then)
            per_def = []
            for st in A.body_nodes(fn):
                if isinstance(st, ast.Assign) and any(isinstance(t, ast.Name) and t.id == modv.id for t in st.targets):
                    if isinstance(st.value, ast.Constant) and st.value.value is None:
                        continue
                    p_ = G.path_to(fn, st)
                    block, idx = p_[-1] if p_ else ([], 0)
                    per_def.append(guard_strength(block[idx + 1:]))
            if per_def:
                strength = "full" if all(x == "full" for x in per_def) else "lower-only" if all(x in ("lower-only", "full") for x in per_def) else "none"
    ctx.check("C04.N", "_handle_binary_classical_instr:modulus-below-one-raises", strength in ("lower-only", "full"),
              f"no dominating guard raises for every modulus < 1 before the computation (guard strength: {strength})", repo.loc(m, fn), sample={"modulus guard": strength})
    # the modulus register is read for the Mod classes
    mod_defs = multi_defs(fn).get(modv.id if isinstance(modv, ast.Name) else "", [])
    reads = [canon(ctx, ex, fn, v, A.param_names(fn)[2]) for v in mod_defs]
    ctx.check("C04.S", "_handle_binary_classical_instr:modulus-source", sorted(reads) == ["None", "REG[instr.reg3]"], f"modulus comes from {reads}; reference: None (add/sub) or REG[instr.reg3] (addm/subm)", repo.loc(m, fn))


def _raises_when_none(cond, var) -> bool:
    """cond (raise condition) is true when var is None: `var is None`, `not var is not None`, or-combinations containing it"""
    if isinstance(cond, ast.Compare) and len(cond.ops) == 1 and isinstance(cond.left, ast.Name) and cond.left.id == var and isinstance(cond.comparators[0], ast.Constant) and cond.comparators[0].value is None:
        return isinstance(cond.ops[0], ast.Is)
    if isinstance(cond, ast.UnaryOp) and isinstance(cond.op, ast.Not):
        c = cond.operand
        if isinstance(c, ast.Compare) and len(c.ops) == 1 and isinstance(c.left, ast.Name) and c.left.id == var and isinstance(c.comparators[0], ast.Constant) and c.comparators[0].value is None:
            return isinstance(c.ops[0], ast.IsNot)
        if isinstance(c, ast.Call) and dotted(c.func) == "isinstance" and isinstance(c.args[0], ast.Name) and c.args[0].id == var:
            return True  # assert isinstance(v, int) raises for None
    if isinstance(cond, ast.BoolOp) and isinstance(cond.op, ast.Or):
        return any(_raises_when_none(v, var) for v in cond.values)
    return False


GRID = list(range(-3, 4))


def check_predicates(ctx):
    repo, ev = ctx.repo, ctx.ev
    ref = json.load(open(REF))
    core = repo.module(I.CORE_MOD)
    import operator

    ops = {"==": operator.eq, "!=": operator.ne, "<": operator.lt, ">=": operator.ge, ">": operator.gt, "<=": operator.le}
    n = 0
    for c in I.core_instructions(repo):
        r = repo.lookup(c, "check_condition")
        if r is None:
            continue
        mn = I.field_default(repo, ev, c, "mnemonic")
        spec = ref["branch_predicates"].get(mn)
        if spec is None:
            ctx.check("C04.B", f"{mn}:known-branch", False, f"branch instruction {mn} has no reference predicate", c.loc())
            continue
        n += 1
        fn = r[1]
        ctx.fn(f"{c.name}.check_condition")
        params = A.param_names(fn)[1:]
        rets = A.returns(fn)
        if len(rets) != 1:
            ctx.error("C04.B", f"{c.name}.check_condition: expected a single return")
            continue
        bad = None
        try:
            if spec["arity"] == 1:
                for a in GRID:
                    got = bool(ev.eval(rets[0].value, c.module, {params[0]: a}))
                    if got != ops[spec["op"]](a, 0):
                        bad = (a,)
                        break
            else:
                for a in GRID:
                    for b in GRID:
                        got = bool(ev.eval(rets[0].value, c.module, {params[0]: a, params[1]: b}))
                        if got != ops[spec["op"]](a, b):
                            bad = (a, b)
                            break
                    if bad:
                        break
        except Unknown as e:
            ctx.error("C04.B", f"{c.name}.check_condition not evaluable: {e}")
            continue
        ctx.check("C04.B", f"{mn}:predicate", bad is None and len(params) == spec["arity"],
                  f"{mn}: check_condition `{src(rets[0].value)}` differs from the reference `a {spec['op']} {'b' if spec['arity'] == 2 else '0'}` at {bad}", c.loc(fn),
                  sample={"mnemonic": mn, "predicate": src(rets[0].value), "reference": spec})
    ctx.anchor("C04.B", "branch predicate classes", n, 6)
    # arithmetic
    ex = executor(ctx)
    fn = ex.methods.get("_compute_binary_classical_instr")
    if fn is None:
        raise AnalysisError("_compute_binary_classical_instr not found")
    ctx.fn("Executor._compute_binary_classical_instr")
    # executed abstractly (nqsa/circuit.py) for an instruction object of each class over a grid of operands and moduli
    from .. import circuit as C
    core = repo.module("netqasm.lang.instr.core")
    refa = {"add": lambda a, b, m: a + b, "sub": lambda a, b, m: a - b, "addm": lambda a, b, m: (a + b) % m, "subm": lambda a, b, m: (a - b) % m}
    for mn, f in refa.items():
        icls = core.classes.get(mn.capitalize() + "Instruction")
        if icls is None:
            raise AnalysisError(f"core.{mn.capitalize()}Instruction not found")
        bad = None
        try:
            for a in GRID:
                for b in GRID:
                    for mo in (1, 2, 3, 5):
                        o = C.object_from_init(repo, ex, {}, kind="self")
                        try:
                            got = C.Interp(repo, ev, C.Scenario(), ex).call_function(ex.module, fn, [], {"instr": C.Obj(icls, {}), "a": a, "b": b, "mod": mo}, self_obj=o)
                        except C.EvalRaise as ex_:
                            got = f"raises {ex_}"
                        if got != f(a, b, mo):
                            bad = bad or ((a, b, mo), got)
        except AnalysisError as ex_:
            ctx.error("C04.A", f"_compute_binary_classical_instr not evaluable for {mn}: {ex_}")
            continue
        ctx.check("C04.A", f"{mn}:arithmetic", bad is None, f"{mn}: the computed value differs from the reference at (a, b, mod), got = {bad}", repo.loc(ex.module, fn), sample={"mnemonic": mn})


def differential_programs():
    """(label, [subroutine text, ...]) - the programs C04.D runs on the executor and on the reference semantics"""
    H = "# NETQASM 1.0\n# APPID 0\n"
    out = []
    # arithmetic: every operation x operand values x moduli, an undefined operand, a modulus below one
    for op in ("add", "sub", "addm", "subm"):
        for a_, b_ in ((0, 0), (5, 7), (7, 5), (100, 3), (1, 1)):
            for mod in ((1, 3, 7) if op.endswith("m") else (None,)):
                m_ = f"set R3 {mod}\n" if mod is not None else ""
                out.append((f"{op} {a_} {b_} mod {mod}", [H + f"set R0 {a_}\nset R1 {b_}\n{m_}{op} R2 R0 R1{' R3' if mod is not None else ''}\n{op} R0 R0 R2{' R3' if mod is not None else ''}\nset R9 1\n"]))
        tail = " R3" if op.endswith("m") else ""
        out.append((f"{op} with an undefined operand", [H + f"set R0 4\nset R3 5\nset R8 1\n{op} R2 R0 R1{tail}\nset R9 1\n"]))
        out.append((f"{op} with an undefined first operand", [H + f"set R1 4\nset R3 5\n{op} R2 R0 R1{tail}\nset R9 1\n"]))
        if op.endswith("m"):
            for mod in (0,):
                out.append((f"{op} modulus {mod}", [H + f"set R0 4\nset R1 9\nset R3 {mod}\nset R8 1\n{op} R2 R0 R1 R3\nset R9 1\n"]))
            out.append((f"{op} negative modulus", [H + f"set R0 4\nset R1 9\nset R6 0\nset R7 2\nsub R3 R6 R7\nset R8 1\n{op} R2 R0 R1 R3\nset R9 1\n"]))
            out.append((f"{op} undefined modulus", [H + f"set R0 4\nset R1 9\n{op} R2 R0 R1 R3\nset R9 1\n"]))
    # branches: taken and not taken, forward, backward, into the middle of a block; jmp
    conds = {"bez": ("bez R0 {t}", [0, 3]), "bnz": ("bnz R0 {t}", [0, 3]), "beq": ("beq R0 R1 {t}", [2, 3]), "bne": ("bne R0 R1 {t}", [2, 3]),
             "blt": ("blt R0 R1 {t}", [1, 2, 3]), "bge": ("bge R0 R1 {t}", [1, 2, 3])}
    for mn, (form, values) in conds.items():
        for v in values:
            out.append((f"{mn} forward R0={v} R1=2", [H + f"set R0 {v}\nset R1 2\nset R5 0\nset R6 1\nset R7 10\n{form.format(t='T')}\nadd R5 R5 R6\nT:\nadd R5 R5 R7\n{form.format(t='E')}\nadd R5 R5 R6\nE:\n"]))
            out.append((f"{mn} loop R0={v} R1=2", [H + f"set R0 {v}\nset R1 2\nset R5 0\nset R6 1\nset R9 0\nset R10 3\nL:\nadd R9 R9 R6\nadd R5 R5 R9\nbeq R9 R10 OUT\n{form.format(t='OUT')}\njmp L\nOUT:\nadd R5 R5 R10\n"]))
        # (a branch on an undefined register is not specified: not executed)
    # negative values (the difference of two registers)
    for mn, (form, values) in conds.items():
        out.append((f"{mn} with a negative value", [H + f"set R2 0\nset R3 4\nsub R0 R2 R3\nset R1 2\nset R5 0\nset R6 1\n{form.format(t='T')}\nadd R5 R5 R6\nT:\nadd R5 R5 R3\nsub R1 R2 R6\n{form.format(t='E')}\nadd R5 R5 R6\nE:\nret_reg R0\n"]))
    out.append(("jmp forward, backward and into the middle", [H + "set R5 0\nset R6 1\nset R9 0\nset R10 2\njmp B\nA:\nadd R5 R5 R6\nadd R9 R9 R6\nbeq R9 R10 END\nB:\nadd R5 R5 R10\njmp A\nset R5 77\nEND:\nadd R5 R5 R6\n"]))
    # every register bank
    out.append(("set / ret_reg in every bank", [H + "".join(f"set {b}{i} {10 * k + i}\n" for k, b in enumerate("RCQM") for i in (0, 7, 15)) + "".join(f"ret_reg {b}{i}\n" for b in "RCQM" for i in (0, 15)) + "add C1 R0 M15\nret_reg C1\n"]))
    out.append(("ret_reg of an undefined register", [H + "set R0 1\nret_reg R0\nret_reg R1\nset R9 1\n"]))
    # arrays
    for ln in (0, 1, 3):
        body = f"set R0 {ln}\narray R0 @2\nlea R6 @2\nset R1 41\nset R2 0\n"
        if ln:
            body += f"store R1 @2[R2]\nstore R6 @2[{ln - 1}]\nload R4 @2[R2]\nload R5 @2[{ln - 1}]\nret_arr @2\nundef @2[R2]\nret_reg R4\n"
        out.append((f"array of length {ln}: store, load, lea, undef, ret_arr", [H + body + "set R9 1\n"]))
        out.append((f"array of length {ln}: store at index {ln}", [H + f"set R0 {ln}\narray R0 @2\nset R1 41\nset R2 {ln}\nset R8 1\nstore R1 @2[R2]\nset R9 1\n"]))
        out.append((f"array of length {ln}: load at index {ln}", [H + f"set R0 {ln}\narray R0 @2\nset R8 1\nload R1 @2[{ln}]\nset R9 1\n"]))
        out.append((f"array of length {ln}: undef at index {ln + 1}", [H + f"set R0 {ln}\narray R0 @2\nset R8 1\nundef @2[{ln + 1}]\nset R9 1\n"]))
    out.append(("load of an undefined entry", [H + "set R0 2\narray R0 @0\nset R1 5\nstore R1 @0[1]\nset R8 1\nload R2 @0[0]\nset R9 1\n"]))
    out.append(("load of an entry that was undefined again", [H + "set R0 2\narray R0 @0\nset R1 5\nstore R1 @0[1]\nload R3 @0[1]\nundef @0[1]\nload R2 @0[1]\nset R9 1\n"]))
    out.append(("store of an undefined register", [H + "set R0 2\narray R0 @0\nset R8 1\nstore R1 @0[0]\nset R9 1\n"]))
    out.append(("store through an undefined index register", [H + "set R0 2\narray R0 @0\nset R1 5\nstore R1 @0[R2]\nset R9 1\n"]))
    out.append(("store into an array that does not exist", [H + "set R1 5\nset R8 1\nstore R1 @4[0]\nset R9 1\n"]))
    out.append(("ret_arr of an array that does not exist", [H + "set R8 1\nret_arr @4\nset R9 1\n"]))
    out.append(("array with an undefined length", [H + "set R8 1\narray R0 @1\nset R9 1\n"]))
    out.append(("two arrays, values stay apart", [H + "set R0 2\narray R0 @0\nset R0 3\narray R0 @1\nset R1 5\nset R2 6\nstore R1 @0[1]\nstore R2 @1[1]\nstore R2 @1[2]\nload R3 @0[1]\nload R4 @1[1]\nret_arr @0\nret_arr @1\n"]))
    out.append(("array declared again with the same length", [H + "set R0 2\narray R0 @0\nset R1 5\nstore R1 @0[1]\nret_arr @0\narray R0 @0\nret_arr @0\nset R8 1\nload R3 @0[1]\nset R9 1\n"]))
    out.append(("array declared again in a later subroutine", [H + "set R0 2\narray R0 @0\nset R1 5\nstore R1 @0[1]\n", H + "set R0 2\narray R0 @0\nset R8 1\nload R3 @0[1]\nset R9 1\n"]))
    out.append(("array declared again", [H + "set R0 2\narray R0 @0\nset R1 5\nstore R1 @0[1]\nset R0 3\narray R0 @0\nset R8 1\nload R3 @0[1]\nset R9 1\n"]))
    out.append(("sum of an array in a loop", [H + "set R0 4\narray R0 @0\nset R1 0\nset R6 1\nF:\nbeq R1 R0 S\nadd R2 R1 R1\nstore R2 @0[R1]\nadd R1 R1 R6\njmp F\nS:\nset R1 0\nset R5 0\nG:\nbeq R1 R0 D\nload R3 @0[R1]\nadd R5 R5 R3\nadd R1 R1 R6\njmp G\nD:\nret_reg R5\nret_arr @0\n"]))
    # qubit bookkeeping (unit module of two qubits)
    out.append(("qalloc both, free one, allocate it again", [H + "set Q0 0\nqalloc Q0\nset Q1 1\nqalloc Q1\nqfree Q0\nqalloc Q0\nset R9 1\n"]))
    out.append(("qalloc twice", [H + "set Q0 1\nqalloc Q0\nset R8 1\nqalloc Q0\nset R9 1\n"]))
    out.append(("qalloc through two registers holding the same id", [H + "set Q0 1\nset Q3 1\nqalloc Q0\nqalloc Q3\nset R9 1\n"]))
    out.append(("qfree of a qubit that is not allocated", [H + "set Q0 0\nqalloc Q0\nset Q1 1\nset R8 1\nqfree Q1\nset R9 1\n"]))
    out.append(("qfree twice", [H + "set Q0 0\nqalloc Q0\nqfree Q0\nqfree Q0\nset R9 1\n"]))
    out.append(("qalloc outside the unit module", [H + "set Q0 2\nset R8 1\nqalloc Q0\nset R9 1\n"]))
    out.append(("qalloc through an undefined register", [H + "set R8 1\nqalloc Q5\nset R9 1\n"]))
    # several subroutines against the same application state
    out.append(("state carried from one subroutine to the next", [H + "set R0 3\narray R0 @0\nset R1 8\nstore R1 @0[2]\nset Q0 1\nqalloc Q0\n", H + "load R2 @0[2]\nadd R3 R2 R1\nset Q1 0\nqalloc Q1\nret_reg R3\n", H + "qfree Q0\nset Q2 1\nqalloc Q2\nload R4 @0[0]\nset R9 1\n"]))
    out.append(("a fault in one subroutine, the next one runs", [H + "set R0 1\nload R1 @7[0]\nset R9 1\n", H + "set R2 5\nadd R3 R2 R0\nret_reg R3\n"]))
    return out


def _run_semantics(ctx, program):
    """one program on the repository's executor and on the reference semantics -> None when they agree after every subroutine, else (construct, text)"""
    import re as _re
    from .. import refsem
    from .. import session as S
    from .. import circuit as C
    label, texts = program
    w = S.ExecutorWorld(ctx, S.scenario(max_steps=400000), record_gates=False)
    w.init_app(0, 2)
    st = refsem.State(2)
    for k, text in enumerate(texts):
        sub = w.parse(text)
        instrs = sub.fields.get("_instructions")
        if not isinstance(instrs, list):
            raise AnalysisError("the parsed subroutine has no instruction list")
        want = refsem.run(instrs, st)
        if want[0] == "loops":
            raise AnalysisError(f"the checker's program `{label}` does not terminate under the reference semantics")
        got = w.run(sub)
        where = f"`{label}`" + (f", subroutine {k + 1} of {len(texts)}" if len(texts) > 1 else "")
        listing = "; ".join(f"{i_}: {C.Interp(ctx.repo, ctx.ev, w.sc, None)._to_str(x_) or x_.fields.get('mnemonic')}" for i_, x_ in enumerate(instrs))
        if got[0] == "loops":
            return ("terminates-like-the-reference", f"{where}: the executor does not finish [{listing}]")
        if want[0] == "ok" and got[0] != "ok":
            return ("no-fault-where-the-semantics-has-none", f"{where}: the executor stops with {got[1]} ({got[2][:120]!r}); every instruction of [{listing}] can be carried out")
        if want[0] == "fault":
            if got[0] == "ok":
                return ("faults-where-the-semantics-faults", f"{where}: instruction {want[1]} of [{listing}] cannot be carried out, the executor runs the subroutine to its end")
            mt = _re.search(r"[Ll]ine (\d+)", got[2] or "")
            if mt is None or int(mt.group(1)) != want[1]:
                return ("fault-names-the-line", f"{where}: instruction {want[1]} of [{listing}] faults; the executor's error is {got[1]}: {got[2][:100]!r}")
        um = w.unit_module(0) or []
        sm = w.ex.fields.get("_shared_memories", {}).get(0)
        shared_regs, shared_arrays = {}, {}
        if isinstance(sm, C.Obj):
            for key_, g_ in (sm.fields.get("_registers") or {}).items():
                bank = key_[1] if isinstance(key_, tuple) else getattr(key_, "name", str(key_))
                vals = g_.fields.get("_register") if isinstance(g_, C.Obj) else None
                for i_, v_ in (vals.items() if isinstance(vals, dict) else enumerate(vals or [])):
                    if v_ is not None:
                        shared_regs[f"{bank}{i_}"] = v_
            arrs = sm.fields.get("_arrays")
            if isinstance(arrs, C.Obj):
                shared_arrays = {a_: list(v_) for a_, v_ in (arrs.fields.get("_arrays") or {}).items()}
        mapped = sorted(v_ for v_ in um if v_ is not None)
        if mapped != sorted(w.used()):
            return ("allocated:as-the-semantics-prescribes", f"{where} [{listing}]: the unit module maps the physical qubits {mapped}, the executor marks {sorted(w.used())} as in use")
        have = {"registers": w.registers(0), "arrays": w.arrays(0), "allocated": sorted(i_ for i_, v_ in enumerate(um) if v_ is not None),
                "shared registers": shared_regs, "shared arrays": shared_arrays}
        ref = st.snapshot()
        for part in ("registers", "arrays", "allocated", "shared registers", "shared arrays"):
            if have[part] != ref[part]:
                a_, b_ = have[part], ref[part]
                if isinstance(a_, dict):
                    diff = {k_: (a_.get(k_, "undefined"), b_.get(k_, "undefined")) for k_ in sorted(set(a_) | set(b_), key=str) if a_.get(k_, "undefined") != b_.get(k_, "undefined")}
                else:
                    diff = (a_, b_)
                return (f"{part.replace(' ', '-')}:as-the-semantics-prescribes", f"{where} [{listing}] ({'faults at ' + str(want[1]) if want[0] == 'fault' else 'runs through'}): {part} (executor, reference) differ: {diff}")
    return None


def check_differential(ctx, rule="C04.D"):
    """The classical core decided by differential execution: programs parsed by the repository's parser are executed by the repository's
    Executor (constructed by its own constructor, application registered by init_new_application) and by the checker's reference
    semantics (nqsa/refsem.py).  After every subroutine both must agree on: finished or faulted, the faulting line named in the error,
    every register of every bank, every array, the allocated virtual qubits, and the host-visible shared memory."""
    from .. import session as S
    programs = differential_programs()
    bad = {}
    try:
        for (label, texts), res in zip(programs, S.parallel_map(ctx, _run_semantics, programs)):
            if res is not None:
                bad.setdefault(res[0], res[1])
    except AnalysisError as ex_:
        ctx.error(rule, f"differential execution cannot be carried out: {ex_}")
        return
    ctx.anchor(rule, "programs executed on the executor and on the reference semantics", len(programs), 100)
    repo = ctx.repo
    ex = repo.get_class(EXE, "Executor")
    loc = ex.loc(ex.methods["_execute_commands"]) if "_execute_commands" in ex.methods else None
    keys = ["terminates-like-the-reference", "no-fault-where-the-semantics-has-none", "faults-where-the-semantics-faults", "fault-names-the-line"] + \
           [f"{p_}:as-the-semantics-prescribes" for p_ in ("registers", "arrays", "allocated", "shared-registers", "shared-arrays")]
    for key in keys:
        ctx.check(rule, key, key not in bad, bad.get(key, ""), loc, sample={"programs": len(programs)})


def check_fault_rewrap(ctx, rule="C04.X"):
    """"The error names its line": the fault wrapper builds a new exception of the fault's own class from one message string
    (`exc.__class__(f"At line ...")`).  Every exception class of the repository that code below the executor can raise must therefore
    be constructible from a single positional argument - a class whose __init__ wants more turns the wrapper itself into a
    TypeError that names no line.  Decided for every `raise` of a repository class in the executor module and the modules it
    imports from the package (transitively); builtin exception classes take one argument by definition."""
    repo = ctx.repo
    ex = executor(ctx)
    hce = ex.methods.get("_handle_command_exception")
    if hce is None:
        raise AnalysisError("_handle_command_exception not found")
    # how does the wrapper construct the new exception?
    ctor = None
    excp = A.param_names(hce)[1]
    for n in ast.walk(hce):
        if isinstance(n, ast.Call) and ((isinstance(n.func, ast.Attribute) and n.func.attr == "__class__" and A.norm(n.func.value) == excp)
                                        or (isinstance(n.func, ast.Call) and dotted(n.func.func) == "type" and len(n.func.args) == 1 and A.norm(n.func.args[0]) == excp)):
            ctor = n
    if ctor is None:
        ctx.check(rule, "_handle_command_exception:rebuilds-the-fault-in-its-own-class", True, sample={"wrapper": "does not construct the fault's class"}, trivial=True)
        return
    n_pos, kw = len(ctor.args), [k.arg for k in ctor.keywords]
    # modules below the executor
    todo, seen = [ex.module.name], set()
    while todo:
        mn = todo.pop()
        if mn in seen or mn not in repo.modules:
            continue
        seen.add(mn)
        for v in repo.modules[mn].imports.values():
            target = v[0] if isinstance(v, tuple) else v
            if isinstance(target, str) and target.startswith("netqasm") and "external" not in target:
                todo.append(target)
                if isinstance(v, tuple) and v[1]:
                    todo.append(f"{target}.{v[1]}")
    n_sites = 0
    judged = {}
    for mn in sorted(seen):
        mod = repo.modules[mn]
        for node in ast.walk(mod.tree):
            if not isinstance(node, ast.Raise) or node.exc is None:
                continue
            f = node.exc.func if isinstance(node.exc, ast.Call) else node.exc
            c = repo.resolve_class(mod, f)
            if c is None:
                continue
            n_sites += 1
            if c.qualname in judged:
                continue
            r = repo.lookup(c, "__init__")
            why = None
            if r is not None:
                a = r[1].args
                pos = [x.arg for x in a.posonlyargs + a.args][1:]
                required = len(pos) - len(a.defaults)
                if n_pos < required or (n_pos > len(pos) and a.vararg is None) or any(k_ not in pos and k_ not in [x.arg for x in a.kwonlyargs] and a.kwarg is None for k_ in kw):
                    why = f"{c.name}.__init__({', '.join(pos)}) cannot be called as the fault wrapper calls it ({n_pos} positional argument{'s' if n_pos != 1 else ''})"
                if any(d is None for d in a.kw_defaults):
                    why = why or f"{c.name}.__init__ has required keyword-only parameters"
            judged[c.qualname] = (c, why, repo.loc(mod, node))
    for q, (c, why, loc) in sorted(judged.items()):
        ctx.check(rule, f"{c.name}:constructible-by-the-fault-wrapper", why is None,
                  f"{why}: a fault of this class (raised at {loc}) makes _handle_command_exception itself fail with a TypeError, and the error that reaches the host no longer names the line", c.loc(),
                  sample={"class": c.name}, trivial=True)
    ctx.check(rule, "raise-sites-below-the-executor-examined", True, sample={"modules": len(seen), "raise sites of repository classes": n_sites, "classes": len(judged)}, trivial=True)


def check_fault_line(ctx):
    """C04.E: the command loop, executed by the checker's interpreter with a scripted _execute_command.

    The loop runs commands[counter] while the subroutine's own counter is inside the list (whatever the previous command did
    to the counter: +1, jump backwards, jump forwards, jump past the end), touches no other subroutine's counter, hands a fault to
    _handle_command_exception together with the counter value read BEFORE the faulting command ran, and executes nothing after a
    fault - whether the hook raises (the base class) or returns (a subclass that only logs)."""
    from .. import circuit as C
    repo = ctx.repo
    ex = executor(ctx)
    m = ex.module
    fn = ex.methods.get("_execute_commands")
    hce = ex.methods.get("_handle_command_exception")
    if fn is None or hce is None:
        raise AnalysisError("_execute_commands/_handle_command_exception not found")
    ctx.fn("Executor._execute_commands")

    class _Log:
        _nqsa_model = True

        def debug(self, *a_, **k_):
            return None
        info = warning = error = debug

    cmds = [C.Obj(None, {"tag": f"c{i}"}) for i in range(4)]

    def run_(start, script, hook_raises=True):
        """script: command index -> action ('+1' | ('jump', n) | ('fault', counter value left behind))"""
        o = C.object_from_init(repo, ex, {"_logger": _Log(), "_program_counters": {4: start, 9: 7}}, kind="self")
        trace, faults = [], []

        def execute_command(o_, subroutine_id=None, command=None, *a_, **k_):
            pcs = o_.fields["_program_counters"]
            idx = next((i for i, c in enumerate(cmds) if c is command), None)
            trace.append((idx, pcs[subroutine_id], subroutine_id))
            if len(trace) > 12:
                pcs[subroutine_id] = 10 ** 6  # runaway: end the history (the trace already shows it)
                return None
            act = script.get(idx, "+1")
            if act == "+1":
                pcs[subroutine_id] += 1
            elif act[0] == "jump":
                pcs[subroutine_id] = act[1]
            elif act[0] == "fault":
                pcs[subroutine_id] = act[1]
                raise C.EvalRaise("RuntimeError", "scripted fault")
            return None

        def hook(o_, exc=None, prog_counter=None, traceback_str=None, *a_, **k_):
            faults.append((getattr(exc, "fields", {}).get("exc_name") if isinstance(exc, C.Obj) else exc, prog_counter))
            if hook_raises:
                raise C.EvalRaise("RuntimeError", f"At line {prog_counter}")
            return None

        sc = C.Scenario()
        sc.method_overrides = {"_execute_command": execute_command, "_handle_command_exception": hook}
        sc.externals.update({"traceback.format_tb": lambda tb=None, *a_: [], "traceback.format_exc": lambda *a_: ""})
        sc.lazy_generators = True   # the loop is a generator (and may itself be driven by one): run as Python runs it
        sc.max_steps = 200000
        outcome = "returned"
        try:
            g_ = C.Interp(repo, ctx.ev, sc, ex).call_function(m, fn, [], {"subroutine_id": 4, "commands": list(cmds)}, self_obj=o)
            if isinstance(g_, C.LazyGen):
                for _ in g_:
                    pass
        except C.EvalRaise as ex_:
            outcome = ex_.exc_name
        except C.StepLimit:
            outcome = "does not terminate"
        return trace, faults, outcome, o.fields["_program_counters"]

    bad = {}
    n = 0
    try:
        for label, start, script, want in (
                ("straight line from 0", 0, {}, [0, 1, 2, 3]), ("start in the middle", 2, {}, [2, 3]), ("counter already at the end", 4, {}, []), ("counter past the end", 6, {}, []),
                ("jumps back and forth", 0, {0: ("jump", 2), 2: ("jump", 1), 1: ("jump", 3)}, [0, 2, 1, 3]), ("jump past the end", 0, {1: ("jump", 10)}, [0, 1]),
                ("jump to exactly the end", 1, {1: ("jump", 4)}, [1]), ("jump to the first command once", 2, {3: ("jump", 0), 1: ("jump", 4)}, [2, 3, 0, 1])):
            n += 1
            trace, faults, outcome, pcs = run_(start, script)
            got = [t[0] for t in trace]
            if outcome != "returned" or got != want:
                bad.setdefault("loop-until-counter-past-end", f"{label}: commands executed {got} ({outcome}), expected {want}")
            if any(t[0] != t[1] for t in trace if t[0] is not None) or any(t[0] is None for t in trace):
                bad.setdefault("fetch-at-counter", f"{label}: the command executed is not commands[counter] at (index, counter) = {[(t[0], t[1]) for t in trace]}")
            if pcs.get(9) != 7 or any(t[2] != 4 for t in trace):
                bad.setdefault("loop-until-counter-past-end", f"{label}: another subroutine's counter or id is used ({pcs})")
        for hook_raises in (True, False):
            for label, start, script, fault_at in (("fault in the second command, counter moved before the fault", 0, {1: ("fault", 3)}, 1), ("fault in the first command", 0, {0: ("fault", 0)}, 0),
                                                   ("fault after a jump", 0, {0: ("jump", 3), 3: ("fault", 1)}, 3)):
                n += 1
                trace, faults, outcome, pcs = run_(start, script, hook_raises)
                got = [t[0] for t in trace]
                if not faults:
                    bad.setdefault("execution-inside-try", f"{label}: the fault is not handed to _handle_command_exception (outcome {outcome})")
                    continue
                if faults[0][1] != fault_at:
                    bad.setdefault("fault-line-is-counter-before-execution", f"{label}: the hook is told line {faults[0][1]}, the faulting command was at line {fault_at}")
                if got[-1] != fault_at or len(faults) != 1 or (hook_raises and outcome == "returned") or (not hook_raises and outcome != "returned"):
                    bad.setdefault("fault-stops-execution", f"{label} (hook {'raises' if hook_raises else 'returns'}): after the fault the loop executed {got[got.index(fault_at) + 1:] if fault_at in got else got} "
                                                            f"and called the hook {len(faults)} times (outcome {outcome})")
    except AnalysisError as ex_:
        ctx.error("C04.E", f"_execute_commands cannot be evaluated: {ex_}")
        return
    ctx.anchor("C04.E", "command-loop histories executed", n, 12)
    texts = {"loop-until-counter-past-end": "the loop does not run exactly while this subroutine's counter is inside the command list",
             "fetch-at-counter": "the executed command is not commands[<counter read before execution>]",
             "fault-line-is-counter-before-execution": "the exception wrapper is not given the counter value read before the instruction ran",
             "fault-stops-execution": "after a fault the loop continues", "execution-inside-try": "the instruction is not executed inside the try block"}
    for key, text in texts.items():
        ctx.check("C04.E", f"_execute_commands:{key}", key not in bad, f"{text}: {bad.get(key)}", repo.loc(m, fn), trivial=(key == "execution-inside-try"))
    # wrapper raises, mentioning the counter
    ok = G.always_raises(A.strip_docstring(hce.body)) and any(isinstance(n_, ast.Name) and n_.id == A.param_names(hce)[2] for n_ in ast.walk(hce.body[-1]))
    ctx.check("C04.E", "_handle_command_exception:raises-with-line", ok, "_handle_command_exception does not always raise an error that names the line", repo.loc(m, hce))


SM = "netqasm.sdk.shared_memory"


def _count_stores(fn, pred):
    cfg = F.CFG(fn)
    return cfg.count_on_paths(lambda st: F.events_in(st, pred))


def check_memory_primitives(ctx):
    """C04.M: the register / array store the handlers write through performs exactly the write it is asked for, once, on every non-raising path"""
    repo = ctx.repo
    m = repo.module(SM)
    arrays = m.classes.get("Arrays")
    rg = m.classes.get("RegisterGroup")
    sh = m.classes.get("SharedMemory")
    if arrays is None or rg is None or sh is None:
        raise AnalysisError("shared_memory.Arrays/RegisterGroup/SharedMemory not found")

    def store_pred(target_norm, value_norm):
        def pred(n):
            return isinstance(n, ast.Assign) and len(n.targets) == 1 and A.norm(n.targets[0]) == target_norm and (value_norm is None or A.norm(n.value) == value_norm)
        return pred

    def once(cls, meth, target, value, what):
        fn = cls.methods.get(meth)
        if fn is None:
            ctx.error("C04.M", f"{cls.name}.{meth} not found")
            return
        ctx.fn(f"{cls.name}.{meth}")
        # substitute parameter names
        mn, mx = _count_stores(fn, store_pred(target, value))
        ctx.check("C04.M", f"{cls.name}.{meth}:{what}", (mn, mx) == (1, 1),
                  f"{cls.name}.{meth}: the store `{target} = {value or '<value>'}` happens between {mn} and {mx} times on its non-raising paths; the executor relies on it happening exactly once "
                  f"(an early return or a conditional store changes what `{meth}` leaves in memory)", cls.loc(fn), sample={"primitive": f"{cls.name}.{meth}", "store": f"{target} = {value}", "min": mn, "max": mx})

    f = rg.methods.get("__setitem__")
    if f is not None:
        pi, pv = A.param_names(f)[1:3]
        once(rg, "__setitem__", f"self._register[{pi}]", pv, "stores-value-at-index")
    # Arrays: executed on an object built by its own constructor - declare, write entries and slices, read them back, replace an array
    # by a given list, refuse unknown addresses and indices outside the array
    from .. import circuit as C
    from .. import session as S
    for nm_ in ("init_new_array", "__setitem__", "__getitem__", "_get_array", "_set_array"):
        if nm_ in arrays.methods:
            ctx.fn(f"Arrays.{nm_}")
    try:
        sc = S.scenario()
        I_ = C.Interp(repo, ctx.ev, sc, arrays)
        o = I_.construct(arrays, [], {}, None)

        def do(name, *args):
            r_ = S.outcome(I_.method, o, name, list(args), {}, None)
            return (r_[0], list(r_[1])) if r_[0] == "ok" and isinstance(r_[1], list) else r_   # (what it holds now, not the live list)

        def getk(addr, idx):
            return do("__getitem__", (addr, idx))

        script = []
        script.append(("init_new_array(3, 2)", do("init_new_array", 3, 2), ("ok", None)))
        script.append(("[3, 0:2] of a fresh array", getk(3, slice(0, 2)), ("ok", [None, None])))
        script.append(("[3, 1] = 9", do("__setitem__", (3, 1), 9), ("ok", None)))
        script.append(("[3, 1]", getk(3, 1), ("ok", 9)))
        script.append(("[3, 0]", getk(3, 0), ("ok", None)))
        script.append(("[3, 2] = 1 (past the end)", do("__setitem__", (3, 2), 1)[:2], ("raises", "IndexError")))
        script.append(("[3, 2] (past the end)", getk(3, 2)[:2], ("raises", "IndexError")))
        script.append(("[9, 0] = 1 (no such array)", do("__setitem__", (9, 0), 1)[:2], ("raises", "IndexError")))
        script.append(("init_new_array(4, 3)", do("init_new_array", 4, 3), ("ok", None)))
        script.append(("[4, 0:2] = [7, 8]", do("__setitem__", (4, slice(0, 2)), [7, 8]), ("ok", None)))
        script.append(("[4, 0:3]", getk(4, slice(0, 3)), ("ok", [7, 8, None])))
        script.append(("[3, 0:2] (the other array is untouched)", getk(3, slice(0, 2)), ("ok", [None, 9])))
        given = [5, 6]
        script.append(("_set_array(3, [5, 6])", do("_set_array", 3, given), ("ok", None)))
        script.append(("[3, 0:2] after _set_array", getk(3, slice(0, 2)), ("ok", [5, 6])))
        script.append(("_get_array(3)", do("_get_array", 3), ("ok", [5, 6])))
        script.append(("_set_array(8, [1]) (no such array)", do("_set_array", 8, [1])[:2], ("raises", "IndexError")))
        script.append(("_get_array(8) (no such array)", do("_get_array", 8)[:2], ("raises", "IndexError")))
        script.append(("[3, 1] = None (undefine)", do("__setitem__", (3, 1), None), ("ok", None)))
        script.append(("[3, 0:2] after the entry was undefined", getk(3, slice(0, 2)), ("ok", [5, None])))
        script.append(("init_new_array(4, 3) again (same length)", do("init_new_array", 4, 3), ("ok", None)))
        script.append(("[4, 0:3] of the array declared again with its old length", getk(4, slice(0, 3)), ("ok", [None, None, None])))
        script.append(("init_new_array(3, 1) again", do("init_new_array", 3, 1), ("ok", None)))
        script.append(("[3, 0:1] of the array declared again", getk(3, slice(0, 1)), ("ok", [None])))
        wrong = [(what, got, want) for what, got, want in script if got != want]
        ctx.check("C04.M", "Arrays:declare-write-read-replace", not wrong,
                  "the array store of the shared memory does not do what it is asked: " + "; ".join(f"{w_}: {g_!r}, expected {e_!r}" for w_, g_, e_ in wrong[:4]), arrays.loc(arrays.methods["__setitem__"]) if "__setitem__" in arrays.methods else None,
                  sample={"steps": len(script)})
    except AnalysisError as ex_:
        ctx.error("C04.M", f"Arrays cannot be executed: {ex_}")
    f = rg.methods.get("__getitem__")
    if f is not None:
        # executed abstractly: the stored value at a stored index, None at an index never written, IndexError outside 0..size-1
        from .. import circuit as C
        got = []
        try:
            for idx in (3, 4, 0, 16, -1):
                o = C.object_from_init(repo, rg, {"_register": {3: 41, 0: 0}, "_size": 16}, kind="self")
                try:
                    got.append(C.Interp(repo, ctx.ev, C.Scenario(), rg).call_function(rg.module, f, [idx], {}, self_obj=o))
                except C.EvalRaise as ex_:
                    got.append("raises")
        except AnalysisError as ex_:
            ctx.error("C04.M", f"RegisterGroup.__getitem__ cannot be evaluated: {ex_}")
            got = None
        if got is not None:
            ctx.check("C04.M", "RegisterGroup.__getitem__:value-at-index-or-None", got == [41, None, 0, "raises", "raises"],
                      f"RegisterGroup.__getitem__ gives {got} for a written index, an unwritten one, index 0 holding 0, and the two indices just outside the group", rg.loc(f))
    # SharedMemory writers used by ret_reg / ret_arr
    f = sh.methods.get("set_register")
    g_ = sh.methods.get("get_register")
    if f is not None:
        # executed: after set_register(r, v), with r a Register or its text, exactly bank r.name holds v at r.index; get_register reads it back
        from .. import circuit as C
        from ..model import EnumMember
        ctx.fn("SharedMemory.set_register")
        rn = repo.get_class("netqasm.lang.encoding", "RegisterName")
        rmem = ctx.ev.enum_members(rn)
        R_ = repo.module("netqasm.lang.operand").classes["Register"]
        mk = lambda bank, idx: C.Obj(R_, {"name": EnumMember(rn.qualname, bank, rmem[bank]), "index": idx})
        why = None
        try:
            for bank, idx, as_text in (("R", 3, False), ("C", 0, False), ("Q", 15, True), ("M", 0, True)):
                banks = {EnumMember(rn.qualname, b_, rmem[b_]): {1: 77} for b_ in rmem}  # (an enumeration member is its own key)
                o = C.object_from_init(repo, sh, {"_registers": banks}, kind="self")
                sc = C.Scenario()
                sc.overrides["parse_register"] = lambda text, bank=bank, idx=idx: mk(text[0], int(text[1:]))
                arg = f"{bank}{idx}" if as_text else mk(bank, idx)
                C.Interp(repo, ctx.ev, sc, sh).call_function(m, f, [arg, 41], {}, self_obj=o)
                want = {EnumMember(rn.qualname, b_, rmem[b_]): ({1: 77, idx: 41} if b_ == bank else {1: 77}) for b_ in rmem}
                if o.fields["_registers"] != want:
                    why = f"set_register({arg!r}, 41) leaves the banks as { {getattr(k_, 'name', k_): v_ for k_, v_ in o.fields['_registers'].items()} }"
                    break
                if g_ is not None:
                    back = C.Interp(repo, ctx.ev, sc, sh).call_function(m, g_, [arg], {}, self_obj=o)
                    other = C.Interp(repo, ctx.ev, sc, sh).call_function(m, g_, [mk(bank, 1)], {}, self_obj=o)
                    if back != 41 or other != 77:
                        why = f"get_register({arg!r}) reads {back!r} after 41 was stored there (and {other!r} at index 1, which holds 77)"
                        break
        except C.EvalRaise as ex_:
            why = f"raises {ex_}"
        except AnalysisError as ex_:
            ctx.error("C04.M", f"SharedMemory.set_register cannot be evaluated: {ex_}")
            why = "?"
        if why != "?":
            ctx.check("C04.M", "SharedMemory.set_register:stores-value", why is None, f"SharedMemory.set_register / get_register: {why}", sh.loc(f))
    f = sh.methods.get("set_array_part")
    if f is not None:
        pa, pi, pv = A.param_names(f)[1:4]
        mn, mx = _count_stores(f, lambda n: isinstance(n, ast.Assign) and A.norm(n.targets[0]) == f"self._arrays[{pa},{pi}]" and A.norm(n.value) == pv)
        ctx.check("C04.M", "SharedMemory.set_array_part:stores-value", (mn, mx) == (1, 1), f"SharedMemory.set_array_part stores the value {mn}..{mx} times per path", sh.loc(f))
    f = sh.methods.get("init_new_array")
    if f is not None:
        ctx.fn("SharedMemory.init_new_array")
        cfg = F.CFG(f)
        mn, mx = cfg.count_on_paths(lambda st: F.events_in(st, lambda n: isinstance(n, ast.Call) and A.norm(n.func) == "self._arrays.init_new_array"))
        sets = [n for n in ast.walk(f) if isinstance(n, ast.Call) and A.norm(n.func) == "self._arrays._set_array"]
        ok = (mn, mx) == (1, 1) and len(sets) == 1 and [A.norm(a) for a in sets[0].args] == ["address", "new_array"] and any((not pol) and A.norm(t) == "new_arrayisNone" for t, pol in G.path_conditions(f, sets[0]))
        ctx.check("C04.M", "SharedMemory.init_new_array:declares-then-fills", ok, "SharedMemory.init_new_array does not declare the array once and copy the returned array into it when one is given", sh.loc(f))
    su = m.functions.get("setup_registers")
    ok = False
    if su is not None:
        r = A.returns(su)
        ok = len(r) == 1 and isinstance(r[0].value, ast.DictComp) and A.norm(r[0].value.generators[0].iter) == "RegisterName" and A.norm(r[0].value.value) == "RegisterGroup()" and not r[0].value.generators[0].ifs
    ctx.check("C04.M", "setup_registers:one-group-per-bank", ok, "setup_registers does not create one fresh RegisterGroup per register bank", repo.loc(m, su) if su else "")


def run(ctx):
    try:
        table = handler_table(ctx)
    except DispatchUnread as ex_:
        table = None
        ctx.note(f"C04.H / C04.PC: {ex_} - the dispatch is written in a form these shape rules do not read; that every instruction is carried out and moves the counter by one is decided by C04.D")
    if table is not None:
        check_dispatch(ctx, table)
        check_pc(ctx, table)
    # (what every classical instruction does to registers, arrays, the counter and the shared memory - operand roles, predicates,
    # arithmetic, the None guards - is decided by C04.D on executed programs; how the handlers are written is not read)
    check_memory_primitives(ctx)
    check_fault_line(ctx)
    check_fault_rewrap(ctx, "C04.X")
    check_differential(ctx, "C04.D")
    # "execution stops at that instruction": a fault must leave the state untouched (rule shared with C13)
    from . import c13
    c13.check_fault_atomicity(ctx, "C04.F")
    # "qalloc and qfree bookkeeping": the in-use set is exactly the set of mapped physical qubits (rule shared with C13)
    c13.check_used_set(ctx, "C04.Q")
    # 0 is an ordinary id / value / address: nothing int-valued may be tested by truthiness (nqsa/truth.py)
    from .. import truth
    truth.check(ctx, "C04.Z", ['netqasm.backend.executor', 'netqasm.sdk.shared_memory'])
    # a value remembered for later calls is keyed by every argument it depends on (nqsa/memo.py)
    from .. import memo
    memo.check(ctx, "C04.K", ['netqasm.backend.executor', 'netqasm.sdk.shared_memory'])
    # no type test that an earlier type test has already decided (a subclass tested after its base class: nqsa/shadow.py)
    from .. import shadow
    shadow.check(ctx, "C04.H", ['netqasm.backend.executor', 'netqasm.sdk.shared_memory'])


X = "netqasm/backend/executor.py"
C = "netqasm/lang/instr/core.py"
SEEDS = [
    dict(id="c04-qalloc-marks-before-check", file=X, expect="C04.F", construct="_allocate_physical_qubit",
         old="        if unit_module[virtual_address] is None:\n            if physical_address is None:\n                physical_address = self._get_unused_physical_qubit()\n            self._used_physical_qubit_addresses.add(physical_address)\n            unit_module[virtual_address] = physical_address",
         new="        if physical_address is None:\n            physical_address = self._get_unused_physical_qubit()\n        if unit_module[virtual_address] is None:\n            self._used_physical_qubit_addresses.add(physical_address)\n            unit_module[virtual_address] = physical_address"),
    dict(id="c04-store-writes-before-index-check", file=X, expect="C04.F", construct="_instr_array",
         old="        length = self._get_register(app_id, instr.size)\n", new="        length = self._get_register(app_id, instr.size)\n        self._set_register(app_id, instr.size, length)\n"),
    dict(id="c04-lea-no-pc", file=X, expect="C04.PC", construct="_instr_lea", old="    @inc_program_counter\n    def _instr_lea(", new="    def _instr_lea("),
    dict(id="c04-bge-gt", file=C, expect="C04.D", construct="", old="        return a >= b", new="        return a > b"),
    dict(id="c04-bnz", file=C, expect="C04.D", construct="", old="        return a != 0", new="        return a > 0"),
    dict(id="c04-store-none", file=X, expect="C04.D", construct="",
         old="        if value is None:\n            raise RuntimeError(f\"value in register {register} is not defined\")\n", new=""),
    dict(id="c04-load-none", file=X, expect="C04.D", construct="",
         old="        if value is None:\n            raise RuntimeError(f\"array value at {array_entry} is not defined\")\n", new=""),
    # (a modulus guard of `< 0` instead of `< 1` still faults at the same instruction for modulus 0 - by the division itself: no difference the property speaks of)
    dict(id="c04-subm", file=X, expect="C04.D", construct="", old="            return (a - b) % mod", new="            return (b - a) % mod"),
    dict(id="c04-sub-operands", file=X, expect="C04.D", construct="",
         old="        a = self._get_register(app_id=app_id, register=instr.regin0)\n        b = self._get_register(app_id=app_id, register=instr.regin1)",
         new="        a = self._get_register(app_id=app_id, register=instr.regin1)\n        b = self._get_register(app_id=app_id, register=instr.regin0)"),
    dict(id="c04-alias-swapped", file=C, expect="C04.D", construct="", count=2,
         old="    @property\n    def regin0(self):\n        return self.reg1\n", new="    @property\n    def regin0(self):\n        return self.reg2\n"),
    dict(id="c04-branch-pc-twice", file=X, expect="C04.PC", construct="_handle_branch_instr",
         old="            self._program_counters[subroutine_id] = jump_address.value\n        else:", new="            self._program_counters[subroutine_id] = jump_address.value\n            self._program_counters[subroutine_id] += 1\n        else:"),
    dict(id="c04-branch-fallthrough", file=X, expect="C04.PC", construct="_handle_branch_instr",
         old="                f\"is False, with values from registers {registers}\"\n            )\n            self._program_counters[subroutine_id] += 1", new="                f\"is False, with values from registers {registers}\"\n            )"),
    dict(id="c04-fault-continue", file=X, expect="C04.E", construct="fault-stops",
         old="                self._handle_command_exception(exc, prog_counter, traceback_str)\n                break", new="                self._handle_command_exception(exc, prog_counter, traceback_str)\n                continue"),
    dict(id="c04-fault-line", file=X, expect="C04.E", construct="fault-line",
         old="self._handle_command_exception(exc, prog_counter, traceback_str)", new="self._handle_command_exception(exc, self._program_counters[subroutine_id], traceback_str)"),
    dict(id="c04-retreg-wrong-reg", file=X, expect="C04.D", construct="", old="        self._update_shared_memory(app_id=app_id, entry=register, value=value)", new="        self._update_shared_memory(app_id=app_id, entry=operand.Register(register.name, 0), value=value)"),
    # (the bounds of an array slice are used by wait_all and by the EPR instructions, not by the instructions of this property)
    dict(id="c04-dispatch-drop", file=X, expect="C04.H", construct="jmp",
         old="                isinstance(command, ins.core.JmpInstruction)\n                or isinstance(command, ins.core.BranchUnaryInstruction)", new="                isinstance(command, ins.core.BranchUnaryInstruction)"),
    dict(id="c04-decorator-before", file=X, expect="C04.PC", construct="inc_program_counter",
         old="        output = method(self, subroutine_id, instr)\n        if isinstance(output, GeneratorType):\n            output = yield from output\n        self._program_counters[subroutine_id] += 1\n",
         new="        self._program_counters[subroutine_id] += 1\n        output = method(self, subroutine_id, instr)\n        if isinstance(output, GeneratorType):\n            output = yield from output\n"),
    dict(id="c04-set-register-wrong-bank", file=X, expect="C04.D", construct="", old="        self._registers[app_id][register.name][register.index] = value", new="        self._registers[app_id][RegisterName.R][register.index] = value"),
]
SEEDS += [
    dict(id="c04-array-reuse", file="netqasm/sdk/shared_memory.py", expect="C04.M", construct="Arrays:declare", old="        _assert_within_width(address, ADDRESS_BITS)\n        self._arrays[address] = [None] * length", new="        _assert_within_width(address, ADDRESS_BITS)\n        if address in self._arrays and len(self._arrays[address]) == length:\n            return\n        self._arrays[address] = [None] * length"),
    dict(id="c04-register-store-skips-zero", file="netqasm/sdk/shared_memory.py", expect="C04.M", construct="RegisterGroup.__setitem__", old="        _assert_within_width(value, ADDRESS_BITS)\n        self._register[index] = value", new="        _assert_within_width(value, ADDRESS_BITS)\n        if value:\n            self._register[index] = value"),
]
BENIGN = [
    dict(id="c04-benign-assert-form", file=X, old="        if value is None:\n            raise RuntimeError(f\"value in register {register} is not defined\")\n", new="        assert value is not None, f\"value in register {register} is not defined\"\n"),
    dict(id="c04-benign-inline-local", file=X, old="        register = instr.reg\n        address = instr.address\n        self._logger.debug(f\"Storing address of {address} to register {register}\")\n        app_id = self._get_app_id(subroutine_id=subroutine_id)\n        self._set_register(app_id=app_id, register=register, value=address.address)",
         new="        app_id = self._get_app_id(subroutine_id=subroutine_id)\n        self._set_register(app_id, instr.reg, instr.address.address)"),
]
