"""C20 — toolbox circuits implement their documented operators (claimed in part).

T-sem on call sequences read from sdk/toolbox/*.py: the toolbox functions are
interpreted abstractly on qubit handles that record SDK gate calls; the
recorded sequence is multiplied out with the checker's semantics.
C20.Q  every Qubit gate method emits the instruction it is named after, on its
       own qubit (control = self, target = argument for two-qubit gates)
C20.T  toffoli_gate = Toffoli, t_inverse = T-dagger
C20.S  set_qubit_state = Rz(phi) Ry(theta)|0> = documented state
C20.A  float angles (set_qubit_state's theta, phi) are expanded by a greedy loop whose structural invariants hold
       (shared with C19) and emitted as one rotation per step
C20.P  parity_meas: for every Pauli string of length 1..3, with and without '-',
       the measurement operators are the projectors of that Pauli string
"""
from __future__ import annotations

import ast
import itertools
import math
from typing import Any, Dict, List, Tuple

import numpy as np

from .. import astutil as A
from .. import circuit as C
from ..model import AnalysisError, dotted, src
from . import c19

TECHNIQUE = "abstract interpretation of the toolbox functions read from the AST (recorded SDK gate calls) + checker-side operator semantics; method-to-instruction table check (static analysis)"
ENGINES = ["model", "circuit"]
EXPLANATION = (
    "toolbox/gates.py, measurements.py and state_prep.py are interpreted from their syntax trees on abstract qubit handles; every "
    "recorded gate call is an SDK method whose emitted instruction is checked against its name (Qubit.X -> GenericInstr.X on "
    "self.qubit_id, cnot: control = self, target = argument). The recorded Toffoli / T-inverse sequences are multiplied out; "
    "set_qubit_state is evaluated on an angle grid; parity_meas is interpreted for all 168 signed Pauli strings of length 1..3 and "
    "its Kraus operators <m|W V|0>_anc are compared with the projectors (1 +- P)/2 (sign flip applied as 1-m / add 1 mod 2). "
    "The float-angle expansion used by set_qubit_state is checked for the structural conditions of its tolerance (C19's rules, default tolerance)."
)
LEVEL_TEXT = (
    "Static analysis, partial: the circuits as written in the toolbox (and the SDK method -> instruction mapping) are decided for "
    "all Pauli strings up to length 3 and an angle grid. Not decided: the SDK-to-controller pipeline, outcome distributions on a "
    "simulator, the floating-point error of the float-angle decomposition (only its structural conditions, shared with C19, are decided)."
)
LEVEL_NOTE = "SDK gate methods are taken as the gates they name once C20.Q holds; checker operator semantics as in C07"
ASSUMPTIONS = [LEVEL_NOTE]
TB = "netqasm.sdk.toolbox."
GATE_METHODS = {"X": "x", "Y": "y", "Z": "z", "H": "h", "K": "k", "S": "s", "T": "t"}


def qubit(name):
    return C.Obj(None, {"name": name}, "qubit")


def run_fn(ctx, modname, fname, args, kwargs=None):
    repo, ev = ctx.repo, ctx.ev
    m = repo.module(modname)
    fn = m.functions.get(fname)
    if fn is None:
        raise AnalysisError(f"{modname}.{fname} not found")
    ctx.fn(f"{modname.split('.')[-1]}.{fname}")
    sc = C.Scenario()
    it = C.Interp(repo, ev, sc, None)
    ret = it.call_function(m, fn, args, kwargs or {})
    return ret, sc


def unitary(recorded, order: List[Any]) -> np.ndarray:
    n = len(order)
    pos = {id(q): i for i, q in enumerate(order)}
    U = np.eye(2 ** n, dtype=complex)
    for name, q, args, kwargs in recorded:
        if name in GATE_METHODS:
            U = C.embed(C.STATIC[GATE_METHODS[name]], [pos[id(q)]], n) @ U
        elif name in ("cnot", "cphase"):
            t = args[0] if args else kwargs.get("target")
            U = C.embed(C.STATIC[name], [pos[id(q)], pos[id(t)]], n) @ U
        elif name in ("rot_X", "rot_Y", "rot_Z"):
            if "angle" in kwargs and kwargs["angle"] is not None:
                th = kwargs["angle"]
            else:
                nn = kwargs.get("n", args[0] if args else 0)
                dd = kwargs.get("d", args[1] if len(args) > 1 else 0)
                th = nn * math.pi / 2 ** dd
            U = C.embed(C.rot(name[-1].lower(), th), [pos[id(q)]], n) @ U
        else:
            raise AnalysisError(f"toolbox circuit uses `{name}`, which has no operator semantics in the checker")
    return U


def check_methods(ctx):
    repo = ctx.repo
    qc = repo.get_class("netqasm.sdk.qubit", "Qubit")
    n = 0
    for meth in list(GATE_METHODS) + ["rot_X", "rot_Y", "rot_Z", "cnot", "cphase"]:
        fn = qc.methods.get(meth)
        if fn is None:
            ctx.check("C20.Q", f"Qubit.{meth}:exists", False, f"Qubit.{meth} not found", qc.loc())
            continue
        n += 1
        ctx.fn(f"Qubit.{meth}")
        calls = [c for c in A.calls_in(fn) if isinstance(c.func, ast.Attribute) and c.func.attr.startswith("_build_cmds_")]
        ok = False
        detail = "no builder call"
        if len(calls) == 1:
            kw = A.kwargs_of(calls[0])
            instr = kw.get("instr", kw.get("instruction"))
            want = f"GenericInstr.{meth.upper()}"
            if meth in ("cnot", "cphase"):
                tp = A.param_names(fn)[1]
                ok = instr is not None and A.norm(instr) == want and A.norm(kw.get("control_qubit_id", ast.Constant(value=0))) == "self.qubit_id" and A.norm(kw.get("target_qubit_id", ast.Constant(value=0))) == f"{tp}.qubit_id"
            elif meth.startswith("rot_"):
                ok = instr is not None and A.norm(instr) == want and A.norm(kw.get("virtual_qubit_id", ast.Constant(value=0))) == "self.qubit_id" and all(A.norm(kw.get(p, ast.Constant(value=0))) == p for p in ("n", "d", "angle"))
            else:
                ok = instr is not None and A.norm(instr) == want and A.norm(kw.get("qubit_id", ast.Constant(value=0))) == "self.qubit_id"
            detail = {k: src(v) for k, v in kw.items()}
        ctx.check("C20.Q", f"Qubit.{meth}:emits-its-own-instruction", ok, f"Qubit.{meth} builds {detail}; expected GenericInstr.{meth.upper()} on self.qubit_id (control = self, target = argument)", qc.loc(fn),
                  sample={"method": meth, "builder_call": detail})
    ctx.anchor("C20.Q", "Qubit gate methods", n, 12)
    # builder: single-qubit -> [register], two-qubit -> [control register, target register]
    b = repo.get_class("netqasm.sdk.builder", "Builder")
    f2 = b.methods.get("_build_cmds_two_qubit")
    ok = False
    if f2 is not None:
        d = A.single_defs(f2)
        sets = [(A.norm(c.args[0]), A.norm(c.args[1])) for c in A.calls_in(f2) if A.call_name(c) == "_build_cmds_set_register_value" and len(c.args) == 2]
        icmd = [c for c in A.calls_in(f2) if A.call_name(c) == "ICmd"]
        if len(icmd) == 1 and len(sets) == 2:
            ops = A.kwargs_of(icmd[0]).get("operands")
            regs = [A.norm(e) for e in ops.elts] if isinstance(ops, ast.List) else []
            p = A.param_names(f2)
            ok = regs == [sets[0][0], sets[1][0]] and sets[0][1] == p[2] and sets[1][1] == p[3] and A.norm(d.get(sets[0][0], ast.Constant(value=0))) != A.norm(d.get(sets[1][0], ast.Constant(value=0)))
    ctx.check("C20.Q", "Builder._build_cmds_two_qubit:operands=[control,target]", ok, "two-qubit commands are not emitted as [register holding the control id, register holding the target id] with distinct registers", b.loc(f2) if f2 else "")


def check_gates(ctx):
    c1, c2, t = qubit("control1"), qubit("control2"), qubit("target")
    _, sc = run_fn(ctx, TB + "gates", "toffoli_gate", [c1, c2, t])
    U = unitary(sc.recorded, [c1, c2, t])
    tof = np.eye(8, dtype=complex)
    tof[6:8, 6:8] = C.PX
    seq = [r[0] for r in sc.recorded]
    ctx.check("C20.T", "toffoli_gate", C.equal_up_to_phase(U, tof), f"toffoli_gate emits {len(seq)} gates whose product is not the Toffoli unitary (controls control1, control2; target)", "netqasm/sdk/toolbox/gates.py",
              sample={"gates": len(seq), "sequence_head": seq[:8]})
    q = qubit("q")
    _, sc = run_fn(ctx, TB + "gates", "t_inverse", [q])
    U = unitary(sc.recorded, [q])
    ctx.check("C20.T", "t_inverse", C.equal_up_to_phase(U, C.GT.conj().T), f"t_inverse emits {[r[0] for r in sc.recorded]}, whose product is not the adjoint of T", "netqasm/sdk/toolbox/gates.py", sample={"gates": [r[0] for r in sc.recorded]})


def check_state_prep(ctx):
    bad = None
    k = 0
    for theta in (0.0, 0.4, 1.1, math.pi / 2, 2.5, math.pi):
        for phi in (0.0, 0.7, math.pi / 2, 2.2, 3.9, -1.0):
            k += 1
            q = qubit("q")
            _, sc = run_fn(ctx, TB + "state_prep", "set_qubit_state", [q], {"phi": phi, "theta": theta})
            U = unitary(sc.recorded, [q])
            out = U @ np.array([1, 0], dtype=complex)
            exp = np.array([math.cos(theta / 2), np.exp(1j * phi) * math.sin(theta / 2)], dtype=complex)
            ov = abs(np.vdot(exp, out))
            if abs(ov - 1) > 1e-9:
                bad = bad or (theta, phi, [r[0] for r in sc.recorded])
    ctx.check("C20.S", "set_qubit_state", bad is None, f"set_qubit_state does not prepare cos(theta/2)|0> + e^(i phi) sin(theta/2)|1>: first failing (theta, phi, calls) = {bad}", "netqasm/sdk/toolbox/state_prep.py",
              sample={"angle grid": k, "first_bad": bad})
    # positional use must bind (qubit, phi, theta) as documented
    q = qubit("q")
    _, sc = run_fn(ctx, TB + "state_prep", "set_qubit_state", [q, 0.7, 1.1])
    U = unitary(sc.recorded, [q])
    out = U @ np.array([1, 0], dtype=complex)
    exp = np.array([math.cos(1.1 / 2), np.exp(0.7j) * math.sin(1.1 / 2)], dtype=complex)
    ctx.check("C20.S", "set_qubit_state:positional-order-phi-theta", abs(abs(np.vdot(exp, out)) - 1) < 1e-9, "set_qubit_state(q, phi, theta) called positionally does not prepare the documented state", "netqasm/sdk/toolbox/state_prep.py", trivial=True)


def pauli_string(s: str) -> np.ndarray:
    M = np.array([[1]], dtype=complex)
    for ch in s:
        M = np.kron(M, {"I": C.I2, "X": C.PX, "Y": C.PY, "Z": C.PZ}[ch])
    return M


def check_parity(ctx):
    n_runs = 0
    bad_total = 0
    for L in (1, 2, 3):
        for tup in itertools.product("IXYZ", repeat=L):
            for neg in (False, True):
                bases = ("-" if neg else "") + "".join(tup)
                n_runs += 1
                qs = [qubit(f"q{i}") for i in range(L)]
                try:
                    ret, sc = run_fn(ctx, TB + "measurements", "parity_meas", [qs, bases])
                except C.EvalRaise as e:
                    ctx.check("C20.P", f"parity_meas:{bases}", False, f"parity_meas({bases!r}) raises {e}", "netqasm/sdk/toolbox/measurements.py")
                    bad_total += 1
                    continue
                P = pauli_string("".join(tup))
                sign = -1 if neg else 1
                nonid = [i for i, ch in enumerate(tup) if ch != "I"]
                ok = True
                why = ""
                rec = sc.recorded
                meas = [i for i, r in enumerate(rec) if r[0] == "measure"]
                flips = [r for r in rec if r[0] == "future.add"]
                if not nonid:
                    ok = ret == (1 if neg else 0) and not meas
                    why = f"trivial string must return {1 if neg else 0} without measuring; returned {ret!r}"
                else:
                    if len(meas) != 1:
                        ok, why = False, f"{len(meas)} measurements"
                    else:
                        mi = meas[0]
                        mq = rec[mi][1]
                        anc = [r[1] for r in rec if r[0] == "__new__"]
                        order = qs + anc
                        before = [r for r in rec[:mi] if r[0] != "__new__"]
                        after = [r for r in rec[mi + 1:] if not r[0].startswith("future.")]
                        try:
                            V = unitary(before, order)
                            W = unitary(after, order)
                        except AnalysisError as e:
                            ok, why = False, str(e)
                            V = W = None
                        flipped = False
                        if isinstance(ret, C.Obj) and ret.kind == "future":
                            for f in flips:
                                a = f[2]
                                kw = f[3]
                                if f[1] is ret and a and a[0] == 1 and kw.get("mod") == 2:
                                    flipped = not flipped
                                else:
                                    ok, why = False, f"unexpected post-processing {f[0]}{a}{kw}"
                        else:
                            ok, why = False, f"returns {ret!r} instead of the measurement future"
                        if V is not None and ok:
                            n = len(order)
                            mpos = [i for i, q in enumerate(order) if q is mq][0]
                            inplace = rec[mi][3].get("inplace", False)
                            for m in (0, 1):
                                proj = C.embed(np.diag([1, 0] if m == 0 else [0, 1]).astype(complex), [mpos], n)
                                Kfull = W @ proj @ V
                                reported = (1 - m) if flipped else m
                                expected = (np.eye(2 ** L) + sign * ((-1) ** reported) * P) / 2
                                if anc:
                                    # ancilla starts in |0>, is measured destructively: <m|_anc K |0>_anc
                                    if mq is not anc[0] or inplace:
                                        ok, why = False, "the measured qubit is not the (destructively measured) ancilla"
                                        break
                                    dimd = 2 ** L
                                    Kd = np.zeros((dimd, dimd), dtype=complex)
                                    for r_ in range(dimd):
                                        for c_ in range(dimd):
                                            Kd[r_, c_] = Kfull[(r_ << 1) | m, (c_ << 1) | 0]
                                else:
                                    if not inplace:
                                        ok, why = False, "single-qubit case must measure in place"
                                        break
                                    Kd = Kfull
                                # Kraus operator must equal the projector up to a phase
                                if np.allclose(expected, 0):
                                    good = np.allclose(Kd, 0, atol=1e-9)
                                else:
                                    good = C.equal_up_to_phase(Kd, expected)
                                if not good:
                                    ok, why = False, f"outcome {reported}: the Kraus operator is not the projector (1 {'+' if sign * (-1) ** reported > 0 else '-'} {''.join(tup)})/2"
                                    break
                if not ok:
                    bad_total += 1
                ctx.check("C20.P", f"parity_meas:{bases}", ok, f"parity_meas(qubits, {bases!r}): {why}", "netqasm/sdk/toolbox/measurements.py",
                          sample={"bases": bases, "calls": [r[0] for r in rec][:12]} if n_runs % 40 == 1 else None, trivial=(n_runs > 60 and ok))
    ctx.anchor("C20.P", "signed Pauli strings of length 1..3", n_runs, 168)


def check_outcome_arrays(ctx, rule="C20.F"):
    """The parity (and every measurement outcome) reaches the program through a Future that reads its own one-entry array lazily, also
    after later flushes.  That only works while no later subroutine declares the same array address again: the memory manager's
    addresses must be fresh for the lifetime of the connection.  Decided by executing (checker's interpreter) the repository's
    MemoryManager: addresses handed out before and after reset() - what every flush and compile calls through Builder._reset() -
    are pairwise distinct."""
    from .. import circuit as C
    repo = ctx.repo
    mmc = repo.get_class("netqasm.sdk.memmgr", "MemoryManager")
    bc = repo.get_class("netqasm.sdk.builder", "Builder")
    get = mmc.methods.get("get_new_array_address")
    rs = bc.methods.get("_reset")
    if get is None or rs is None:
        raise AnalysisError("MemoryManager.get_new_array_address / Builder._reset not found")
    ctx.fn("MemoryManager.get_new_array_address")
    try:
        mem = C.object_from_init(repo, mmc, {}, kind="obj")
        bld = C.object_from_init(repo, bc, {"_mem_mgr": mem}, kind="self")
        sc = C.Scenario()
        sc.plain_registers = True
        seen = []
        for flush in range(3):
            for _ in range(2 + flush):
                seen.append(C.Interp(repo, ctx.ev, sc, mmc).call_function(mmc.module, get, [], {}, self_obj=mem))
            C.Interp(repo, ctx.ev, sc, bc).call_function(bc.module, rs, [], {}, self_obj=bld)
        seen.append(C.Interp(repo, ctx.ev, sc, mmc).call_function(mmc.module, get, [], {}, self_obj=mem))
        ok = all(isinstance(a_, int) and not isinstance(a_, bool) and a_ >= 0 for a_ in seen) and len(set(seen)) == len(seen)
        ctx.check(rule, "MemoryManager.get_new_array_address:fresh-for-the-lifetime-of-the-connection", ok,
                  f"array addresses handed out over three flushes are {seen}: an address is handed out again after a flush, so a later subroutine re-declares and returns the array an earlier "
                  "outcome Future still reads - the earlier parity / measurement outcome silently becomes the later one", mmc.loc(get), sample={"addresses": seen})
    except C.EvalRaise as ex_:
        ctx.check(rule, "MemoryManager.get_new_array_address:fresh-for-the-lifetime-of-the-connection", False, f"raises {ex_}", mmc.loc(get))
    except AnalysisError as ex_:
        ctx.error(rule, f"MemoryManager cannot be evaluated: {ex_}")


def run(ctx):
    check_methods(ctx)
    check_gates(ctx)
    check_state_prep(ctx)
    # "within the angle tolerance": set_qubit_state passes float angles, so the structural conditions of the greedy
    # expansion (C19's rules, for the default tolerance) and the one-rotation-per-step emission are obligations here too
    c19.check_expansion(ctx, rule="C20.A", default_tolerance_only=True)
    c19.check_builder(ctx, rule="C20.A")
    check_parity(ctx)
    check_outcome_arrays(ctx, "C20.F")


G = "netqasm/sdk/toolbox/gates.py"
MS = "netqasm/sdk/toolbox/measurements.py"
SP = "netqasm/sdk/toolbox/state_prep.py"
QB = "netqasm/sdk/qubit.py"
SEEDS = [
    dict(id="c20-tinv-6", file=G, expect="C20.T", construct="t_inverse", old="    for _ in range(7):", new="    for _ in range(6):"),
    dict(id="c20-toffoli-drop", file=G, expect="C20.T", construct="toffoli_gate", old="    control2.T()\n    target.T()\n    target.H()", new="    control2.T()\n    target.H()"),
    dict(id="c20-toffoli-ctrl", file=G, expect="C20.T", construct="toffoli_gate", old="    control1.cnot(control2)\n    control1.T()", new="    control2.cnot(control1)\n    control1.T()"),
    dict(id="c20-state-order", file=SP, expect="C20.S", construct="set_qubit_state", old="    qubit.rot_Y(angle=theta)\n    qubit.rot_Z(angle=phi)", new="    qubit.rot_Z(angle=phi)\n    qubit.rot_Y(angle=theta)"),
    dict(id="c20-state-swapped", file=SP, expect="C20.S", construct="set_qubit_state", old="    qubit.rot_Y(angle=theta)\n    qubit.rot_Z(angle=phi)", new="    qubit.rot_Y(angle=phi)\n    qubit.rot_Z(angle=theta)"),
    dict(id="c20-parity-y-basis", file=MS, expect="C20.P", construct="parity_meas", old="        elif B == \"Y\":\n            flip_basis[i] = \"K\"", new="        elif B == \"Y\":\n            flip_basis[i] = \"H\""),
    dict(id="c20-parity-cnot-dir", file=MS, expect="C20.P", construct="parity_meas", old="            qubits[i].cnot(anc)", new="            anc.cnot(qubits[i])"),
    dict(id="c20-parity-no-flip-back", file=MS, expect="C20.P", construct="parity_meas", old="        # # Flip the qubit back\n        if flip_basis[q_index] == \"H\":\n            q.H()", new="        # # Flip the qubit back\n        if flip_basis[q_index] == \"K\":\n            q.H()"),
    dict(id="c20-parity-sign", file=MS, expect="C20.P", construct="parity_meas:-", old="            m.add(1, mod=2)", new="            m.add(2, mod=2)"),
    dict(id="c20-parity-z-skipped", file=MS, expect="C20.P", construct="parity_meas", old="        elif B == \"Z\":\n            non_identity_bases.append(i)", new="        elif B == \"Z\":\n            pass"),
    dict(id="c20-qubit-cnot-swapped", file=QB, expect="C20.Q", construct="Qubit.cnot", old="            instr=GenericInstr.CNOT,\n            control_qubit_id=self.qubit_id,\n            target_qubit_id=target.qubit_id,", new="            instr=GenericInstr.CNOT,\n            control_qubit_id=target.qubit_id,\n            target_qubit_id=self.qubit_id,"),
    dict(id="c20-qubit-k-is-h", file=QB, expect="C20.Q", construct="Qubit.K", old="            instr=GenericInstr.K, qubit_id=self.qubit_id", new="            instr=GenericInstr.H, qubit_id=self.qubit_id"),
]
BENIGN = []
