"""C01 — binary codec lossless and uniquely decodable per flavour.

C01.U  opcode / mnemonic uniqueness per flavour (T-table, exhaustive)
C01.P  symbolic encode∘decode identity per operand shape (T-compose), one
       level down on operand.py as well
C01.F  framing: metadata + 7-byte chunks, dispatch on the peeked opcode
"""
from __future__ import annotations

import ast
from typing import Dict, List, Optional

from .. import astutil as A
from .. import instrs as I
from .. import wire
from ..model import AnalysisError, CArray, CScalar, CStructRef, Unknown, dotted, src

TECHNIQUE = "every instruction class's own serialize / deserialize_from executed by the checker's AST interpreter over a model of ctypes structures on enumerated operands (round trip, refusal outside every field's width, framing); opcode / mnemonic uniqueness from the evaluated flavour tables (static analysis; abstract execution)"
EXPLANATION = (
    "Reads flavour.py / base.py / core.py / vanilla.py / nv.py / operand.py / encoding.py / binary.py / subroutine.py "
    "with ast. C01.U: per flavour the multiset of opcode and mnemonic defaults (through the dataclass MRO) has no "
    "duplicate. C01.P: for every operand shape the serialize() field map composed with the deserialize_from() field "
    "map is the identity on every dataclass field through a listed inverse pair, same struct both ways, every "
    "non-padding struct field covered; same rule on the operand classes. C01.F: metadata/chunk framing and opcode "
    "dispatch are coherent between Subroutine.cstructs and Deserializer."
    ' Each Flavour instance must own its opcode and mnemonic tables (no aliasing of a shared container that is then updated). C01.R: every value an encoder accepts is representable in the field it is written to (the guard/sink obligations of C16).'
    ' C01.F accepts every list form of cstructs ([h] + [...], [h, *...]) and a kept header only when every writer of _app_id / _netqasm_version drops it.'
    ' The chunking of deserialize_subroutine is evaluated for lengths of 0, 1, 3 and 10 commands (every chunk must be data[k*7:(k+1)*7]).'
    ' C01.F executes deserialize_subroutine as a whole on byte strings of 0, 1, 3 and 10 commands with ragged tails of 0, 1 and 6 bytes: chunk contents and order, refusal of a ragged tail, the fields of the Subroutine built.'
)
ASSUMPTIONS = [
    "operands are inside their encodable ranges (that is C16)",
    "ctypes scalar and bit-field stores are injective on the field's range",
    "lineno is not encoded and not part of the claim",
]


def _classify_ser(e):
    if A.is_self_attr(e, "id"):
        return ("opcode",)
    if isinstance(e, ast.Attribute) and A.is_self_attr(e.value):
        if e.attr == "cstruct":
            return ("cstruct", e.value.attr)
        if e.attr == "value":
            return ("value", e.value.attr)
    if A.is_self_attr(e):
        return ("ident", e.attr)
    return None


def _classify_des(repo, m, e, sv):
    """e: expanded ctor argument. sv: name of the decoded struct variable."""
    if dotted(e) == "cls.id":
        return ("opcode",)

    def struct_field(x):
        if isinstance(x, ast.Attribute) and isinstance(x.value, ast.Name) and x.value.id == sv:
            return x.attr
        return None

    f = struct_field(e)
    if f is not None:
        return ("ident", f, None)
    if isinstance(e, ast.Call):
        if isinstance(e.func, ast.Attribute) and e.func.attr == "from_raw" and len(e.args) == 1 and not e.keywords:
            f = struct_field(e.args[0])
            c = repo.resolve_class(m, e.func.value)
            if f is not None and c is not None:
                return ("from_raw", f, c.name)
        c = repo.resolve_class(m, e.func)
        if c is not None:
            arg = None
            if len(e.args) == 1 and not e.keywords:
                arg = e.args[0]
            elif not e.args and len(e.keywords) == 1 and e.keywords[0].arg == "value":
                arg = e.keywords[0].value
            if arg is not None:
                f = struct_field(arg)
                if f is not None:
                    return ("ctor", f, c.name)
    return None


def check_uniqueness(ctx):
    repo, ev = ctx.repo, ctx.ev
    fl = I.flavours(repo)
    ctx.anchor("C01.U", "flavour classes", len(fl), 3)
    n_core = 0
    for fname, (fc, core, spec) in sorted(fl.items()):
        n_core = len(core)
        by_id: Dict[int, List] = {}
        by_mn: Dict[str, List] = {}
        for c in core + spec:
            ctx.fn(c.qualname)
            try:
                cid = I.field_default(repo, ev, c, "id")
                mn = I.field_default(repo, ev, c, "mnemonic")
            except Unknown as e:
                raise AnalysisError(f"cannot evaluate id/mnemonic of {c.name}: {e}")
            ok = isinstance(cid, int) and 0 <= cid <= 255 and isinstance(mn, str) and mn != ""
            ctx.check("C01.U", f"{fname}:{c.module.name.split('.')[-1]}.{c.name}:concrete", ok,
                      f"{c.name} registered in {fname} has id={cid!r} mnemonic={mn!r} (must be a concrete opcode 0..255 and a mnemonic)",
                      c.loc(), sample={"flavour": fname, "class": c.name, "id": cid, "mnemonic": mn})
            by_id.setdefault(cid, []).append((c, mn))
            by_mn.setdefault(mn, []).append((c, cid))
        for cid, lst in sorted(by_id.items(), key=lambda kv: str(kv[0])):
            classes = {c.qualname for c, _ in lst}
            if len(classes) > 1:
                mns = "/".join(sorted(str(mn) for _, mn in lst))
                ctx.check("C01.U", f"{fname}:opcode-collision:{mns}", False,
                          f"{fname}: opcode {cid} is shared by {', '.join(sorted(c.name + '(' + str(mn) + ')' for c, mn in lst))}; "
                          f"the later entry overrides the earlier in id_map, so the earlier instruction decodes as the later",
                          lst[-1][0].loc(), facts={"opcode": cid, "classes": sorted(classes)})
        for mn, lst in sorted(by_mn.items(), key=lambda kv: str(kv[0])):
            classes = {c.qualname for c, _ in lst}
            if len(classes) > 1:
                ctx.check("C01.U", f"{fname}:mnemonic-collision:{mn}", False,
                          f"{fname}: mnemonic {mn!r} is shared by {sorted(classes)}", lst[-1][0].loc())
        ctx.check("C01.U", f"{fname}:table", True, sample={"flavour": fname, "opcodes": len(by_id), "classes": len(core + spec)})
    ctx.anchor("C01.U", "CORE_INSTRUCTIONS", n_core, 30)
    ctx.anchor("C01.U", "VanillaFlavour specific", len(fl.get("VanillaFlavour", (None, [], []))[2]), 13)
    ctx.anchor("C01.U", "NVFlavour specific", len(fl.get("NVFlavour", (None, [], []))[2]), 5)
    check_flavour_tables(ctx, "C01.U")


def check_flavour_tables(ctx, rule="C01.U"):
    """Each Flavour instance resolves opcodes and mnemonics through tables of its own (shared by C01.U, C02.O, C17.N: decoding, the
    published opcodes and the parser's mnemonic lookup all go through get_instr_by_id / get_instr_by_name).  Decided by executing the
    flavour constructors and lookups in the checker's interpreter, all flavours in one scenario (module- and class-level objects are
    shared as in a process): every class a flavour lists is found under its opcode and under its mnemonic (the flavour-specific
    class winning over a core class with the same key), and constructing the other flavours afterwards changes nothing in a
    flavour constructed before."""
    from .. import circuit as C
    repo, ev = ctx.repo, ctx.ev
    fc = repo.get_class(I.FLAVOUR_MOD, "Flavour")
    ctx.fn("Flavour.__init__")
    sc = C.Scenario()
    sc.run_constructors, sc.max_depth, sc.plain_registers = True, 40, True
    flv = sorted(I.flavours(repo).items())

    def lookups(fname, obj, core, spec):
        want_id, want_name = {}, {}
        for c in core + spec:
            want_id[I.field_default(repo, ev, c, "id")] = c
            want_name[I.field_default(repo, ev, c, "mnemonic")] = c
        bad = []
        for meth, want in (("get_instr_by_id", want_id), ("get_instr_by_name", want_name)):
            for k_, c in sorted(want.items(), key=lambda kv: str(kv[0])):
                try:
                    got = C.Interp(repo, ev, sc, None).method(obj, meth, [k_], {}, None)
                except C.EvalRaise as ex_:
                    got = f"raises {ex_.exc_name}"
                if not (isinstance(got, tuple) and got[0] == "class" and got[1] is c):
                    bad.append(f"{fname}.{meth}({k_!r}) gives {got[1].name if isinstance(got, tuple) and got[0] == 'class' else got}, the flavour lists {c.name}")
        return bad

    try:
        objs = {}
        first_bad = {}
        for fname, (fcls, core, spec) in flv:
            objs[fname] = C.Interp(repo, ev, sc, None).construct(fcls, [], {}, None)
            first_bad[fname] = lookups(fname, objs[fname], core, spec)
        keyed = [b_ for f_ in first_bad.values() for b_ in f_]
        ctx.check(rule, "Flavour.__init__:tables-keyed-by-id-and-mnemonic", not keyed,
                  f"a flavour does not find the classes it lists under their opcode / mnemonic: {'; '.join(keyed[:3])}", fc.loc())
        # after all flavours exist, the ones constructed first still answer as they did
        later = []
        for fname, (fcls, core, spec) in flv:
            now = lookups(fname, objs[fname], core, spec)
            later.extend(x_ for x_ in now if x_ not in first_bad[fname])
        for table in ("id_map", "name_map"):
            mine = [x_ for x_ in later if ("get_instr_by_id" in x_) == (table == "id_map")]
            ctx.check(rule, f"Flavour.__init__:{table}:owned-by-the-instance", not mine,
                      f"constructing another flavour changes how an existing one {'decodes opcodes' if table == 'id_map' else 'resolves mnemonics'}: {'; '.join(mine[:3])} "
                      "(the instances alias one table)", fc.loc(), sample={"table": table})
    except AnalysisError as ex_:
        ctx.error(rule, f"the flavour tables cannot be evaluated: {ex_}")


def check_shapes(ctx):
    repo, ev = ctx.repo, ctx.ev
    shapes = {}
    n_cls = 0
    for c in I.all_registered(repo):
        n_cls += 1
        so = I.shape_owner(repo, c, "serialize")
        do = I.shape_owner(repo, c, "deserialize_from")
        oo = I.shape_owner(repo, c, "operands")
        ok = so is not None and so is do
        ctx.check("C01.P", f"{c.name}:codec-pair-from-one-shape", ok,
                  f"{c.name}: serialize comes from {so.name if so else None} but deserialize_from from {do.name if do else None}", c.loc(), trivial=True)
        if so is not None and so is do:
            shapes.setdefault(so.qualname, (so, []))[1].append(c)
    ctx.anchor("C01.P", "operand shape classes in use", len(shapes), 16)
    for q, (s, users) in sorted(shapes.items()):
        ctx.fn(q + ".serialize")
        ctx.fn(q + ".deserialize_from")
        ser = I.analyse_serialize(repo, s, s.methods["serialize"])
        des = I.analyse_deserialize(repo, s, s.methods["deserialize_from"])
        for p in ser.problems + des.problems:
            ctx.error("C01.P", f"{s.name}: {p} ({s.loc()})")
        if ser.struct is None or des.struct is None:
            continue
        ctx.check("C01.P", f"{s.name}:same-struct", ser.struct is des.struct,
                  f"{s.name}.serialize writes {ser.struct.name} but deserialize_from reads {des.struct.name}", s.loc(des.fn))
        sfields = wire.struct_fields(ev, ser.struct)
        names = [n for n, _, _ in sfields]
        # positional args -> names
        fmap = {}
        for k, v in ser.fields.items():
            if k.startswith("_pos"):
                idx = int(k[4:])
                if idx >= len(names):
                    ctx.error("C01.P", f"{s.name}.serialize: too many positional struct arguments")
                    continue
                k = names[idx]
            if k not in names:
                ctx.check("C01.P", f"{s.name}:serialize:{k}", False, f"{s.name}.serialize passes {k}= which is not a field of {ser.struct.name}", s.loc(ser.fn))
                continue
            fmap[k] = v
        wr = {}  # struct field -> classification
        for k, v in fmap.items():
            cl = _classify_ser(v)
            if cl is None:
                ctx.error("C01.P", f"{s.name}.serialize: unrecognised expression for struct field {k}: {src(v)}")
                continue
            wr[k] = cl
        rd = {}  # ctor kw -> classification
        for k, v in des.kwargs.items():
            cl = _classify_des(repo, s.module, v, des.struct_var)
            if cl is None:
                ctx.error("C01.P", f"{s.name}.deserialize_from: unrecognised expression for {k}: {src(v)}")
                continue
            rd[k] = cl
        ftypes = {n: (t, b) for n, t, b in sfields}
        ops = I.operand_fields(repo, s)
        covered = set()
        for attr, ann, _k in ops:
            types = I.ann_types(ann)
            writers = [f for f, cl in wr.items() if cl[0] != "opcode" and cl[1] == attr]
            key = f"{s.name}.{attr}"
            if len(writers) != 1:
                ctx.check("C01.P", f"{key}:written-once", False,
                          f"{s.name}.serialize writes operand {attr} to {len(writers)} struct fields {writers} (must be exactly one)", s.loc(ser.fn))
                continue
            f = writers[0]
            covered.add(f)
            wkind = wr[f][0]
            r = rd.get(attr)
            if r is None:
                ctx.check("C01.P", f"{key}:read-back", False, f"{s.name}.deserialize_from does not pass {attr}= to the constructor", s.loc(des.fn))
                continue
            if r[0] == "opcode":
                ctx.check("C01.P", f"{key}:read-back", False, f"{s.name}.deserialize_from fills {attr} with the opcode", s.loc(des.fn))
                continue
            rkind, rfield, rcls = r
            ok_field = rfield == f
            ctx.check("C01.P", f"{key}:same-field", ok_field,
                      f"{s.name}: operand {attr} is written to struct field {f!r} but read back from {rfield!r}", s.loc(des.fn),
                      sample={"shape": s.name, "attr": attr, "struct": ser.struct.name, "field": f, "writer": wkind, "reader": rkind})
            # inverse pair
            t, bits = ftypes[f]
            if wkind == "cstruct":
                ok = rkind == "from_raw" and rcls in types and isinstance(t, CStructRef)
                why = f"writer .cstruct needs reader {types}.from_raw on a struct field; reader is {rkind} {rcls} on {wire.kind_name(t)}"
                if ok:
                    # operand class's cstruct must construct exactly the field's struct type
                    oc = repo.resolve_class(s.module, rcls)
                    built = _operand_struct(repo, oc) if oc else None
                    ok = built is not None and built.qualname == t.qualname
                    why = f"{rcls}.cstruct builds {built.name if built else None} but struct field {f} has type {wire.kind_name(t)}"
            elif wkind == "value":
                ok = rkind == "ctor" and rcls in types and isinstance(t, CScalar) and bits is None
                why = f"writer .value needs reader {types}(value=field) on a scalar field; reader is {rkind} {rcls} on {wire.kind_name(t)}"
            else:
                ok = rkind == "ident" and isinstance(t, CScalar)
                why = f"writer passes {attr} unchanged, reader is {rkind}"
            ctx.check("C01.P", f"{key}:inverse-pair", ok, f"{s.name}.{attr}: {why}", s.loc(des.fn))
        # opcode
        opf = [f for f, cl in wr.items() if cl[0] == "opcode"]
        ctx.check("C01.P", f"{s.name}:opcode-written", len(opf) == 1 and opf[0] == names[0],
                  f"{s.name}.serialize must store self.id in the first struct field {names[0]!r}; stores it in {opf}", s.loc(ser.fn))
        covered.update(opf)
        for n, t, b in sfields:
            if n in wire.PADDING_NAMES:
                continue
            if isinstance(t, CArray) and t.n == 0:
                continue
            if n not in covered:
                ctx.check("C01.P", f"{s.name}:struct-field-covered:{n}", False,
                          f"{ser.struct.name}.{n} is not written from any operand of {s.name}", s.loc(ser.fn))
        extra = [k for k in rd if k not in [a for a, _, _ in ops] and k != "id"]
        ctx.check("C01.P", f"{s.name}:ctor-keywords", not extra, f"{s.name}.deserialize_from passes unknown constructor keywords {extra}", s.loc(des.fn), trivial=True)
        if "id" in rd:
            ctx.check("C01.P", f"{s.name}:ctor-id", rd["id"][0] == "opcode", f"{s.name}.deserialize_from passes id= something other than cls.id", s.loc(des.fn), trivial=True)
    return shapes


def _operand_struct(repo, oc):
    r = repo.lookup(oc, "cstruct")
    if r is None:
        return None
    for ret in A.returns(r[1]):
        if isinstance(ret.value, ast.Call):
            return repo.resolve_class(r[0].module, ret.value.func)
    return None


def check_operands(ctx):
    repo, ev = ctx.repo, ctx.ev
    m = repo.module(I.OPERAND_MOD)
    n = 0
    for c in m.classes.values():
        if "cstruct" not in c.methods or "from_raw" not in c.methods:
            continue
        n += 1
        ctx.fn(c.qualname + ".cstruct")
        ctx.fn(c.qualname + ".from_raw")
        sc = _operand_struct(repo, c)
        if sc is None:
            ctx.error("C01.P", f"operand {c.name}.cstruct does not return an encoding struct")
            continue
        ret = A.returns(c.methods["cstruct"])[0].value
        sfields = [(nm, t, b) for nm, t, b in wire.struct_fields(ev, sc)]
        names = [nm for nm, _, _ in sfields]
        fmap = {}
        for i, a in enumerate(ret.args):
            if i < len(names):
                fmap[names[i]] = a
        for k, v in A.kwargs_of(ret).items():
            fmap[k] = v
        fr = c.methods["from_raw"]
        params = A.param_names(fr)
        rawname = params[1] if len(params) > 1 else "raw"
        defs = A.single_defs(fr)
        rets = A.returns(fr)
        if len(rets) != 1:
            ctx.error("C01.P", f"operand {c.name}.from_raw has {len(rets)} returns")
            continue
        call = A.expand(rets[0].value, defs)
        if not isinstance(call, ast.Call) or dotted(call.func) != "cls":
            ctx.error("C01.P", f"operand {c.name}.from_raw does not return cls(...)")
            continue
        dfields = [(nm, ann) for nm, ann, val, k in repo.dataclass_fields(c)]
        kw = A.kwargs_of(call)
        for i, a in enumerate(call.args):
            if i < len(dfields):
                kw[dfields[i][0]] = a
        # raw arg type check
        raw_ann = fr.args.args[1].annotation if len(fr.args.args) > 1 else None
        if raw_ann is not None:
            rc = repo.resolve_class(m, raw_ann)
            ctx.check("C01.P", f"operand.{c.name}:raw-type", rc is sc, f"{c.name}.from_raw is annotated to read {src(raw_ann)} but cstruct builds {sc.name}", c.loc(fr), trivial=True)
        covered = set()
        for attr, ann in dfields:
            types = I.ann_types(ann)
            key = f"operand.{c.name}.{attr}"
            writers = []
            for f, e in fmap.items():
                cl = _classify_ser(e)
                if cl is None:
                    ctx.error("C01.P", f"{c.name}.cstruct: unrecognised expression {src(e)}")
                    continue
                if cl[0] != "opcode" and cl[1] == attr:
                    writers.append((f, cl[0]))
            if len(writers) != 1:
                ctx.check("C01.P", f"{key}:written-once", False, f"{c.name}.cstruct writes {attr} to {len(writers)} fields", c.loc(c.methods['cstruct']))
                continue
            f, wkind = writers[0]
            covered.add(f)
            e = kw.get(attr)
            r = _classify_des(repo, m, e, rawname) if e is not None else None
            if r is None or r[0] == "opcode":
                ctx.check("C01.P", f"{key}:read-back", False, f"{c.name}.from_raw does not rebuild {attr} from the raw struct ({src(e) if e is not None else 'missing'})", c.loc(fr))
                continue
            rkind, rfield, rcls = r
            ctx.check("C01.P", f"{key}:same-field", rfield == f, f"{c.name}: {attr} written to {sc.name}.{f} but read from {sc.name}.{rfield}", c.loc(fr),
                      sample={"operand": c.name, "attr": attr, "field": f, "writer": wkind, "reader": rkind})
            t, bits = next((t, b) for nm, t, b in sfields if nm == f)
            if wkind == "ident":
                ok = rkind == "ident" and isinstance(t, CScalar)
            elif wkind == "value":
                enum_ok = False
                if rkind == "ctor" and rcls in types:
                    ec = repo.resolve_class(m, rcls)
                    enum_ok = ec is not None and ev.is_enum(ec)
                    if enum_ok:
                        # every member value must fit the bit-field
                        width = bits if bits is not None else 8 * t.size
                        vals = list(ev.enum_members(ec).values())
                        enum_ok = len(set(vals)) == len(vals) and all(isinstance(v, int) and 0 <= v < (1 << width) for v in vals)
                ok = enum_ok
            else:  # cstruct
                ok = rkind == "from_raw" and rcls in types and isinstance(t, CStructRef)
                if ok:
                    oc = repo.resolve_class(m, rcls)
                    built = _operand_struct(repo, oc) if oc else None
                    ok = built is not None and built.qualname == t.qualname
            ctx.check("C01.P", f"{key}:inverse-pair", ok, f"{c.name}.{attr}: writer {wkind} / reader {rkind} {rcls} on field {f} is not a listed inverse pair for {types}", c.loc(fr))
        for nm, t, b in sfields:
            if nm in wire.PADDING_NAMES:
                continue
            if nm not in covered:
                ctx.check("C01.P", f"operand.{c.name}:struct-field-covered:{nm}", False, f"{sc.name}.{nm} is not written by {c.name}.cstruct", c.loc())
    ctx.anchor("C01.P", "operand classes with cstruct/from_raw", n, 4)


def cstructs_parts(ctx, sub, cs, rule):
    """(header expression, comprehension over the instructions) of the list Subroutine.cstructs returns, whatever form the
    list is written in: `[h] + [..for..]`, `[h, *(..for..)]`, `[h] + list(..for..)`; single-definition locals expanded"""
    defs = A.single_defs(cs)
    rets = A.returns(cs)
    if len(rets) != 1:
        raise AnalysisError("Subroutine.cstructs: expected one return")
    e = A.expand(rets[0].value, defs)
    head = rest = None
    if isinstance(e, ast.BinOp) and isinstance(e.op, ast.Add) and isinstance(e.left, ast.List) and len(e.left.elts) == 1:
        head, rest = e.left.elts[0], e.right
    elif isinstance(e, ast.List) and len(e.elts) == 2 and isinstance(e.elts[1], ast.Starred):
        head, rest = e.elts[0], e.elts[1].value
    if isinstance(rest, ast.Call) and dotted(rest.func) == "list" and len(rest.args) == 1:
        rest = rest.args[0]
    if head is None or not isinstance(rest, (ast.ListComp, ast.GeneratorExp)):
        ctx.error(rule, f"Subroutine.cstructs return has an unrecognised shape: {src(rets[0].value)}")
        return None, None
    return head, rest


def check_header(ctx, rule, sub, cs, md):
    """the first element is an encoding.Metadata built in this very call from the subroutine's current version and app id"""
    repo, ev = ctx.repo, ctx.ev
    if A.is_self_attr(md):
        # a header kept on the object: accepted when it is filled here and dropped by every method that changes what it encodes
        cache = md.attr
        fills = [st.value for st in A.body_nodes(cs) if isinstance(st, ast.Assign) and A.is_self_attr(st.targets[0], cache) and isinstance(st.value, ast.Call)]
        stale = []
        for mname, mfn in sorted(sub.methods.items()):
            stored = {t.attr for st in A.body_nodes(mfn) if isinstance(st, (ast.Assign, ast.AnnAssign, ast.AugAssign))
                      for t in (st.targets if isinstance(st, ast.Assign) else [st.target]) if A.is_self_attr(t)}
            if stored & {"_app_id", "_netqasm_version"} and cache not in stored:
                stale.append(mname)
        ctx.check(rule, "Subroutine.cstructs:kept-header-is-dropped-when-its-fields-change", len(fills) == 1 and not stale,
                  f"cstructs hands out the header kept in self.{cache}, but {', '.join(stale) or 'nothing'} changes the app id / version without dropping it: "
                  "the bytes then carry an app id the subroutine no longer has", sub.loc(cs), sample={"cache": cache, "writers that keep it": stale})
        if len(fills) != 1:
            return
        md = fills[0]
    mc = repo.resolve_class(sub.module, md.func) if isinstance(md, ast.Call) else None
    ok = mc is not None and mc.name == "Metadata" and mc.module.name == I.ENC_MOD
    ctx.check(rule, "Subroutine.cstructs:metadata-first", ok,
              f"the first element of cstructs is `{src(md)[:60]}`, not an encoding.Metadata(...) built for this serialisation from the subroutine's current fields "
              "(a header kept from an earlier call goes stale when the app id changes, e.g. through instantiate())", sub.loc(cs))
    if ok:
        kw = A.kwargs_of(md)
        names = [n for n, _, _ in wire.struct_fields(ev, mc)]
        for i, a in enumerate(md.args):
            kw[names[i]] = a
        for fld, attr in (("netqasm_version", "netqasm_version"), ("app_id", "app_id")):
            v = kw.get(fld)
            good = v is not None and (A.is_self_attr(v, attr) or A.is_self_attr(v, "_" + attr))
            ctx.check(rule, f"Subroutine.cstructs:metadata.{fld}", good,
                      f"Metadata.{fld} is filled from {src(v) if v is not None else 'nothing'} instead of self.{attr}", sub.loc(cs),
                      sample={"metadata field": fld, "source": src(v) if v is not None else None})


def check_framing(ctx):
    repo, ev = ctx.repo, ctx.ev
    enc = repo.module(I.ENC_MOD)
    sub = repo.get_class("netqasm.lang.subroutine", "Subroutine")
    cs = sub.methods.get("cstructs")
    by = sub.methods.get("__bytes__")
    if cs is None or by is None:
        raise AnalysisError("Subroutine.cstructs / __bytes__ not found")
    ctx.fn("Subroutine.cstructs")
    ctx.fn("Subroutine.__bytes__")
    from .. import codec
    codec.emit_framing(ctx, "C01.F")

    # Deserializer
    des = repo.get_class("netqasm.lang.parsing.binary", "Deserializer")
    dm = des.module
    pm, dsub, dcmd = des.methods.get("_parse_metadata"), des.methods.get("deserialize_subroutine"), des.methods.get("deserialize_command")
    if not (pm and dsub and dcmd):
        raise AnalysisError("Deserializer methods not found")
    for f in (pm, dsub, dcmd):
        ctx.fn("Deserializer." + f.name)
    MB = ev.name(I.ENC_MOD, "METADATA_BYTES")
    CB = ev.name(I.ENC_MOD, "COMMAND_BYTES")
    mdc = enc.classes.get("Metadata")
    ctx.check("C01.F", "encoding.METADATA_BYTES=sizeof(Metadata)", MB == wire.layout(ev, mdc)[1], f"METADATA_BYTES={MB} but sizeof(Metadata)={wire.layout(ev, mdc)[1]}", repo.loc(enc, mdc.node))
    # _parse_metadata: slices of its parameter
    params = A.param_names(pm)
    rawp = params[1]
    slices = []
    for n in A.body_nodes(pm):
        if isinstance(n, ast.Subscript) and isinstance(n.value, ast.Name) and n.value.id == rawp and isinstance(n.slice, ast.Slice):
            lo = ev.try_eval(n.slice.lower, dm, default="?") if n.slice.lower else 0
            hi = ev.try_eval(n.slice.upper, dm, default="?") if n.slice.upper else None
            slices.append((lo, hi))
    ctx.check("C01.F", "Deserializer._parse_metadata:split-at-METADATA_BYTES", sorted(slices, key=str) == sorted([(0, MB), (MB, None)], key=str),
              f"_parse_metadata slices the input at {slices}, expected [0:{MB}] and [{MB}:]", des.loc(pm), sample={"slices": slices})
    uses_md = any(isinstance(n, ast.Call) and isinstance(n.func, ast.Attribute) and n.func.attr == "from_buffer_copy" and repo.resolve_class(dm, n.func.value) is mdc for n in A.body_nodes(pm))
    ctx.check("C01.F", "Deserializer._parse_metadata:decodes-Metadata", uses_md, "_parse_metadata does not decode encoding.Metadata", des.loc(pm), trivial=True)
    # deserialize_subroutine, executed by the checker's interpreter (nqsa/circuit.py) on byte strings of several lengths:
    # whatever the loop counts (command index, byte offset, divmod, a while loop), the metadata prefix goes to _parse_metadata,
    # the rest is cut into consecutive COMMAND_BYTES chunks which are decoded in order, a ragged tail is refused, and the
    # Subroutine is built from the metadata fields and the decoded list
    from .. import circuit as C
    ok_cnt = ok_bounds = ok_meta = ok_ragged = True
    why = {}
    try:
        for k in (0, 1, 3, 10):
            for extra in (0, 1, CB - 1):
                body = bytes((37 * j + 11) % 251 for j in range(k * CB + extra))
                raw = bytes(range(1, MB + 1)) + body
                seen = []

                def dec(chunk=None, raw=None, seen=seen, **kw_):
                    c_ = chunk if chunk is not None else raw if raw is not None else (list(kw_.values()) or [None])[0]
                    seen.append(c_)
                    return ("instr", len(seen) - 1)

                sc = C.Scenario()
                sc.overrides["deserialize_command"] = dec
                sc.overrides["_parse_metadata"] = lambda r_: (C.Obj(None, {"netqasm_version": [3, 1], "app_id": 7}), r_[MB:])
                o = C.object_from_init(repo, des, {"flavour": C.Obj(None, {})}, kind="self")
                try:
                    out = C.Interp(repo, ev, sc, des).call_function(dm, dsub, [raw], {}, self_obj=o)
                    raised = None
                except C.EvalRaise as ex_:
                    out, raised = None, ex_.exc_name
                if extra:
                    if raised is None:
                        ok_ragged = False
                        why["ragged"] = f"{k * CB + extra} bytes after the metadata ({k} commands and {extra} more bytes) are accepted"
                    continue
                if raised is not None:
                    ok_cnt = False
                    why["cnt"] = f"{k} whole commands after the metadata raise {raised}"
                    continue
                want = [body[j * CB:(j + 1) * CB] for j in range(k)]
                if len(seen) != k:
                    ok_cnt = False
                    why["cnt"] = f"{k} commands after the metadata: {len(seen)} chunks are decoded"
                elif seen != want:
                    ok_bounds = False
                    j = next(i_ for i_ in range(k) if seen[i_] != want[i_])
                    got_at = body.find(seen[j]) if isinstance(seen[j], bytes) and seen[j] else -1
                    why["bounds"] = f"chunk {j} of {k} is {len(seen[j]) if isinstance(seen[j], bytes) else '?'} bytes from offset {got_at}, expected {CB} bytes from offset {j * CB}"
                f_ = out.fields if isinstance(out, C.Obj) else {}
                if not (isinstance(out, C.Obj) and out.cls is not None and out.cls.name == "Subroutine" and f_.get("netqasm_version") == (3, 1) and f_.get("app_id") == 7
                        and f_.get("instructions") == [("instr", j) for j in range(k)]):
                    ok_meta = False
                    why["meta"] = f"with {k} commands the result is {out!r} with {f_}"
    except AnalysisError as ex_:
        ctx.error("C01.F", f"deserialize_subroutine cannot be evaluated: {ex_}")
    else:
        ctx.check("C01.F", "Deserializer.deserialize_subroutine:chunk-count", ok_cnt, f"the number of decoded chunks is not len(data)/COMMAND_BYTES: {why.get('cnt')}", des.loc(dsub))
        ctx.check("C01.F", "Deserializer.deserialize_subroutine:chunk-bounds", ok_bounds, f"chunk i is not data[i*{CB}:(i+1)*{CB}]: {why.get('bounds')}", des.loc(dsub))
        ctx.check("C01.F", "Deserializer.deserialize_subroutine:ragged-tail-refused", ok_ragged, f"a byte string that is not a whole number of commands is not refused: {why.get('ragged')}", des.loc(dsub))
        ctx.check("C01.F", "Deserializer.deserialize_subroutine:built-from-metadata-and-decoded-list", ok_meta,
                  f"Subroutine(netqasm_version, app_id, instructions) is not built from the metadata fields and the decoded commands in order: {why.get('meta')}", des.loc(dsub))
    # deserialize_command: peek byte 0, dispatch by id, decode the same chunk
    params = A.param_names(dcmd)
    rawp = params[1]
    defs = A.single_defs(dcmd)
    rets = A.returns(dcmd)
    ok_peek = ok_disp = ok_same = False
    if len(rets) == 1:
        e = A.expand(rets[0].value, defs)
        if isinstance(e, ast.Call) and isinstance(e.func, ast.Attribute) and e.func.attr == "deserialize_from":
            ok_same = len(e.args) == 1 and isinstance(e.args[0], ast.Name) and e.args[0].id == rawp
            disp = e.func.value
            if isinstance(disp, ast.Call) and A.call_name(disp) == "get_instr_by_id" and len(disp.args) == 1:
                ok_disp = A.norm(disp.func).startswith("self.flavour.")
                idx = disp.args[0]
                # INSTR_ID.from_buffer_copy(raw[:1]).value
                for x in ast.walk(idx):
                    if isinstance(x, ast.Subscript) and isinstance(x.value, ast.Name) and x.value.id == rawp:
                        s = x.slice
                        if isinstance(s, ast.Slice):
                            lo = ev.try_eval(s.lower, dm, default=None) if s.lower else 0
                            hi = ev.try_eval(s.upper, dm, default=None) if s.upper else None
                            ok_peek = (lo, hi) == (0, 1)
                        else:
                            ok_peek = ev.try_eval(s, dm, default=None) == 0
                t = None
                for x in ast.walk(idx):
                    if isinstance(x, ast.Call) and isinstance(x.func, ast.Attribute) and x.func.attr == "from_buffer_copy":
                        t = ev.try_eval(x.func.value, dm)
                if t is not None:
                    ok_peek = ok_peek and isinstance(t, CScalar) and t.size == 1 and not t.signed
    ctx.check("C01.F", "Deserializer.deserialize_command:peek-opcode-byte-0", ok_peek, "the opcode is not read as an unsigned byte at offset 0 of the chunk", des.loc(dcmd))
    ctx.check("C01.F", "Deserializer.deserialize_command:dispatch-by-flavour-id-table", ok_disp, "the class is not looked up with self.flavour.get_instr_by_id(opcode)", des.loc(dcmd))
    ctx.check("C01.F", "Deserializer.deserialize_command:decode-same-chunk", ok_same, "deserialize_from is not applied to the same chunk", des.loc(dcmd))


def _eval_with_len(ev, m, expr, L):
    """evaluate a count expression where len(<anything>) = L"""

    class R(ast.NodeTransformer):
        def visit_Call(self, node):
            if dotted(node.func) == "len":
                return ast.Constant(value=L)
            return self.generic_visit(node)

    import copy

    e = R().visit(copy.deepcopy(expr))
    ast.fix_missing_locations(e)
    return ev.eval(e, m)


def _eval_with_len_env(ev, m, expr, L, env):
    """as _eval_with_len, with values for local names"""

    class R(ast.NodeTransformer):
        def visit_Call(self, node):
            if dotted(node.func) == "len":
                return ast.Constant(value=L)
            return self.generic_visit(node)

        def visit_Name(self, node):
            return ast.Constant(value=env[node.id]) if node.id in env else node

    import copy

    e = R().visit(copy.deepcopy(expr))
    ast.fix_missing_locations(e)
    return ev.eval(e, m)


def run(ctx):
    check_uniqueness(ctx)
    # decode(encode(x)) = x for every registered class and enumerated operand values, and lossless "for the stated range" (a value the
    # encoder accepts is representable in the field it is written to): both by running the classes' own serialize / deserialize_from
    # in the checker's interpreter with ctypes modelled (nqsa/codec.py, shared with C02.L and C16.G)
    from .. import codec
    codec.emit(ctx, roundtrip="C01.P", rng="C01.R")
    check_framing(ctx)


B = "netqasm/lang/instr/base.py"
SEEDS = [
    dict(id="c01-des-swap-regs", file=B, expect="C01.P", construct="",
         old="        reg0 = Register.from_raw(c_struct.reg0)\n        reg1 = Register.from_raw(c_struct.reg1)\n        return cls(reg0=reg0, reg1=reg1)\n",
         new="        reg0 = Register.from_raw(c_struct.reg1)\n        reg1 = Register.from_raw(c_struct.reg0)\n        return cls(reg0=reg0, reg1=reg1)\n"),
    dict(id="c01-ser-swap-imm", file=B, expect="C01.P", construct="",
         old="            imm2=self.imm2.value,\n            imm3=self.imm3.value,", new="            imm2=self.imm3.value,\n            imm3=self.imm2.value,"),
    dict(id="c01-des-wrong-struct", file=B, expect="C01.P", construct="",
         old="c_struct = encoding.RegRegRegRegCommand.from_buffer_copy(raw)", new="c_struct = encoding.RecvEPRCommand.from_buffer_copy(raw)"),
    dict(id="c01-sub-opcode-of-add", file="netqasm/lang/instr/core.py", expect="C01.U", construct="opcode-collision:add/sub",
         old="    id: int = 17\n    mnemonic: str = \"sub\"", new="    id: int = 16\n    mnemonic: str = \"sub\""),
    dict(id="c01-dup-mnemonic", file="netqasm/lang/instr/core.py", expect="C01.U", construct="mnemonic-collision",
         old="mnemonic: str = \"wait_any\"", new="mnemonic: str = \"wait_all\""),
    dict(id="c01-nv-opcode-clash", file="netqasm/lang/instr/nv.py", expect="C01.U", construct="NVFlavour:opcode-collision",
         old="    id: int = 31\n    mnemonic: str = \"crot_y\"", new="    id: int = 32\n    mnemonic: str = \"crot_y\""),
    dict(id="c01-operand-swap-slice", file="netqasm/lang/operand.py", expect="C01.P", construct="",
         old="        start = Register.from_raw(raw.start)\n        stop = Register.from_raw(raw.stop)", new="        start = Register.from_raw(raw.stop)\n        stop = Register.from_raw(raw.start)"),
    dict(id="c01-frame-chunk", file="netqasm/lang/parsing/binary.py", expect="C01.F", construct="chunk",
         old="raw[i * encoding.COMMAND_BYTES : (i + 1) * encoding.COMMAND_BYTES]", new="raw[i * encoding.COMMAND_BYTES : (i + 1) * encoding.COMMAND_BYTES - 1]"),
    dict(id="c01-frame-appid", file="netqasm/lang/parsing/binary.py", expect="C01.F", construct="built-from-metadata",
         old="app_id=metadata.app_id,", new="app_id=metadata.netqasm_version[0],"),
    dict(id="c01-frame-filter", file="netqasm/lang/subroutine.py", expect="C01.F", construct="all-instructions",
         old="[instr.serialize() for instr in self.instructions]", new="[instr.serialize() for instr in self.instructions if instr.operands]"),
    dict(id="c01-shared-core-table", expect="C01.U", construct="owned-by-the-instance",
         edits=[("netqasm/lang/instr/flavour.py", "class Flavour(ABC):", "_CORE_ID_MAP = {instr.id: instr for instr in CORE_INSTRUCTIONS}\n\n\nclass Flavour(ABC):"),
                ("netqasm/lang/instr/flavour.py", "        self.id_map = {instr.id: instr for instr in CORE_INSTRUCTIONS}", "        self.id_map = _CORE_ID_MAP")]),
    dict(id="c01-reg-name-from-index", file="netqasm/lang/operand.py", expect="C01.P", construct="",
         old="return cls(name=reg_name, index=raw.register_index)", new="return cls(name=reg_name, index=raw.register_name)"),
]
BENIGN = [
    dict(id="c01-benign-shared-core-copied", edits=[("netqasm/lang/instr/flavour.py", "class Flavour(ABC):", "_CORE_ID_MAP = {instr.id: instr for instr in CORE_INSTRUCTIONS}\n\n\nclass Flavour(ABC):"),
                ("netqasm/lang/instr/flavour.py", "        self.id_map = {instr.id: instr for instr in CORE_INSTRUCTIONS}", "        self.id_map = dict(_CORE_ID_MAP)")]),
    dict(id="c01-benign-inline", file=B,
         old="        reg0 = Register.from_raw(c_struct.reg0)\n        reg1 = Register.from_raw(c_struct.reg1)\n        return cls(reg0=reg0, reg1=reg1)\n",
         new="        return cls(reg0=Register.from_raw(c_struct.reg0), reg1=Register.from_raw(c_struct.reg1))\n"),
    dict(id="c01-benign-floordiv", file="netqasm/lang/parsing/binary.py",
         old="num_commands = int(len(raw) / encoding.COMMAND_BYTES)", new="num_commands = len(raw) // encoding.COMMAND_BYTES"),
]

ENGINES = ["model", "wire", "instrs", "cmodel", "codec", "circuit"]
LEVEL_TEXT = (
    "Static analysis, full for the stated range: for all 3 flavours and every registered instruction class, opcode and "
    "mnemonic tables are collision-free (exhaustive table check), and for every operand shape and operand class the "
    "writer/reader field maps compose to the identity through listed inverse pairs (so decode(encode(x)) = x for every "
    "in-range valuation by construction); framing coherence of Subroutine.cstructs vs Deserializer. Quantifies over all "
    "classes/shapes/fields, which the two fixed listings of the test-suite do not."
)
LEVEL_NOTE = "trusts: ctypes field stores are injective in range (range = C16); the wire model of nqsa/wire.py; ast of python3-vt parses the repo"
