"""C13 — qubit memory safe, applications isolated (claimed in part).

C13.R  every container that init_new_application (transitively) fills with an
       app-keyed entry loses that entry in stop_application (transitively);
       same for QNodeController._add_app / _remove_app
C13.U  used-physical-set / unit-module coherence
C13.I  per-application dictionaries are indexed only with an app id that derives
       from the executing subroutine or from the function's own parameter
C13.G  allocation raises when the slot is taken and checks the bound; free
       raises when the slot is empty  (= C09.X)
"""
from __future__ import annotations

import ast
from typing import Dict, List, Optional, Set

from .. import astutil as A
from .. import effects as E
from .. import guards as G
from ..model import AnalysisError, dotted, src

TECHNIQUE = "interprocedural keyed-container pairing (init vs stop), who-indexes-with-what, guard dominance over the unit module; abstract interpretation of small functions over an enumerated finite domain and abstract execution of the repository's Executor / QNodeController over bounded application and message histories (C13.H, C13.Y) by the checker's own AST interpreter (static analysis)"
ENGINES = ["model", "flow", "circuit", "session"]
EXPLANATION = (
    "Over backend/executor.py, backend/qnodeos.py, sdk/shared_memory.py: parameter bindings are followed from "
    "init_new_application(app_id) and stop_application(app_id) through self-calls and class-method calls; the set of containers "
    "receiving an app-keyed entry must be a subset of those losing it. Every store of a physical address into a unit module is "
    "matched with an insertion into the used set (in the function, the producing callee, or every caller that passes the address), "
    "every clearing store / module drop with a removal. Every subscript of a per-application dictionary uses a key derived from "
    "_get_app_id(subroutine_id), the subroutine's own app id, or the function's app_id parameter (checked at the call sites). "
    "Allocation is under `slot is None` and a dominating bound check; free raises on an empty slot."
    ' Mark-then-map: from a statement that marks a physical address in use every path to a return or raise maps it or hands it on; no state effect precedes an explicit raise/assert in an executor method. C13.Z: no truthiness test on an int-typed value.'
    " Handing a marked address to a callee counts as mapping it only if the callee cannot raise before storing it (unless the caller's path facts exclude that raise); calls into the network stack are fault points; mutator calls on subscripted tables are state effects. C13.K: memoisation keys cover the arguments."
    ' _get_unused_physical_qubit is executed abstractly for six in-use sets (the address handed out is outside the set).'
    " C13.H (abstract execution): the repository's Executor, built by its own constructor and driven by the checker's interpreter, is taken through every sequence of register / stop / allocate / free / write-and-return over two applications up to depth 4 (5 in the thorough tier): the legal operation is carried out, no other application's state changes, no physical qubit is mapped twice, the in-use set is the mapped set, a stopped application leaves nothing behind and starts clean again."
)
LEVEL_TEXT = (
    "Static analysis, partial: lifecycle pairing, used-set coherence, app-keyed indexing and allocation guards are decided for every "
    "container and every access site. Not decided: injectivity of the physical map when the network stack supplies the physical id; "
    "behaviour over histories (that is a dynamic family)."
)
LEVEL_NOTE = "exceptional paths out of ordinary calls are not modelled; subclasses overriding executor hooks are outside the claim"
ASSUMPTIONS = [LEVEL_NOTE]
EXE = "netqasm.backend.executor"
PER_APP = ["_registers", "_app_arrays", "_shared_memories", "_qubit_unit_modules"]
USED = "_used_physical_qubit_addresses"


def check_lifecycle(ctx):
    repo = ctx.repo
    ex = repo.get_class(EXE, "Executor")
    init = ex.methods.get("init_new_application")
    stop = ex.methods.get("stop_application")
    if init is None or stop is None:
        raise AnalysisError("Executor.init_new_application/stop_application not found")
    ctx.fn("Executor.init_new_application")
    ctx.fn("Executor.stop_application")
    def computed(fn_) -> bool:
        """the function reaches other code by a computed name or a computed argument list (getattr(self, <expression>), f(**d)): the
        effects it has are not all in sight of the shape rule"""
        for n_ in ast.walk(fn_):
            if isinstance(n_, ast.Call) and dotted(n_.func) == "getattr" and len(n_.args) >= 2 and not isinstance(n_.args[1], ast.Constant):
                return True
            if isinstance(n_, ast.Call) and any(k_.arg is None for k_ in n_.keywords):
                return True
        return False

    ei = E.collect(repo, ex, init, {"app_id"})
    es = E.collect(repo, ex, stop, {"app_id"})
    ctx.call_sites += ei.calls + es.calls
    unread = computed(init) or computed(stop)
    if unread:
        ctx.note("C13.R: init_new_application / stop_application reach their steps by computed names; what a stopped application leaves behind is judged by C13.Y and C13.H only")
    else:
        ctx.anchor("C13.R", "per-app containers written by init_new_application", len(ei.inserts), 5)
    for cid, locs in ([] if unread else sorted(ei.inserts.items())):
        ok = cid in es.removes
        ctx.check("C13.R", f"Executor:{cid}:removed-on-stop", ok,
                  f"init_new_application inserts an app-keyed entry into {cid} (at {locs[0]}) but stop_application never removes it: "
                  f"the entry survives the application and the same app id cannot be registered again", locs[0],
                  sample={"container": cid, "inserted_at": locs, "removed_at": es.removes.get(cid)})
    # QNodeController
    qc = repo.get_class("netqasm.backend.qnodeos", "QNodeController")
    hi, hs = qc.methods.get("_handle_init_new_app"), qc.methods.get("_handle_stop_app")
    if hi is None or hs is None:
        raise AnalysisError("QNodeController._handle_init_new_app/_handle_stop_app not found")
    ctx.fn("QNodeController._handle_init_new_app")
    ctx.fn("QNodeController._handle_stop_app")
    mp = A.param_names(hi)[1]
    qi = E.collect(repo, qc, hi, {f"{mp}.app_id"})
    mp2 = A.param_names(hs)[1]
    qs = E.collect(repo, qc, hs, {f"{mp2}.app_id"})
    unread_q = unread or computed(hi) or computed(hs)
    if unread_q:
        ctx.note("C13.R: the INIT_NEW_APP / STOP_APP handlers reach their steps by computed names or argument lists; judged by C13.Y only")
    else:
        ctx.anchor("C13.R", "containers written on the INIT_NEW_APP message", len(qi.inserts), 6)
    for cid, locs in ([] if unread_q else sorted(qi.inserts.items())):
        ok = cid in qs.removes
        ctx.check("C13.R", f"QNodeController:{cid}:removed-on-stop-message", ok,
                  f"handling INIT_NEW_APP inserts an app-keyed entry into {cid} (at {locs[0]}) that handling STOP_APP never removes", locs[0],
                  sample={"container": cid, "removed_at": qs.removes.get(cid)})
    # both handlers are registered for their message types
    gm = qc.methods.get("_get_message_handlers")
    ok = False
    if gm is not None:
        for n in ast.walk(gm):
            if isinstance(n, ast.Dict):
                d = {A.norm(k): A.norm(v) for k, v in zip(n.keys, n.values)}
                ok = d.get("MessageType.INIT_NEW_APP") == "self._handle_init_new_app" and d.get("MessageType.STOP_APP") == "self._handle_stop_app"
        if not ok and computed(gm):
            ctx.note("C13.R: the message-handler table is built by computed names; that INIT_NEW_APP / STOP_APP reach their handlers is judged by C13.Y only")
            return
    ctx.check("C13.R", "QNodeController:init/stop-handlers-registered", ok, "INIT_NEW_APP / STOP_APP are not routed to _handle_init_new_app / _handle_stop_app", qc.loc(gm) if gm else "")


def _holdings(w):
    """what the controller, its executor and the shared-memory registry hold per key: every dict / set / list field -> its keys / size"""
    out = {}
    for who, o in (("controller", w.ctrl), ("executor", w.executor)):
        for f_, v_ in o.fields.items():
            if isinstance(v_, dict):
                out[f"{who}.{f_}"] = sorted(map(repr, v_.keys()))
            elif isinstance(v_, (set, frozenset)):
                out[f"{who}.{f_}"] = sorted(map(repr, v_))
    for (q_, a_), v_ in (w.sc.__dict__.get("class_attrs") or {}).items():
        if q_.endswith("SharedMemoryManager") and isinstance(v_, dict):
            out[f"SharedMemoryManager.{a_}"] = sorted(map(repr, v_.keys()))
    return out


def _run_lifecycle(ctx, seq):
    """one history of INIT_NEW_APP / subroutine / STOP_APP messages through the repository's QNodeController -> None or (obligation, text)"""
    from .. import session as S
    w = S.HostWorld(ctx, "generic", 3)
    msgs = ctx.repo.module("netqasm.backend.messages")
    base = _holdings(w)
    live, done = [], []
    k = 0

    def handle(msg):
        nonlocal k
        k += 1
        return S.outcome(w.I.method, w.ctrl, "handle_netqasm_message", [], {"msg_id": k, "msg": msg}, None)

    def tell():
        return ", ".join(f"{a_}({b_})" for a_, b_ in done)
    for op, app in seq:
        done.append((op, app))
        if op == "init":
            r_ = handle(w.I.construct(msgs.classes["InitNewAppMessage"], [], {"app_id": app, "max_qubits": 2}, None))
            if r_[0] != "ok":
                return ("an-application-can-register:also-after-an-earlier-one-with-its-id-stopped", f"{tell()}: INIT_NEW_APP for application {app} is answered with {r_[1:3]}")
            live.append(app)
        elif op == "run":
            ew = S.ExecutorWorld.__new__(S.ExecutorWorld)
            ew.ctx, ew.repo, ew.ev, ew.I, ew.parser_mod = ctx, ctx.repo, ctx.ev, w.I, ctx.repo.module("netqasm.lang.parsing.text")
            sub = S.ExecutorWorld.parse(ew, f"# NETQASM 1.0\n# APPID {app}\nset R0 1\narray R0 @0\nstore R0 @0[0]\nset Q0 0\nqalloc Q0\ninit Q0\nret_reg R0\nret_arr @0\nqfree Q0\n")
            r_ = handle(w.I.construct(msgs.classes["SubroutineMessage"], [sub], {}, None))
            if r_[0] != "ok":
                return ("subroutines-of-a-registered-application-run", f"{tell()}: the subroutine of application {app} is answered with {r_[1:3]}")
        else:
            r_ = handle(w.I.construct(msgs.classes["StopAppMessage"], [], {"app_id": app}, None))
            if r_[0] != "ok":
                return ("a-registered-application-can-be-stopped", f"{tell()}: STOP_APP for application {app} is answered with {r_[1:3]}")
            live.remove(app)
        if not live:
            now = _holdings(w)
            left = {f_: [x_ for x_ in v_ if x_ not in base.get(f_, [])] for f_, v_ in now.items()}
            left = {f_: v_ for f_, v_ in left.items() if v_ and not f_.endswith("_finished_messages") and "subroutine" not in f_.lower() and "program_counter" not in f_.lower()}
            if left:
                return ("after-the-last-stop-nothing-of-an-application-is-left", f"{tell()}: every application has been stopped, but these entries remain: {left}")
    return None


def check_lifecycle_executed(ctx, rule="C13.Y"):
    """INIT_NEW_APP / STOP_APP through the repository's QNodeController (own constructor, own executor), on bounded histories: an
    application registers, runs a subroutine (registers, an array, a qubit, both return instructions), stops; afterwards no dict / set
    of the controller, its executor or the shared-memory registry holds an entry it did not hold before the first registration, and the
    same id registers again."""
    from .. import session as S
    seqs = [(("init", 0), ("stop", 0)), (("init", 0), ("stop", 0), ("init", 0), ("stop", 0)), (("init", 0), ("run", 0), ("stop", 0), ("init", 0), ("run", 0), ("stop", 0)),
            (("init", 0), ("init", 1), ("run", 0), ("stop", 0), ("run", 1), ("stop", 1)), (("init", 1), ("run", 1), ("init", 0), ("stop", 1), ("run", 0), ("init", 1), ("run", 1), ("stop", 0), ("stop", 1)),
            (("init", 0), ("run", 0), ("run", 0), ("stop", 0), ("init", 1), ("stop", 1))]
    bad = {}
    try:
        for res in S.parallel_map(ctx, _run_lifecycle, seqs, jobs=6):
            if res is not None:
                bad.setdefault(res[0], res[1])
    except AnalysisError as ex_:
        ctx.error(rule, f"the controller cannot be driven through the message histories: {ex_}")
        return
    ctx.anchor(rule, "message histories through the controller", len(seqs), 6)
    qc = ctx.repo.get_class("netqasm.backend.qnodeos", "QNodeController")
    for key in ("an-application-can-register:also-after-an-earlier-one-with-its-id-stopped", "subroutines-of-a-registered-application-run", "a-registered-application-can-be-stopped",
                "after-the-last-stop-nothing-of-an-application-is-left"):
        ctx.check(rule, key, key not in bad, bad.get(key, ""), qc.loc(qc.node), sample={"histories": len(seqs)})


def unit_module_locals(fn) -> Set[str]:
    """locals bound to a unit module (list of physical addresses)"""
    out = set()
    for k, vs in A.assigned_names(fn).items():
        for v in vs:
            if v is None:
                continue
            s = A.norm(v)
            if "_get_unit_module(" in s or "_qubit_unit_modules" in s or "_get_new_qubit_unit_module(" in s:
                out.add(k)
    return out


def check_used_set(ctx, rule="C13.U"):
    repo = ctx.repo
    ex = repo.get_class(EXE, "Executor")
    m = ex.module

    def is_used_call(n, meth, arg_name=None):
        return isinstance(n, ast.Call) and isinstance(n.func, ast.Attribute) and n.func.attr == meth and A.is_self_attr(n.func.value, USED) and \
            (arg_name is None or (n.args and isinstance(n.args[0], ast.Name) and n.args[0].id == arg_name))

    # callee summaries: returns a value it added to the used set
    adds_result = set()
    for name, fn in ex.methods.items():
        for r in A.returns(fn):
            if isinstance(r.value, ast.Name):
                if any(is_used_call(c, "add", r.value.id) for st in G.dominating_stmts(fn, r) for c in ast.walk(st)):
                    adds_result.add(name)
    stores = 0
    for name, fn in sorted(ex.methods.items()):
        ums = unit_module_locals(fn)
        if not ums:
            continue
        params = A.param_names(fn)
        mdefs = {k: [v for v in vs if v is not None] for k, vs in A.assigned_names(fn).items()}
        for st in A.body_nodes(fn):
            if not (isinstance(st, ast.Assign) and isinstance(st.targets[0], ast.Subscript) and isinstance(st.targets[0].value, ast.Name) and st.targets[0].value.id in ums):
                continue
            stores += 1
            ctx.fn(f"Executor.{name}")
            v = st.value
            if isinstance(v, ast.Constant) and v.value is None:
                # clearing: a .remove(w) in the same function where w was read from the same element
                idx = A.norm(st.targets[0].slice)
                um = st.targets[0].value.id
                ok = False
                for c in A.calls_in(fn):
                    if is_used_call(c, "remove") and c.args and isinstance(c.args[0], ast.Name):
                        w = c.args[0].id
                        if any(A.norm(d) == f"{um}[{idx}]" for d in mdefs.get(w, [])):
                            ok = True
                ctx.check(rule, f"{name}:clear-entry-removes-from-used-set", ok,
                          f"{name} clears {um}[{idx}] but does not remove the physical address read from that entry from {USED}: the physical qubit stays marked in use", repo.loc(m, st),
                          sample={"function": name, "store": src(st)})
                continue
            if not isinstance(v, ast.Name):
                ctx.error(rule, f"{name}: unit-module store of a non-name value `{src(st)}`")
                continue
            # every definition of v: callee that adds its result, or explicit add in function, or parameter (callers checked)
            sources = []
            # the function marks the stored name itself on every way to the store (nothing rebinds the name in between)
            local_add = any(is_used_call(c, "add", v.id) for s2 in G.dominating_stmts(fn, st) if isinstance(s2, ast.Expr) for c in ast.walk(s2))
            for d in mdefs.get(v.id, []):
                if isinstance(d, ast.Call) and A.is_self_attr(d.func) and d.func.attr in adds_result:
                    sources.append(("callee-adds", d.func.attr, True))
                else:
                    sources.append(("local", src(d)[:40], local_add))
            if v.id in params:
                # callers
                callers_ok = True
                n_callers = 0
                for cname, cfn in ex.methods.items():
                    for c in A.calls_in(cfn):
                        if A.is_self_attr(c.func, name):
                            arg = A.get_arg(c, params.index(v.id) - 1, v.id)
                            if arg is None or (isinstance(arg, ast.Constant) and arg.value is None):
                                continue
                            n_callers += 1
                            if local_add:
                                continue
                            ok = isinstance(arg, ast.Name) and any(is_used_call(x, "add", arg.id) for s2 in G.dominating_stmts(cfn, c) for x in ast.walk(s2))
                            ctx.check(rule, f"{cname}->{name}:{v.id}:added-before-call", ok,
                                      f"{cname} passes physical address `{src(arg)}` to {name} without adding it to {USED} first: two virtual qubits can be mapped to it", repo.loc(m, c),
                                      sample={"caller": cname, "callee": name, "arg": src(arg)})
                            callers_ok = callers_ok and ok
                sources.append(("parameter", f"{n_callers} caller(s)", callers_ok or local_add))
            ok = bool(sources) and all(s[2] for s in sources)
            ctx.check(rule, f"{name}:stored-address-is-in-used-set", ok,
                      f"{name} stores `{v.id}` into a unit module but not every source of it is added to {USED}: {sources}", repo.loc(m, st),
                      sample={"function": name, "sources": [(a, b) for a, b, c in sources]})
    if stores == 0:
        # the executor writes its unit modules through an object of its own (a slot / view class), not by a subscript store in its methods:
        # nothing here for the shape rule to read.  That the in-use set is exactly the mapped set is decided on executed histories (C13.H)
        ctx.note(f"{rule}: no method of the executor stores into a unit module directly; the bookkeeping is judged by the executed histories of C13.H / C09.H only")
        return
    ctx.anchor(rule, "stores into a unit module", stores, 2)
    # mark-then-map: once an address is marked in use, every way out of the function (return or raise) maps it or hands it on
    from ..flow import CFG, header_parts
    stores_param = {}
    for name, fn in ex.methods.items():
        ums = unit_module_locals(fn)
        ps = A.param_names(fn)
        for st in A.body_nodes(fn):
            if isinstance(st, ast.Assign) and isinstance(st.targets[0], ast.Subscript) and isinstance(st.targets[0].value, ast.Name) and st.targets[0].value.id in ums \
                    and isinstance(st.value, ast.Name) and st.value.id in ps:
                stores_param.setdefault(name, set()).add(st.value.id)
    import networkx as nx
    callee_cfg = {}

    def callee_faults_before_store(caller, call_stmt, call, callee_name, pn):
        """text of a `raise` of the callee that can be reached before parameter pn is stored into a unit module and that
        the caller does not exclude (a fact on the caller's path to the call that contradicts a fact on the callee's
        path to that raise, after substituting arguments for parameters and expanding single-definition locals).
        A call made under a try with handlers is not judged."""
        for t in ast.walk(caller):
            if isinstance(t, ast.Try) and t.handlers and any(s is call_stmt for b in t.body for s in ast.walk(b)):
                return None
        cfn = ex.methods[callee_name]
        if callee_name not in callee_cfg:
            callee_cfg[callee_name] = CFG(cfn)
        ccfg = callee_cfg[callee_name]
        cums = unit_module_locals(cfn)

        def stores(s2):
            return any(isinstance(x, ast.Assign) and isinstance(x.targets[0], ast.Subscript) and isinstance(x.targets[0].value, ast.Name) and x.targets[0].value.id in cums
                       and isinstance(x.value, ast.Name) and x.value.id == pn for p_ in header_parts(s2) for x in ast.walk(p_))

        cps = A.param_names(cfn)
        binding = {}
        for k_, p_ in enumerate(cps[1:]):
            a_ = A.get_arg(call, k_, p_)
            if a_ is not None:
                binding[p_] = a_
        caller_defs = A.single_defs(caller)
        caller_facts = {(A.norm(A.expand(t, caller_defs)), pol) for t, pol in G.path_conditions(caller, call_stmt)}
        callee_defs = A.single_defs(cfn)
        for r in A.body_nodes(cfn):
            if not isinstance(r, (ast.Raise, ast.Assert)):
                continue
            rn = ccfg.node(r)
            if rn is None or not ccfg.paths_avoiding(stores, ccfg.entry, rn) or stores(r):
                continue
            facts = list(G.path_conditions(cfn, r))
            if isinstance(r, ast.Assert):
                facts.append((r.test, False))
            excluded = False
            for t, pol in facts:
                t2 = A.expand(A.expand(A.expand(t, callee_defs), binding, depth=1), caller_defs)
                if (A.norm(t2), not pol) in caller_facts:
                    excluded = True
            if not excluded:
                return f"`{src(r)[:60]}`"
        return None

    marks = 0
    for name, fn in sorted(ex.methods.items()):
        cfg = None
        ums = unit_module_locals(fn)
        for st in A.body_nodes(fn):
            v = None
            if isinstance(st, ast.Assign) and isinstance(st.targets[0], ast.Name) and isinstance(st.value, ast.Call) and A.is_self_attr(st.value.func) and st.value.func.attr in adds_result:
                v = st.targets[0].id
            elif isinstance(st, ast.Expr) and is_used_call(st.value, "add") and st.value.args and isinstance(st.value.args[0], ast.Name):
                v = st.value.args[0].id
            if v is None:
                continue
            marks += 1
            cfg = cfg or CFG(fn)
            node = cfg.node(st)

            def maps(s2, v=v, ums=ums):
                for p_ in header_parts(s2):
                    for x in ast.walk(p_):
                        if isinstance(x, ast.Assign) and isinstance(x.targets[0], ast.Subscript) and isinstance(x.targets[0].value, ast.Name) and x.targets[0].value.id in ums \
                                and isinstance(x.value, ast.Name) and x.value.id == v:
                            return True
                        if isinstance(x, ast.Return) and isinstance(x.value, ast.Name) and x.value.id == v:
                            return True
                        if isinstance(x, ast.Call) and A.is_self_attr(x.func) and x.func.attr in stores_param:
                            for pn in stores_param[x.func.attr]:
                                a = A.kwargs_of(x).get(pn)
                                if isinstance(a, ast.Name) and a.id == v:
                                    return True
                return False

            leaks = []
            if node is not None:
                if cfg.paths_avoiding(maps, node, cfg.raise_exit):
                    leaks.append("a raise")
                if cfg.paths_avoiding(maps, node, cfg.exit):
                    leaks.append("a return")
                # handing the marked address on counts as mapping it only if the callee cannot fault before it stores it
                for s2 in A.body_nodes(fn):
                    n2 = cfg.node(s2) if isinstance(s2, ast.stmt) else None
                    if n2 is None or n2 == node or not nx.has_path(cfg.g, node, n2):
                        continue
                    for p_ in header_parts(s2):
                        for x in ast.walk(p_):
                            if not (isinstance(x, ast.Call) and A.is_self_attr(x.func) and x.func.attr in stores_param):
                                continue
                            for pn in stores_param[x.func.attr]:
                                cps = A.param_names(ex.methods[x.func.attr])
                                a = A.get_arg(x, cps.index(pn) - 1, pn)
                                if isinstance(a, ast.Name) and a.id == v:
                                    why = callee_faults_before_store(fn, s2, x, x.func.attr, pn)
                                    if why:
                                        leaks.append(f"a fault inside {x.func.attr} ({why}) that is raised before `{pn}` is stored")
            ctx.fn(f"Executor.{name}")
            ctx.check(rule, f"{name}:{v}:marked-address-is-mapped-on-every-way-out", node is not None and not leaks,
                      f"{name} marks `{v}` as in use ({src(st)}) and can then leave through {' and '.join(leaks) or '?'} without mapping it into a unit module or handing it on: "
                      "the address stays in the in-use set while no virtual qubit maps to it, and stopping the application never releases it", repo.loc(m, st),
                      sample={"function": name, "mark": src(st)})
    ctx.anchor(rule, "statements marking a physical address as in use", marks, 1)  # (marks made through a cached local of the set are not followed; what they lead to is seen by C13.H)
    # _get_unused_physical_qubit picks an address that is not in the set
    fn = ex.methods.get("_get_unused_physical_qubit")
    if fn is None:
        raise AnalysisError("_get_unused_physical_qubit not found")
    ctx.fn("Executor._get_unused_physical_qubit")
    # executed abstractly (nqsa/circuit.py) for several in-use sets: the address handed out is outside the set (and ends up in it)
    from .. import circuit as C
    ok, detail = True, ""
    try:
        for used in ((), (0,), (1, 2), (0, 1, 3), (0, 1, 2), (2, 0, 5)):
            o = C.object_from_init(repo, ex, {USED: set(used)})
            got = C.Interp(repo, ctx.ev, C.Scenario(), None).call_function(m, fn, [], {}, self_obj=o)
            if not isinstance(got, int) or got in used or got < 0:
                ok = False
                detail = f"with {sorted(used)} in use it hands out {got!r}"
    except (AnalysisError, C.EvalRaise) as ex_:
        ctx.error(rule, f"Executor._get_unused_physical_qubit cannot be evaluated: {ex_}")
    ctx.check(rule, "_get_unused_physical_qubit:returns-address-not-in-used-set", ok,
              f"the physical address handed out is not always outside the in-use set ({detail}): two virtual qubits end up on one physical qubit", repo.loc(m, fn))
    # (dropping a unit module removes every mapped address from the in-use set: decided by the application histories, C13.H)


STATE_WRITERS = {"_set_register", "_set_array_entry", "_set_array_slice", "_initialize_array", "_get_unused_physical_qubit", "_reserve_physical_qubit", "_clear_phys_qubit_in_memory"}
MUTATORS = ("add", "remove", "pop", "append", "clear", "update", "discard", "insert", "extend", "setdefault", "popitem")


def check_fault_atomicity(ctx, rule="C13.U", only=None, floor=15):
    """A fault leaves the state as it was: inside one executor method no state effect precedes an explicit `raise` on any
    path (effects: writes to registers / arrays / unit modules / the in-use set / the program counter / the controller's
    tables, directly or through a callee that has such an effect).  The order 'check, then write' is the repository's own
    discipline: the rule has no exception on the clean tree."""
    import networkx as nx
    from ..flow import CFG, header_parts
    repo = ctx.repo
    ex = repo.get_class(EXE, "Executor")
    m = ex.module

    def direct_effect(x, ums):
        if isinstance(x, ast.Call) and isinstance(x.func, ast.Attribute):
            if A.is_self_attr(x.func) and x.func.attr in STATE_WRITERS:
                return x.func.attr
            if x.func.attr in MUTATORS:
                b = x.func.value
                while isinstance(b, ast.Subscript):  # self._table[key].append(...)
                    b = b.value
                if A.is_self_attr(b):
                    return A.norm(x.func)
        if isinstance(x, (ast.Assign, ast.AugAssign)):
            for t in (x.targets if isinstance(x, ast.Assign) else [x.target]):
                if isinstance(t, ast.Subscript):
                    b = t.value
                    while isinstance(b, ast.Subscript):
                        b = b.value
                    if A.is_self_attr(b) or (isinstance(b, ast.Name) and b.id in ums):
                        return "store " + A.norm(t)
                if A.is_self_attr(t):
                    return "store " + A.norm(t)
        return None

    ums_of = {name: unit_module_locals(fn) for name, fn in ex.methods.items()}
    eff = {name: any(direct_effect(x, ums_of[name]) for x in ast.walk(fn)) for name, fn in ex.methods.items()}
    changed = True
    while changed:
        changed = False
        for name, fn in ex.methods.items():
            if not eff[name] and any(isinstance(c, ast.Call) and A.is_self_attr(c.func) and eff.get(c.func.attr) for c in ast.walk(fn)):
                eff[name] = changed = True
    def external_fault_point(st):
        """a call into the pluggable network stack: it may refuse the request by raising"""
        return any(isinstance(x, ast.Call) and isinstance(x.func, ast.Attribute) and (A.is_self_attr(x.func.value, "network_stack") or A.is_self_attr(x.func.value, "_network_stack"))
                   for p_ in header_parts(st) for x in ast.walk(p_))

    n_raising = 0
    for name, fn in sorted(ex.methods.items()):
        if name == "__init__" or not any(isinstance(x, (ast.Raise, ast.Assert)) or (isinstance(x, ast.stmt) and external_fault_point(x)) for x in A.body_nodes(fn)):
            continue
        if only is not None and not only(name, fn):
            continue
        n_raising += 1
        ctx.fn(f"Executor.{name}")
        cfg = CFG(fn)
        ums = unit_module_locals(fn)
        bad = []
        for st in A.body_nodes(fn):
            if not isinstance(st, ast.stmt) or isinstance(st, (ast.Raise, ast.Assert)):
                continue
            n = cfg.node(st)
            if n is None:
                continue
            what = None
            for p_ in header_parts(st):
                for x in ast.walk(p_):
                    d = direct_effect(x, ums)
                    if d:
                        what = what or d
                    elif isinstance(x, ast.Call) and A.is_self_attr(x.func) and eff.get(x.func.attr):
                        what = what or f"call of {x.func.attr} (which changes state)"
            if what and nx.has_path(cfg.g, n, cfg.raise_exit):
                bad.append(f"{what} at line {st.lineno}")
            elif what:
                for s2 in A.body_nodes(fn):
                    n2 = cfg.node(s2) if isinstance(s2, ast.stmt) else None
                    if n2 is not None and n2 != n and external_fault_point(s2) and nx.has_path(cfg.g, n, n2):
                        bad.append(f"{what} at line {st.lineno}, before the network stack is asked at line {s2.lineno} (it may refuse)")
                        break
        ctx.check(rule, f"{name}:no-state-change-before-a-raise", not bad,
                  f"Executor.{name} changes state ({'; '.join(bad)[:200]}) and can then still `raise`: the faulting instruction is no longer without effect "
                  "(e.g. a rejected allocation leaves a physical qubit marked as in use)", repo.loc(m, fn), trivial=True, sample={"function": name} if n_raising <= 2 else None)
    ctx.anchor(rule, "executor methods with an explicit raise, an assert or a call into the network stack", n_raising, floor)


def check_indexing(ctx):
    repo = ctx.repo
    ex = repo.get_class(EXE, "Executor")
    m = ex.module
    sites = 0
    needs_caller_check: Dict[str, List[str]] = {}

    def key_ok(fn, key) -> Optional[str]:
        """'param:<name>' | 'derived' | None"""
        defs = A.single_defs(fn)
        params = A.param_names(fn)
        if isinstance(key, ast.Name):
            if key.id in params:
                return "param:" + key.id
            d = defs.get(key.id)
            if d is not None:
                s = A.norm(d)
                if s.startswith("self._get_app_id(") or (s.startswith("self._subroutines[") and s.endswith("].app_id")):
                    return "derived"
        s = A.norm(key)
        if s.startswith("self._get_app_id(") or (s.startswith("self._subroutines[") and s.endswith("].app_id")):
            return "derived"
        return None

    for name, fn in sorted(ex.methods.items()):
        for n in A.body_nodes(fn):
            key = None
            cont = None
            if isinstance(n, ast.Subscript) and A.is_self_attr(n.value) and n.value.attr in PER_APP:
                key, cont = n.slice, n.value.attr
            elif isinstance(n, ast.Call) and isinstance(n.func, ast.Attribute) and n.func.attr in ("get", "pop") and A.is_self_attr(n.func.value) and n.func.value.attr in PER_APP and n.args:
                key, cont = n.args[0], n.func.value.attr
            elif isinstance(n, ast.Compare) and len(n.ops) == 1 and isinstance(n.ops[0], (ast.In, ast.NotIn)) and A.is_self_attr(n.comparators[0]) and n.comparators[0].attr in PER_APP:
                key, cont = n.left, n.comparators[0].attr
            if key is None:
                continue
            sites += 1
            ctx.fn(f"Executor.{name}")
            k = key_ok(fn, key)
            ctx.check("C13.I", f"{name}:{cont}[{A.norm(key)}]", k is not None,
                      f"{name} indexes per-application state {cont} with `{src(key)}`, which is neither the function's own parameter nor derived from the executing subroutine's app id", repo.loc(m, n),
                      sample={"function": name, "container": cont, "key": src(key), "kind": k})
            if k and k.startswith("param:"):
                needs_caller_check.setdefault(name, []).append(k[6:])
    ctx.anchor("C13.I", "accesses to per-application dictionaries", sites, 20)
    # call sites inside the Executor of methods indexed by their app_id parameter
    public = {"init_new_application", "stop_application", "allocate_new_qubit_unit_module"}
    callsites = 0
    for callee, pnames in sorted(needs_caller_check.items()):
        cfn = ex.methods[callee]
        params = A.param_names(cfn)
        for pname in sorted(set(pnames)):
            for name, fn in sorted(ex.methods.items()):
                for c in A.calls_in(fn):
                    if not A.is_self_attr(c.func, callee):
                        continue
                    arg = A.get_arg(c, params.index(pname) - 1, pname)
                    if arg is None:
                        continue
                    callsites += 1
                    k = key_ok(fn, arg)
                    ctx.check("C13.I", f"{name}->{callee}({pname}={A.norm(arg)})", k is not None,
                              f"{name} calls {callee} with {pname}=`{src(arg)}`, which is neither its own parameter nor derived from the executing subroutine's app id", repo.loc(m, c), trivial=True)
    ctx.call_sites += callsites
    # _get_app_id returns the app id of the subroutine registered under that id; execute_subroutine registers it under a fresh id
    ga = ex.methods.get("_get_app_id")
    es = ex.methods.get("execute_subroutine")
    if ga is None or es is None:
        raise AnalysisError("_get_app_id/execute_subroutine not found")
    defs = A.single_defs(ga)
    rets = A.returns(ga)
    p = A.param_names(ga)[1]
    ok = len(rets) == 1 and A.norm(A.expand(rets[0].value, defs)) in (f"self._subroutines.get({p}).app_id", f"self._subroutines[{p}].app_id")
    ctx.check("C13.I", "_get_app_id:app-id-of-the-registered-subroutine", ok, f"_get_app_id does not return the app id of self._subroutines[{p}]", repo.loc(m, ga))
    defs = A.single_defs(es)
    reg = [n for n in A.body_nodes(es) if isinstance(n, ast.Assign) and isinstance(n.targets[0], ast.Subscript) and A.is_self_attr(n.targets[0].value, "_subroutines")]
    ok = len(reg) == 1 and isinstance(reg[0].targets[0].slice, ast.Name) and A.norm(defs.get(reg[0].targets[0].slice.id, ast.Constant(value=0))) == "self._get_new_subroutine_id()" \
        and isinstance(reg[0].value, ast.Name) and reg[0].value.id == A.param_names(es)[1]
    ctx.check("C13.I", "execute_subroutine:registers-under-fresh-id", ok, "execute_subroutine does not register the subroutine under a fresh subroutine id", repo.loc(m, es))
    gid = ex.methods.get("_get_new_subroutine_id")
    ok = False
    if gid is not None:
        # executed four times on one executor: four different ids
        from .. import circuit as C
        try:
            o_ = C.object_from_init(repo, ex, {}, kind="self")
            ids_ = [C.Interp(repo, ctx.ev, C.Scenario(), ex).call_function(m, gid, [], {}, self_obj=o_) for _ in range(4)]
            ok = len(set(ids_)) == 4 and all(isinstance(i_, int) for i_ in ids_)
        except (AnalysisError, C.EvalRaise):
            ok = False
    ctx.check("C13.I", "_get_new_subroutine_id:monotone", ok, "_get_new_subroutine_id does not hand out a new id on every call", repo.loc(m, gid) if gid else "", trivial=True)


def check_alloc_guards(ctx, rule="C13.G"):
    repo, ev = ctx.repo, ctx.ev
    ex = repo.get_class(EXE, "Executor")
    m = ex.module
    al = ex.methods.get("_allocate_physical_qubit")
    fr = ex.methods.get("_free_physical_qubit")
    if al is None or fr is None:
        raise AnalysisError("_allocate_physical_qubit/_free_physical_qubit not found")
    ctx.fn("Executor._allocate_physical_qubit")
    ctx.fn("Executor._free_physical_qubit")
    ums = unit_module_locals(al)
    stores = [st for st in A.body_nodes(al) if isinstance(st, ast.Assign) and isinstance(st.targets[0], ast.Subscript) and isinstance(st.targets[0].value, ast.Name) and st.targets[0].value.id in ums]
    if not stores:
        # (written through an object of the executor's own - see check_used_set; double allocation, out-of-range ids and frees of free
        # qubits are decided on executed programs by C04.D and the histories of C13.H / C09.H)
        ctx.note(f"{rule}: _allocate_physical_qubit does not store into the unit module by a subscript of its own; its guards are judged by C04.D / C13.H / C09.H only")
        return
    if len(stores) != 1:
        ctx.error(rule, f"_allocate_physical_qubit: expected one unit-module store, found {len(stores)}")
        return
    st = stores[0]
    um, idx = st.targets[0].value.id, A.norm(st.targets[0].slice)
    def slot_fact(t, pol, um_, idx_):
        """+1: the fact says the slot is empty, -1: it says the slot is taken, 0: unrelated"""
        n = A.norm(t)
        if n == f"{um_}[{idx_}]isNone":
            return 1 if pol else -1
        if n == f"{um_}[{idx_}]isnotNone":
            return -1 if pol else 1
        return 0

    free_slot = any(slot_fact(t, pol, um, idx) == 1 for t, pol in G.path_conditions(al, st))
    ctx.check(rule, "_allocate_physical_qubit:only-into-a-free-slot", free_slot, f"the store {src(st)} is not reached only when `{um}[{idx}] is None`: a second allocation silently overwrites the mapping", repo.loc(m, st))
    # the taken slot raises: some `raise` is reached exactly under the fact that the slot is taken
    def exactly_under(fn_, node, wanted, reference):
        """`node` is reached under a fact for which wanted(t, pol) holds, and under nothing else that does not also hold at `reference`
        (so the condition is not narrowed by an extra conjunct)"""
        facts = G.path_conditions(fn_, node)
        ref = {(A.norm(t), pol) for t, pol in G.path_conditions(fn_, reference)}
        hit = [f for f in facts if wanted(*f)]
        extra = [f for f in facts if not wanted(*f) and (A.norm(f[0]), f[1]) not in ref]
        return bool(hit) and not extra

    raises_taken = any(isinstance(n, ast.Raise) and exactly_under(al, n, lambda t, pol: slot_fact(t, pol, um, idx) == -1, st) for n in A.body_nodes(al))
    ctx.check(rule, "_allocate_physical_qubit:taken-slot-raises", raises_taken, "allocating an already allocated virtual qubit does not raise", repo.loc(m, al))
    # bound check dominates
    strength = "none"
    idx_expr = st.targets[0].slice
    sts = []
    for d in G.dominating_stmts(al, st):
        cond = G.raising_condition(d)
        if cond is not None and G.mentions(cond, idx_expr):
            # upper bound len(unit_module): substitute len(...) by 4
            c2 = _subst_len(A.expand(cond, A.single_defs(al)), 4)
            s = G.range_strength(ev, m, c2, idx_expr, -10**40, 3)
            if s is not None:
                sts.append(s)
    strength = G.combine(sts)
    ctx.check(rule, "_allocate_physical_qubit:bound-check", strength in ("upper-only", "full"), f"no dominating guard raises for a virtual address >= len(unit module) (strength {strength})", repo.loc(m, al),
              sample={"bound guard": strength})
    # free
    ums = unit_module_locals(fr)
    clears = [s for s in A.body_nodes(fr) if isinstance(s, ast.Assign) and isinstance(s.targets[0], ast.Subscript) and isinstance(s.targets[0].value, ast.Name) and s.targets[0].value.id in ums
              and isinstance(s.value, ast.Constant) and s.value.value is None]
    if len(clears) != 1:
        ctx.error(rule, f"_free_physical_qubit: expected one clearing store, found {len(clears)}")
        return
    st = clears[0]
    um, idx = st.targets[0].value.id, A.norm(st.targets[0].slice)
    # the read of the slot may go through a local (`physical_address = unit_module[address]`): facts about that local count
    fdefs = A.single_defs(fr)
    aliases = {k_ for k_, v_ in fdefs.items() if A.norm(v_) == f"{um}[{idx}]"}

    def fact(t, pol):
        n = A.norm(t)
        for subj in [f"{um}[{idx}]"] + sorted(aliases):
            if n == f"{subj}isNone":
                return 1 if pol else -1
            if n == f"{subj}isnotNone":
                return -1 if pol else 1
        return 0

    guarded = any(fact(t, pol) == -1 for t, pol in G.path_conditions(fr, st))
    raises = any(isinstance(n, ast.Raise) and exactly_under(fr, n, lambda t, pol: fact(t, pol) == 1, st) for n in A.body_nodes(fr))
    ctx.check(rule, "_free_physical_qubit:empty-slot-raises", guarded and raises, "freeing an unallocated virtual qubit does not raise", repo.loc(m, fr))
    # qalloc / qfree handlers pass the register value to these
    for h, callee in (("_instr_qalloc", "_allocate_physical_qubit"), ("_instr_qfree", "_free_physical_qubit")):
        fn = ex.methods.get(h)
        ok = fn is not None and any(A.is_self_attr(c.func, callee) for c in A.calls_in(fn))
        ctx.check(rule, f"{h}:uses-{callee}", ok, f"{h} does not go through {callee}", repo.loc(m, fn) if fn else "", trivial=True)


def _subst_len(cond, value):
    import copy

    class R(ast.NodeTransformer):
        def visit_Call(self, node):
            if dotted(node.func) == "len":
                return ast.Constant(value=value)
            return self.generic_visit(node)

    e = R().visit(copy.deepcopy(cond))
    ast.fix_missing_locations(e)
    return e


def app_histories(depth):
    """sequences of controller-side operations over two applications (unit modules of 2 and 1 qubits): register, stop, a subroutine that
    allocates / frees a virtual qubit, a subroutine that writes registers, an array and returns them.  Only operations that make sense in
    the state reached are generated (no subroutine for an application that is not registered, no allocation of an allocated qubit)."""
    out = []
    sizes = {0: 2, 1: 1}

    def rec(seq, reg, alloc):
        if len(seq) == depth:
            out.append(tuple(seq))
            return
        grown = False
        for a in (0, 1):
            if a not in reg:
                grown = True
                rec(seq + [("init", a)], reg | {a}, alloc)
                continue
            grown = True
            rec(seq + [("stop", a)], reg - {a}, frozenset(x for x in alloc if x[0] != a))
            for q in range(sizes[a]):
                if (a, q) in alloc:
                    rec(seq + [("free", a, q)], reg, alloc - {(a, q)})
                else:
                    rec(seq + [("alloc", a, q)], reg, alloc | {(a, q)})
            if not seq or seq[-1] != ("write", a):
                rec(seq + [("write", a)], reg, alloc)
        if not grown and seq:
            out.append(tuple(seq))
    rec([], frozenset(), frozenset())
    return sorted(set(out))


def _run_app_history(ctx, seq):
    """-> None, or (construct, what went wrong)"""
    from .. import session as S
    w = S.ExecutorWorld(ctx, S.scenario(max_steps=400000), record_gates=True)
    sizes = {0: 2, 1: 1}
    H = "# NETQASM 1.0\n# APPID {a}\n"
    writes = {0: 0, 1: 0}
    done = []

    def snapshot(a):
        return {"registers": w.registers(a), "arrays": w.arrays(a), "unit module": w.unit_module(a),
                "shared": sorted((str(k_), str(v_)) for k_, v_ in S.shared_memory_view(w, a).items())}

    def present(a):
        ex = w.ex.fields
        return sorted(n_ for n_ in ("_registers", "_app_arrays", "_shared_memories", "_qubit_unit_modules") if a in (ex.get(n_) or {}))

    registered = set()
    for op in seq:
        done.append(op)
        told = ", ".join(o_[0] + "(" + ", ".join(str(x_) for x_ in o_[1:]) + ")" for o_ in done)
        a = op[1]
        others_before = {b: snapshot(b) for b in registered if b != a}
        if op[0] == "init":
            r_ = w.call("init_new_application", app_id=a, max_qubits=sizes[a])
            registered.add(a)
            if r_[0] == "ok" and (w.registers(a) or w.arrays(a) or any(v_ is not None for v_ in (w.unit_module(a) or []))):
                return ("stop-releases-everything:the-id-can-be-registered-again", f"{told}: application {a} starts with registers {w.registers(a)}, arrays {w.arrays(a)}, unit module {w.unit_module(a)} - left over from its earlier life")
        elif op[0] == "stop":
            r_ = w.call("stop_application", app_id=a)
            registered.discard(a)
            writes[a] = 0
            if r_[0] == "ok" and present(a):
                return ("stop-releases-everything:the-id-can-be-registered-again", f"{told}: after stop_application({a}) the executor still holds {present(a)} for it")
        else:
            if op[0] == "alloc":
                text = H.format(a=a) + f"set Q0 {op[2]}\nqalloc Q0\ninit Q0\n"
            elif op[0] == "free":
                text = H.format(a=a) + f"set Q0 {op[2]}\nqfree Q0\n"
            else:
                writes[a] += 1
                v = 10 * (a + 1) + writes[a]
                text = H.format(a=a) + f"set R0 2\narray R0 @0\nset R1 {v}\nstore R1 @0[1]\nset C3 {v + 1}\nret_reg C3\nret_arr @0\n"
            r_ = w.run(w.parse(text))
        if r_[0] != "ok":
            return ("every-legal-operation-is-carried-out", f"{told}: the last operation {r_[1] if len(r_) > 1 else r_}: {str(r_[2])[:140] if len(r_) > 2 else ''!r}")
        # isolation: nothing of another application moved
        for b, before in others_before.items():
            if b in registered and snapshot(b) != before:
                now = snapshot(b)
                diff = {k_: (before[k_], now[k_]) for k_ in before if before[k_] != now[k_]}
                return ("applications-are-isolated", f"{told}: the last operation (application {a}) changed application {b}: {diff}")
        # the physical map is injective and the in-use set is exactly what is mapped
        mapped = [v_ for b in sorted(registered) for v_ in (w.unit_module(b) or []) if v_ is not None]
        if len(set(mapped)) != len(mapped):
            return ("no-two-virtual-qubits-share-a-physical-qubit", f"{told}: unit modules {[(b, w.unit_module(b)) for b in sorted(registered)]}")
        if sorted(mapped) != sorted(w.used()):
            return ("in-use-set-is-exactly-the-mapped-set", f"{told}: mapped physical qubits {sorted(mapped)}, marked in use {sorted(w.used())}")
    return None


def check_app_histories(ctx, rule="C13.H"):
    """C13 as stated, on bounded histories: the repository's Executor (own constructor) driven by the checker's interpreter through every
    sequence of register / stop / allocate / free / write-and-return over two applications up to the depth bound.  After every step: the
    legal operation was carried out; no other application's registers, arrays, unit module or shared memory changed; no physical qubit is
    mapped twice; the in-use set is exactly the mapped set; a stopped application leaves nothing behind and starts clean when registered again."""
    from .. import session as S
    jobs = app_histories(5 if ctx.tier == "thorough" and not getattr(ctx, "_in_selftest", False) else 4)
    bad = {}
    try:
        for seq, res in zip(jobs, S.parallel_map(ctx, _run_app_history, jobs, jobs=14)):
            if res is not None:
                bad.setdefault(res[0], res[1])
    except AnalysisError as ex_:
        ctx.error(rule, f"the executor cannot be driven through the application histories: {ex_}")
        return
    ctx.anchor(rule, "application histories executed", len(jobs), 150)
    ex = ctx.repo.get_class(EXE, "Executor")
    loc = ex.loc(ex.methods["stop_application"]) if "stop_application" in ex.methods else None
    for key in ("every-legal-operation-is-carried-out", "applications-are-isolated", "no-two-virtual-qubits-share-a-physical-qubit", "in-use-set-is-exactly-the-mapped-set",
                "stop-releases-everything:the-id-can-be-registered-again"):
        ctx.check(rule, key, key not in bad, bad.get(key, ""), loc, sample={"histories": len(jobs)})


def run(ctx):
    check_app_histories(ctx)
    check_lifecycle(ctx)
    check_used_set(ctx)
    check_fault_atomicity(ctx, "C13.U")
    check_indexing(ctx)
    check_alloc_guards(ctx, "C13.G")
    check_lifecycle_executed(ctx, "C13.Y")
    # a delivered physical qubit is mapped once: every keep-response is consumed exactly once (a response handled twice maps its
    # physical qubit to two virtual qubits); the consumption loop is executed abstractly over all short pending lists (shared with C12)
    from . import c12
    c12.check_consumption(ctx, ctx.repo.get_class(EXE, "Executor"), "C13.X")
    # 0 is an ordinary id / value / address: nothing int-valued may be tested by truthiness (nqsa/truth.py)
    from .. import truth
    truth.check(ctx, "C13.Z", ['netqasm.backend.executor', 'netqasm.backend.qnodeos'])
    # a value remembered for later calls is keyed by every argument it depends on (nqsa/memo.py)
    from .. import memo
    memo.check(ctx, "C13.K", ['netqasm.backend.executor', 'netqasm.backend.qnodeos'])
    # no type test that an earlier type test has already decided (a subclass tested after its base class: nqsa/shadow.py)
    from .. import shadow
    shadow.check(ctx, "C13.H", ['netqasm.backend.executor', 'netqasm.backend.qnodeos'])


X = "netqasm/backend/executor.py"
Q = "netqasm/backend/qnodeos.py"
SEEDS = [
    dict(id="c13-stop-message-keeps-the-app-registered", file="netqasm/backend/qnodeos.py", expect="C13.Y", construct="",
         old="        app_id = msg.app_id\n        self._remove_app(app_id=app_id)\n        self._logger.debug(f\"Stopping application", new="        app_id = msg.app_id\n        self._logger.debug(f\"Stopping application"),
    dict(id="c13-stop-message-skips-the-executor", file="netqasm/backend/qnodeos.py", expect="C13.Y", construct="",
         old="        yield from self._executor.stop_application(app_id=app_id)\n", new="        yield from ()\n"),
    dict(id="c13-mark-before-slot-test", file=X, expect="C13.U", construct="marked-address-is-mapped",
         old="        if unit_module[virtual_address] is None:\n            if physical_address is None:\n                physical_address = self._get_unused_physical_qubit()\n            self._used_physical_qubit_addresses.add(physical_address)\n            unit_module[virtual_address] = physical_address",
         new="        if physical_address is None:\n            physical_address = self._get_unused_physical_qubit()\n        if unit_module[virtual_address] is None:\n            self._used_physical_qubit_addresses.add(physical_address)\n            unit_module[virtual_address] = physical_address"),
    dict(id="c13-stop-keeps-registers", file=X, expect="C13.R", construct="_registers", old="        self._clear_registers(app_id=app_id)\n", new=""),
    dict(id="c13-stop-keeps-arrays", file=X, expect="C13.R", construct="_app_arrays", old="        self._app_arrays.pop(app_id)", new="        self._app_arrays.get(app_id)"),
    dict(id="c13-remove-app", file=Q, expect="C13.R", construct="_active_app_ids", old="        self._remove_app(app_id=app_id)\n", new=""),
    dict(id="c13-free-keeps-used", file=X, expect="C13.U", construct="_free_physical_qubit", old="            unit_module[address] = None\n            self._used_physical_qubit_addresses.remove(physical_address)\n", new="            unit_module[address] = None\n"),
    dict(id="c13-epr-not-added", file=X, expect="C13.U", construct="_handle_epr_ok_k_response", old="                physical_address = self._get_unused_physical_qubit()\n            self._used_physical_qubit_addresses.add(physical_address)\n", new="                physical_address = self._get_unused_physical_qubit()\n                self._used_physical_qubit_addresses.add(physical_address)\n"),
    dict(id="c13-clear-qubits-skip", file=X, expect="C13.H", construct="", old="            self._used_physical_qubit_addresses.remove(physical_address)\n            output = self._clear_phys_qubit_in_memory(physical_address)\n            if isinstance(output, GeneratorType):\n                yield from output\n\n    def _clear_registers",
         new="            output = self._clear_phys_qubit_in_memory(physical_address)\n            if isinstance(output, GeneratorType):\n                yield from output\n\n    def _clear_registers"),
    dict(id="c13-index-const", file=X, expect="C13.I", construct="_set_register", old="        self._registers[app_id][register.name][register.index] = value", new="        self._registers[0][register.name][register.index] = value"),
    dict(id="c13-index-subroutine-id", file=X, expect="C13.I", construct="_get_array", old="        return self._app_arrays[app_id]._get_array(address.address)", new="        return self._app_arrays[subroutine_id]._get_array(address.address)\n        subroutine_id = 0"),
    dict(id="c13-double-alloc", file=X, expect="C13.G", construct="_allocate_physical_qubit", old="        if unit_module[virtual_address] is None:\n            if physical_address is None:", new="        if True:\n            if physical_address is None:"),
    dict(id="c13-free-empty", file=X, expect="C13.G", construct="_free_physical_qubit", old="        if unit_module[address] is None:\n            app_id = self._subroutines[subroutine_id].app_id\n            raise RuntimeError(", new="        if unit_module[address] is None and False:\n            app_id = self._subroutines[subroutine_id].app_id\n            raise RuntimeError("),
    dict(id="c13-bound", file=X, expect="C13.G", construct="bound-check", old="        if virtual_address >= len(unit_module):\n            app_id = self._subroutines[subroutine_id].app_id\n            raise ValueError(", new="        if virtual_address > len(unit_module):\n            app_id = self._subroutines[subroutine_id].app_id\n            raise ValueError("),
    dict(id="c13-unused-pick", file=X, expect="C13.U", construct="_get_unused_physical_qubit", old="            if physical_address not in self._used_physical_qubit_addresses:", new="            if physical_address not in self._qubit_unit_modules:"),
]
BENIGN = [
    dict(id="c13-benign-drop-duplicate-add", file=X,
         old="                physical_address = self._get_unused_physical_qubit()\n",
         new="                physical_address = self._get_unused_physical_qubit()\n                self._used_physical_qubit_addresses.add(physical_address)\n"),
]
