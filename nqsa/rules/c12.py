"""C12 — responses matched to requests under any interleaving (structure only).

The quantifier is over schedules; no static argument here bounds arrival
orders.  Decided are the shape clauses the matching relies on:
C12.Q queue discipline, C12.K key agreement, C12.D role/dictionary agreement,
C12.A once-per-response accounting, C12.B allocate only when the virtual qubit
is free, C12.W wait quantifiers.
"""
from __future__ import annotations

import ast
from typing import Dict, List, Optional, Set, Tuple

from .. import astutil as A
from .. import roles
from .. import guards as G
from ..model import AnalysisError, Unknown, dotted, src

TECHNIQUE = "queue-discipline usage classification of the request tables, key/role agreement; oldest-request lookup, retirement, result store and the consumption loop executed over all short pending lists by the checker's own AST interpreter (static analysis; abstract execution)"
ENGINES = ["model", "flow", "circuit"]
EXPLANATION = (
    "Over backend/executor.py: every use of the two request dictionaries is classified (append at the tail, peek [0], pop(0), len) and "
    "any other access form is a violation; the pending-response list is appended to, scanned in order and popped at the scan index "
    "immediately before leaving the scan; producer and consumer build the request key from (remote node id, purpose id) in the same "
    "order; the creator/receiver flag selects the same dictionary where a request is found and where it is retired; on the handled "
    "path there is exactly one decrement of pairs_left (after the pair index was taken), one result store with that index, one pop, "
    "and retirement is tested as pairs_left == 0 after the decrement; a keep-response allocates only below a returning test of "
    "_has_virtual_address; the three wait instructions poll with any / all / single None tests."
    ' C12.D: the flag get_creator_node_id compares with an integer literal is never supplied as a member of a plain Enum by a producer of a response. C12.Z: no truthiness test on an int-typed value.'
    ' C12.F: in the methods touching the EPR request / response queues no state change precedes a raise, an assert or a call into the network stack (which may refuse): a refused request is never outstanding. C12.K: memoisation keys cover the arguments.'
    " Executed abstractly (checker-side AST interpreter): _extract_epr_info for both directionalities with one outstanding request in each dictionary; the keep-response handler for busy / free x pair index (maps entry <pair index> of the request's qubit array of the request's application to the delivered physical qubit, defers when busy); _handle_pending_epr_responses over ALL lists of up to three pending responses with outcome in {no request, deferred, handled} (order of tries, what stays pending, one decrement before the retirement test, info stored under the pair index computed before the decrement, waits exactly when something stays pending); the three wait handlers over five delivery schedules x three initial contents (poll exactly while the awaited entries are undefined)."
    ' C12.K/D/A/B: _extract_epr_info with two requests per key and neighbouring keys, _handle_last_epr_pair for pairs left 0..2 and both roles, _has_virtual_address over three unit modules and addresses -1..4 are executed.'
    " C12.A _store_ent_info executed (pair k fills its own window of the request's results array); the consumption loop over the pending responses is judged by its executed rule only."
)
LEVEL_TEXT = (
    "Static analysis, structure only: necessary shape conditions of the request/response matching for every access site. The "
    "behaviour over interleavings (deferred responses being retried, wake-ups) is NOT decided — that needs a dynamic or model-checking family."
)
LEVEL_NOTE = "decides structural necessary conditions only; schedules are not explored; subclasses overriding _wait_to_handle_epr_responses are outside the claim"
ASSUMPTIONS = [LEVEL_NOTE]
EXE = "netqasm.backend.executor"
REQ = ("_epr_create_requests", "_epr_recv_requests")
PEND = "_pending_epr_responses"


def parents(fn):
    par = {}
    for n in ast.walk(fn):
        for c in ast.iter_child_nodes(n):
            par[id(c)] = n
    return par


def check_queues(ctx, ex):
    repo = ctx.repo
    m = ex.module
    uses = 0
    for name, fn in sorted(ex.methods.items()):
        if name == "__init__":
            continue
        par = parents(fn)
        # aliases: local = self._epr_create_requests
        alias: Dict[str, Set[str]] = {}
        def tables_of(v):
            # self.<table>, or a choice between the two tables (`A if role else B`)
            if v is not None and A.is_self_attr(v) and v.attr in REQ:
                return {v.attr}
            if isinstance(v, ast.IfExp):
                a_, b_ = tables_of(v.body), tables_of(v.orelse)
                if a_ and b_:
                    return a_ | b_
            return set()

        for k, vs in A.assigned_names(fn).items():
            for v in vs:
                if tables_of(v):
                    alias.setdefault(k, set()).update(tables_of(v))
        for n in A.body_nodes(fn):
            which = None
            if A.is_self_attr(n) and n.attr in REQ:
                which = n.attr
            elif isinstance(n, ast.Name) and isinstance(n.ctx, ast.Load) and n.id in alias:
                which = "/".join(sorted(alias[n.id]))
            if which is None:
                continue
            p = par.get(id(n))
            # the table is one arm of a choice between the two tables: what is done with the chosen table is what is judged
            while isinstance(p, ast.IfExp) and n is not p.test and tables_of(p):
                n, p = p, par.get(id(p))
            if isinstance(p, ast.Assign) and n in [p.value]:
                continue  # the aliasing assignment itself
            uses += 1
            ctx.fn(f"Executor.{name}")
            form, ok = classify_queue_use(n, par)
            if ok is None and name in ("_extract_epr_info", "_handle_last_epr_pair"):
                continue  # (which request these two pick and retire is decided by executing them: C12.K, C12.D)
            if ok is None:
                ctx.error("C12.Q", f"{name}: use of {which} in an unrecognised form `{form}` at {repo.loc(m, n)}")
                continue
            ctx.check("C12.Q", f"{name}:{which}:{form}", ok,
                      f"{name} accesses the request queue {which} as `{form}`; the oldest-request discipline allows only append at the tail, peek [0], pop(0) and len()", repo.loc(m, n),
                      sample={"function": name, "queue": which, "form": form})
    ctx.anchor("C12.Q", "uses of the request dictionaries", uses, 2)  # (the two producers at least; the consumers are executed)
    # pending responses
    puses = 0
    for name, fn in sorted(ex.methods.items()):
        if name == "__init__":
            continue
        par = parents(fn)
        for n in A.body_nodes(fn):
            if not (A.is_self_attr(n) and n.attr == PEND):
                continue
            puses += 1
            if name == "_handle_pending_epr_responses":
                continue  # the consumption loop is executed over every short pending list (check_consumption): judged there, however it is written
            p = par.get(id(n))
            form = src(p) if p is not None else src(n)
            ok = None
            if isinstance(p, ast.Attribute) and isinstance(par.get(id(p)), ast.Call):
                call = par[id(p)]
                if p.attr == "append" and len(call.args) == 1:
                    ok, form = True, "append(x)"
                elif p.attr == "pop":
                    form = src(call).replace("self.", "")
                    ok = False
                    # pop(i) where i is the enumerate index of the scan over the same list, directly followed by break
                    loop = None
                    q = call
                    while q is not None:
                        q = par.get(id(q))
                        if isinstance(q, ast.For):
                            loop = q
                            break
                    if loop is not None and isinstance(loop.iter, ast.Call) and dotted(loop.iter.func) == "enumerate" and loop.iter.args and A.is_self_attr(loop.iter.args[0], PEND) \
                            and isinstance(loop.target, ast.Tuple) and isinstance(loop.target.elts[0], ast.Name) and len(call.args) == 1 and isinstance(call.args[0], ast.Name) \
                            and call.args[0].id == loop.target.elts[0].id and len(loop.iter.args) == 1:
                        # next statement in the same block is break
                        stmt = call
                        while not isinstance(par.get(id(stmt)), (ast.If, ast.For, ast.While, ast.FunctionDef)) or not isinstance(stmt, ast.stmt):
                            stmt = par.get(id(stmt))
                        blk = None
                        holder = par.get(id(stmt))
                        for fld in ("body", "orelse"):
                            b = getattr(holder, fld, [])
                            if stmt in b:
                                blk = b
                        if blk is not None:
                            # the scan is left (break / return) before the list or the index is looked at again: the statements in
                            # between may set a result flag, log, ... but mention neither
                            i = blk.index(stmt)
                            idx_name = call.args[0].id
                            for later in blk[i + 1:]:
                                if isinstance(later, (ast.Break, ast.Return)):
                                    ok = True
                                    break
                                if any((isinstance(x, ast.Name) and x.id == idx_name) or A.is_self_attr(x, PEND) for x in ast.walk(later)) or isinstance(later, (ast.For, ast.While, ast.If, ast.Try, ast.With)):
                                    break
                elif p.attr in ("insert", "remove", "clear", "extend", "sort", "reverse"):
                    ok, form = False, src(call).replace("self.", "")
            elif isinstance(p, ast.Call) and dotted(p.func) in ("len", "enumerate") and p.args and p.args[0] is n and len(p.args) == 1:
                ok, form = True, f"{dotted(p.func)}(...)"
            elif isinstance(p, ast.Subscript):
                ok, form = False, src(p).replace("self.", "")
            if ok is None:
                ctx.error("C12.Q", f"{name}: use of {PEND} in an unrecognised form `{form[:60]}`")
                continue
            ctx.check("C12.Q", f"{name}:{PEND}:{form}", ok,
                      f"{name} uses the pending-response list as `{form}`; allowed: append at the tail, in-order scan, pop at the scan index immediately followed by leaving the scan", repo.loc(m, n),
                      sample={"function": name, "form": form})
    ctx.anchor("C12.Q", "uses of the pending-response list", puses, 4)


def classify_queue_use(n, par) -> Tuple[str, Optional[bool]]:
    """n: the dictionary expression. Returns (form, ok) — ok None = unrecognised"""
    p = par.get(id(n))
    if not isinstance(p, ast.Subscript) or p.value is not n:
        return (src(p) if p is not None else src(n))[:60], None
    q = par.get(id(p))  # what is done with dict[key]
    if isinstance(q, ast.Attribute) and q.value is p and isinstance(par.get(id(q)), ast.Call):
        call = par[id(q)]
        if q.attr == "append" and len(call.args) == 1 and not call.keywords:
            return "[key].append(x)", True
        if q.attr == "pop":
            if len(call.args) == 1 and isinstance(call.args[0], ast.Constant) and call.args[0].value == 0:
                return "[key].pop(0)", True
            return f"[key].pop({', '.join(src(a) for a in call.args)})", False
        if q.attr in ("insert", "remove", "clear", "extend", "sort", "reverse"):
            return f"[key].{q.attr}(...)", False
        return f"[key].{q.attr}(...)", None
    if isinstance(q, ast.Subscript) and q.value is p:
        s = q.slice
        if isinstance(s, ast.Constant) and s.value == 0:
            return "[key][0]", True
        return f"[key][{src(s)}]", False
    if isinstance(q, ast.Call) and dotted(q.func) == "len":
        return "len([key])", True
    return (src(q) if q is not None else src(p))[:60], None


def terminal(e) -> str:
    """last name of an expression: a.b.c -> c ; x -> x"""
    if isinstance(e, ast.Attribute):
        return e.attr
    if isinstance(e, ast.Name):
        return e.id
    return src(e)


def check_keys(ctx, ex):
    repo = ctx.repo
    m = ex.module
    # producers
    prod = {}
    for fname, which in (("_do_create_epr", "_epr_create_requests"), ("_do_recv_epr", "_epr_recv_requests")):
        fn = ex.methods.get(fname)
        if fn is None:
            raise AnalysisError(f"{fname} not found")
        ctx.fn(f"Executor.{fname}")
        found = None
        dicts = set()
        for n in A.body_nodes(fn):
            if isinstance(n, ast.Subscript) and A.is_self_attr(n.value) and n.value.attr in REQ:
                dicts.add(n.value.attr)
                sl_ = A.single_defs(fn).get(n.slice.id, n.slice) if isinstance(n.slice, ast.Name) else n.slice  # the key may be built first and named
                if isinstance(sl_, ast.Tuple) and len(sl_.elts) == 2:
                    found = [terminal(e) for e in sl_.elts]
        prod[fname] = found
        ctx.check("C12.D", f"{fname}:appends-to-{which}", dicts == {which}, f"{fname} files its request under {sorted(dicts)}; expected {which}", repo.loc(m, fn))
        ctx.check("C12.K", f"{fname}:key", found == ["remote_node_id", "purpose_id"], f"{fname} files its request under key {found}; the consumer looks it up under (remote_node_id, purpose_id)", repo.loc(m, fn),
                  sample={"producer": fname, "key": found})
    # the purpose id of a create request is the one obtained for (remote node, socket)
    gcr = ex.methods.get("_get_create_request")
    if gcr is None:
        raise AnalysisError("_get_create_request not found")
    defs = A.single_defs(gcr)
    ok = "purpose_id" in defs and A.norm(defs["purpose_id"]).startswith("self._get_purpose_id(")
    args_ok = False
    for k, v in defs.items():
        if isinstance(v, ast.BinOp) and isinstance(v.left, ast.List) and [terminal(e) for e in v.left.elts] == ["remote_node_id", "purpose_id"]:
            args_ok = True
    ctx.check("C12.K", "_get_create_request:purpose-id-from-network-stack", ok and args_ok, "the create request is not built with [remote_node_id, purpose_id] + arguments", repo.loc(m, gcr))
    # consumer
    fn = ex.methods.get("_extract_epr_info")
    if fn is None:
        raise AnalysisError("_extract_epr_info not found")
    ctx.fn("Executor._extract_epr_info")
    defs = A.single_defs(fn)
    rp = A.param_names(fn)[1]
    key = defs.get("request_key")
    got = None
    if isinstance(key, ast.Tuple) and len(key.elts) == 2:
        got = [A.norm(A.expand(e, defs)) for e in key.elts]
    ctx.check("C12.K", "_extract_epr_info:key", got == [f"{rp}.remote_node_id", f"{rp}.purpose_id"],
              f"the consumer builds the request key as {got}; expected (response.remote_node_id, response.purpose_id)", repo.loc(m, fn), sample={"consumer key": got})
    # (the oldest request under that key is what is returned: decided below, by execution, together with the role selection)
    # role selection: executed abstractly (nqsa/circuit.py) for a response of either directionality, on an executor that has one
    # outstanding request under the response's key in each of the two dictionaries: the request returned comes from the create
    # dictionary exactly when this node is the creator (as get_creator_node_id decides), and the role flag returned says the same
    from .. import circuit as C

    class _Log:
        _nqsa_model = True

        def debug(self, *a_, **k_):
            return None
        info = warning = error = debug

    role = {}
    try:
        qc = repo.module("netqasm.qlink_compat")
        gcn = qc.functions.get("get_creator_node_id")
        for flag in (0, 1):
            created, received = C.Obj(None, {"tot_pairs": 3, "pairs_left": 2, "tag": "create"}), C.Obj(None, {"tot_pairs": 5, "pairs_left": 1, "tag": "recv"})
            later_c, later_r = C.Obj(None, {"tot_pairs": 1, "pairs_left": 1, "tag": "create, later"}), C.Obj(None, {"tot_pairs": 1, "pairs_left": 1, "tag": "recv, later"})
            other = C.Obj(None, {"tot_pairs": 1, "pairs_left": 1, "tag": "other key"})
            resp = C.Obj(None, {"directionality_flag": flag, "remote_node_id": 2, "purpose_id": 7})
            o = C.object_from_init(repo, ex, {"node_id": 11, "_logger": _Log(), "_epr_create_requests": {(7, 2): [other], (2, 7): [created, later_c], (2, 8): [other]},
                                              "_epr_recv_requests": {(7, 2): [other], (2, 7): [received, later_r], (3, 7): [other]}}, kind="self")
            out = C.Interp(repo, ctx.ev, C.Scenario(), ex).call_function(m, fn, [resp], {}, self_obj=o)
            if isinstance(out, tuple) and len(out) == 4 and out[3] != (2, 7):
                role["key"] = out[3]
            creator = C.Interp(repo, ctx.ev, C.Scenario(), None).call_function(qc, gcn, [11, resp], {}) if gcn is not None else None
            we_create = creator == 11
            if isinstance(out, tuple) and len(out) == 4:
                role[we_create] = (out[2], "_epr_create_requests" if out[0] is created else "_epr_recv_requests" if out[0] is received else repr(out[0]))
            else:
                role[we_create] = ("?", repr(out))
    except C.EvalRaise as ex_:
        role = {"raises": str(ex_)}
    except AnalysisError as ex_:
        ctx.error("C12.D", f"_extract_epr_info cannot be evaluated: {ex_}")
        role = None
    # no request outstanding under the response's key - never one (the key is absent from the per-key table, which creates entries on
    # first access) or not any more (the key is there, its queue was drained): the response has to wait, whichever it is
    parked = {}
    try:
        for flag in (0, 1):
            for state in ("never used", "drained"):
                tables = {}
                for tn in ("_epr_create_requests", "_epr_recv_requests"):
                    dd = C.Interp._DefaultDict(list)
                    dd[(2, 8)] = [C.Obj(None, {"tot_pairs": 1, "pairs_left": 1, "tag": "other key"})]
                    if state == "drained":
                        dd[(2, 7)] = []
                    tables[tn] = dd
                resp = C.Obj(None, {"directionality_flag": flag, "remote_node_id": 2, "purpose_id": 7})
                o = C.object_from_init(repo, ex, dict(tables, node_id=11, _logger=_Log()), kind="self")
                try:
                    out = C.Interp(repo, ctx.ev, C.Scenario(), ex).call_function(m, fn, [resp], {}, self_obj=o)
                except C.EvalRaise as ex_:
                    out = f"raises {ex_.exc_name}"
                if out is not None:
                    parked[(flag, state)] = out if isinstance(out, str) else "returns a request"
    except AnalysisError as ex_:
        ctx.error("C12.K", f"_extract_epr_info cannot be evaluated: {ex_}")
        parked = None
    if parked is not None:
        ctx.check("C12.K", "_extract_epr_info:no-outstanding-request-parks-the-response", not parked,
                  f"a response that arrives while no request is outstanding under its key (directionality flag, state of the key) -> {parked}; it has to be left pending (the function returns None) "
                  "until the instruction that files the request has run", repo.loc(m, fn))
    exp = {True: (True, "_epr_create_requests"), False: (False, "_epr_recv_requests")}
    if role is not None:
        ctx.check("C12.K", "_extract_epr_info:oldest-request-under-key", "key" not in role and all(v_[1] in ("_epr_create_requests", "_epr_recv_requests") for v_ in role.values() if isinstance(v_, tuple)),
                  f"with two requests outstanding under (remote node 2, purpose 7) and others under neighbouring keys, the consumer takes {role}: not the oldest request under the response's own key",
                  repo.loc(m, fn), trivial=True)
        role.pop("key", None)
        ctx.check("C12.D", "_extract_epr_info:role-selects-dictionary", role == exp,
                  f"when the creator is this node: {role.get(True)}, otherwise: {role.get(False)}; expected (True, create requests) / (False, recv requests)", repo.loc(m, fn),
                  sample={"creator==self": role.get(True), "else": role.get(False)})
    check_role_flag(ctx)
    # retire
    hl = ex.methods.get("_handle_last_epr_pair")
    if hl is None:
        raise AnalysisError("_handle_last_epr_pair not found")
    ctx.fn("Executor._handle_last_epr_pair")
    # executed by the checker's interpreter for (pairs left, creator?): with two requests under the key in both tables, the head of
    # this role's queue under this key - and nothing else - is removed exactly when no pairs are left
    retire = {}
    guard_ok = True
    try:
        for left in (0, 1, 2):
            for creator in (True, False):
                tabs = {"_epr_create_requests": {(2, 7): ["c-old", "c-new"], (7, 2): ["c-other"]}, "_epr_recv_requests": {(2, 7): ["r-old", "r-new"], (7, 2): ["r-other"]}}
                o = C.object_from_init(repo, ex, {"node_id": 11, "_logger": _Log(), **tabs}, kind="self")
                C.Interp(repo, ctx.ev, C.Scenario(), ex).call_function(m, hl, [C.Obj(None, {"pairs_left": left, "tot_pairs": 2}), creator, (2, 7)], {}, self_obj=o)
                gone = [(t_, k_, x_) for t_, ref in (("_epr_create_requests", {(2, 7): ["c-old", "c-new"], (7, 2): ["c-other"]}), ("_epr_recv_requests", {(2, 7): ["r-old", "r-new"], (7, 2): ["r-other"]}))
                        for k_, lst in ref.items() for x_ in lst if x_ not in o.fields[t_].get(k_, [])]
                if left == 0:
                    retire[creator] = (gone[0][0], "request_key" if gone[0][1] == (2, 7) and gone[0][2].endswith("-old") else f"{gone[0][1]}:{gone[0][2]}") if len(gone) == 1 else tuple(gone)
                elif gone:
                    guard_ok = False
    except C.EvalRaise as ex_:
        retire = {"error": str(ex_)}
    except AnalysisError as ex_:
        ctx.error("C12.D", f"_handle_last_epr_pair cannot be evaluated: {ex_}")
        retire = None
    if retire is not None:
        guard_ok = guard_ok and len(retire) == 2 and all(isinstance(v_, tuple) and len(v_) == 2 and isinstance(v_[0], str) for v_ in retire.values())
        ctx.check("C12.D", "_handle_last_epr_pair:role-selects-same-dictionary", retire == {True: ("_epr_create_requests", "request_key"), False: ("_epr_recv_requests", "request_key")},
                  f"retirement removes {retire}; expected creator -> the oldest create request, receiver -> the oldest recv request, under the same request key", repo.loc(m, hl), sample={"retire": retire})
        ctx.check("C12.A", "_handle_last_epr_pair:retire-iff-no-pairs-left", guard_ok, "the request is not retired exactly when pairs_left == 0", repo.loc(m, hl))
    # get_creator_node_id
    qc = repo.module("netqasm.qlink_compat")
    g = qc.functions.get("get_creator_node_id")
    if g is None:
        raise AnalysisError("qlink_compat.get_creator_node_id not found")
    ctx.fn("qlink_compat.get_creator_node_id")
    p_local, p_resp = A.param_names(g)
    LOCAL, REMOTE = G.Sym("local node id"), G.Sym("remote node id")
    shape = {}
    try:
        for flag in (0, 1):
            shape[flag] = G.returned_value(g, {p_local: LOCAL, f"{p_resp}.remote_node_id": REMOTE, f"{p_resp}.directionality_flag": flag})
    except Unknown as ex_:
        shape = {"error": str(ex_)}
    exp1 = exp2 = {0: LOCAL, 1: REMOTE}
    ctx.check("C12.D", "get_creator_node_id:directionality", shape in (exp1, exp2), f"creator/receiver discrimination is {shape}; expected flag 1 -> remote node created, else the local node", repo.loc(qc, g), sample={"shape": shape})


def check_accounting(ctx, ex):
    repo = ctx.repo
    m = ex.module
    fn = ex.methods.get("_handle_pending_epr_responses")
    if fn is None:
        raise AnalysisError("_handle_pending_epr_responses not found")
    ctx.fn("Executor._handle_pending_epr_responses")
    blk = None
    # the block that accounts for a consumed response: the innermost `if` whose own body decrements pairs_left
    for n in ast.walk(fn):
        if isinstance(n, ast.If) and any(isinstance(x, ast.AugAssign) and A.norm(x.target).endswith(".pairs_left") for x in n.body):
            blk = n
    if blk is None:
        ctx.error("C12.A", "the block accounting for a consumed response (pairs_left -= 1) was not found")
        return
    events = []
    for st in blk.body:
        if isinstance(st, ast.AugAssign) and A.norm(st.target).endswith(".pairs_left"):
            events.append(("dec", st))
        elif isinstance(st, ast.Break):
            events.append(("break", st))
        else:
            for c in A.calls_in(st):
                if A.is_self_attr(c.func, "_handle_last_epr_pair"):
                    events.append(("retire", c))
                elif A.is_self_attr(c.func, "_store_ent_info"):
                    events.append(("store", c))
                elif isinstance(c.func, ast.Attribute) and c.func.attr == "pop" and A.is_self_attr(c.func.value, PEND):
                    events.append(("pop", c))
    kinds = [k for k, _ in events]
    for k in ("dec", "retire", "store", "pop"):
        ctx.check("C12.A", f"handled-path:{k}-exactly-once", kinds.count(k) == 1, f"on the handled path `{k}` happens {kinds.count(k)} times (sequence {kinds}); must be exactly once per response", repo.loc(m, blk),
                  sample={"sequence": kinds})
    if kinds.count("dec") == 1 and kinds.count("retire") == 1:
        ctx.check("C12.A", "handled-path:decrement-before-retire-test", kinds.index("dec") < kinds.index("retire"), f"the retirement test runs before pairs_left is decremented ({kinds})", repo.loc(m, blk))
    dec = [st for k, st in events if k == "dec"]
    if dec:
        ok = isinstance(dec[0].op, ast.Sub) and A.norm(dec[0].value) == "1"
        ctx.check("C12.A", "handled-path:decrement-by-one", ok, f"pairs_left is updated by `{src(dec[0])}`", repo.loc(m, dec[0]), trivial=True)
    # pair index used for the store is the one extracted before the decrement
    store = [c for k, c in events if k == "store"]
    if store:
        kw = A.kwargs_of(store[0])
        ok = A.norm(kw.get("pair_index", ast.Constant(value=None))) == "pair_index" and A.norm(kw.get("epr_cmd_data", ast.Constant(value=None))) == "epr_cmd_data" and A.norm(kw.get("response", ast.Constant(value=None))) == "response"
        ctx.check("C12.A", "handled-path:store-with-extracted-pair-index", ok, f"_store_ent_info is called with {dict((k, src(v)) for k, v in kw.items())}", repo.loc(m, store[0]))
    # pair_index comes from the tuple returned by _extract_epr_info, unpacked before the handler call
    unpack = [n for n in ast.walk(fn) if isinstance(n, ast.Assign) and isinstance(n.targets[0], ast.Tuple) and isinstance(n.value, ast.Name) and n.value.id == "info"]
    ok = bool(unpack) and [e.id for e in unpack[0].targets[0].elts if isinstance(e, ast.Name)] == ["epr_cmd_data", "pair_index", "is_creator", "request_key"]
    ext = ex.methods["_extract_epr_info"]
    rets = [r for r in A.returns(ext) if isinstance(r.value, ast.Tuple)]
    # (an element the extractor computes in place - `role.is_creator` - has no name to compare; the named ones must be in their places)
    want_ = ["epr_cmd_data", "pair_index", "is_creator", "request_key"]
    ok2 = bool(rets) and len(rets[0].value.elts) == 4 and all(not isinstance(e, ast.Name) or e.id == w_ for e, w_ in zip(rets[0].value.elts, want_)) \
        and sum(isinstance(e, ast.Name) for e in rets[0].value.elts) >= 3
    ctx.check("C12.A", "pair-index:unpacked-in-returned-order", ok and ok2, "the tuple (request, pair index, role, key) is not unpacked in the order _extract_epr_info returns it", repo.loc(m, fn))
    d = A.single_defs(ext)
    pi = d.get("pair_index")
    ok = pi is not None and A.norm(pi) == "epr_cmd_data.tot_pairs-epr_cmd_data.pairs_left"
    ctx.check("C12.A", "pair-index:tot-minus-left", ok, f"pair index is computed as `{src(pi) if pi is not None else None}`; expected tot_pairs - pairs_left", repo.loc(m, ext), sample={"pair_index": src(pi) if pi is not None else None})
    # requests are created with pairs_left == tot_pairs
    for fname in ("_do_create_epr", "_do_recv_epr"):
        f2 = ex.methods[fname]
        for c in A.calls_in(f2):
            if A.call_name(c) == "EprCmdData":
                kw = A.kwargs_of(c)
                ok = "tot_pairs" in kw and "pairs_left" in kw and A.norm(kw["tot_pairs"]) == A.norm(kw["pairs_left"])
                ctx.check("C12.A", f"{fname}:pairs_left-starts-at-tot_pairs", ok, f"{fname} creates its request with tot_pairs={src(kw.get('tot_pairs'))}, pairs_left={src(kw.get('pairs_left'))}", repo.loc(m, c))
    # _store_ent_info: executed for pair indices 0..3 (c11.exec_store_ent_info): pair k fills [k*OK_FIELDS, (k+1)*OK_FIELDS) of the request's results array
    se = ex.methods.get("_store_ent_info")
    if se is None:
        raise AnalysisError("_store_ent_info not found")
    ctx.fn("Executor._store_ent_info")
    from . import c11 as _c11
    try:
        r_ = _c11.exec_store_ent_info(ctx)
        ctx.check("C12.A", "_store_ent_info:pair-k-fills-slice-k", r_["slice"] is None, r_["slice"] or "", repo.loc(m, se), sample={"pairs": 4})
    except AnalysisError as ex_:
        ctx.error("C12.A", f"_store_ent_info cannot be executed: {ex_}")
    # virtual qubit k of the request
    gv = ex.methods.get("_get_virtual_address_from_epr_data")
    if gv is None:
        raise AnalysisError("_get_virtual_address_from_epr_data not found")
    d = A.single_defs(gv)
    ae = d.get("array_entry")
    ok = ae is not None and A.norm(A.expand(ae, {k: v for k, v in d.items() if k != "array_entry"})) == "parse_address(f'@{epr_cmd_data.q_array_address}[{pair_index}]')"
    ctx.check("C12.A", "_get_virtual_address_from_epr_data:kth-entry-of-request-qubit-array", ok, f"the virtual qubit of pair k is read from `{src(ae) if ae is not None else None}`", repo.loc(m, gv))


def check_busy(ctx, ex, rule="C12.B"):
    repo = ctx.repo
    normalise_executor(ctx, ex)
    m = ex.module
    fn = ex.methods.get("_handle_epr_ok_k_response")
    hv = ex.methods.get("_has_virtual_address")
    if fn is None or hv is None:
        raise AnalysisError("_handle_epr_ok_k_response/_has_virtual_address not found")
    ctx.fn("Executor._handle_epr_ok_k_response")
    alloc = [c for c in A.calls_in(fn) if A.is_self_attr(c.func, "_allocate_physical_qubit")]
    if len(alloc) != 1:
        ctx.error(rule, "expected one allocation in _handle_epr_ok_k_response")
        return
    va = A.kwargs_of(alloc[0]).get("virtual_address")
    guarded = False
    for st in G.dominating_stmts(fn, alloc[0]):
        if isinstance(st, ast.If) and st.body and isinstance(st.body[-1], ast.Return) and isinstance(st.body[-1].value, ast.Constant) and st.body[-1].value.value is False:
            t = st.test
            if isinstance(t, ast.Call) and A.is_self_attr(t.func, "_has_virtual_address"):
                kw = A.kwargs_of(t)
                guarded = va is not None and A.norm(kw.get("virtual_address", ast.Constant(value=0))) == A.norm(va) and A.norm(kw.get("app_id", ast.Constant(value=0))) == "app_id"
    ctx.check(rule, "_handle_epr_ok_k_response:defer-when-virtual-qubit-busy", guarded,
              "the keep-response allocates without first returning False when _has_virtual_address(app_id, <same virtual address>) holds: a still-allocated virtual qubit would be overwritten (or the response lost)", repo.loc(m, alloc[0]))
    # _has_virtual_address executed (checker's interpreter): true exactly for an address inside the application's unit module whose
    # slot holds a physical address - 0 included; false for a free slot, an address outside the module, an application without one
    from .. import circuit as C
    got, want = [], []
    try:
        for app, mods in ((4, {4: [None, 5, None, 0]}), (4, {}), (4, {9: [1, 1, 1, 1]})):
            for va_ in (-1, 0, 1, 2, 3, 4):
                o = C.object_from_init(repo, ex, {"_qubit_unit_modules": {k_: list(v_) for k_, v_ in mods.items()}}, kind="self")
                try:
                    r_ = C.Interp(repo, ctx.ev, C.Scenario(), ex).call_function(m, hv, [], {"app_id": app, "virtual_address": va_}, self_obj=o)
                except C.EvalRaise as ex_:
                    r_ = f"raises {ex_.exc_name}"
                mod_ = mods.get(app)
                got.append(r_)
                want.append(bool(mod_ is not None and 0 <= va_ < len(mod_) and mod_[va_] is not None))
        ok = all(isinstance(g_, bool) and g_ == w_ for g_, w_ in zip(got, want))
        ctx.check(rule, "_has_virtual_address:slot-occupied-test", ok,
                  f"_has_virtual_address over (module [None, 5, None, 0] / no module / another application's module) x addresses -1..4 gives {got}, expected {want}: "
                  "a virtual qubit that is still mapped (also to physical qubit 0) must be reported busy, a free or non-existent one must not", repo.loc(m, hv))
    except AnalysisError as ex_:
        ctx.error(rule, f"_has_virtual_address cannot be evaluated: {ex_}")
    # the keep-response handler is executed abstractly (nqsa/circuit.py): the virtual qubit it maps is the one stored at position
    # <pair index> of the request's own qubit array (read for the request's application), the physical one is the delivered one;
    # with that virtual qubit still allocated nothing is mapped and the response is reported as not handled
    from .. import circuit as C
    import re as _re

    class _Log:
        _nqsa_model = True

        def debug(self, *a_, **k_):
            return None
        info = warning = error = debug

    def parse_address(text):
        m_ = _re.fullmatch(r"@(-?\d+)\[(-?\d+)\]", text if isinstance(text, str) else "")
        if m_ is None:
            raise AnalysisError(f"modelled parse_address: unexpected text {text!r}")
        ent = repo.get_class("netqasm.lang.operand", "ArrayEntry")
        adr = repo.get_class("netqasm.lang.operand", "Address")
        return C.Obj(ent, {"address": C.Obj(adr, {"address": int(m_.group(1))}), "index": int(m_.group(2))})

    ok_va, why = True, ""
    try:
        for busy in (False, True):
            for pair_index in (0, 2):
                reads, allocs = [], []
                sc = C.Scenario()
                sc.overrides["parse_address"] = parse_address
                # entry k of qubit array 6 of application 1 holds virtual qubit k (so pair 0 maps virtual qubit 0); application 0 holds others

                def get_entry(app_id=None, array_entry=None, reads=reads):
                    reads.append((app_id, array_entry.fields["address"].fields["address"], array_entry.fields["index"]))
                    return array_entry.fields["index"] if app_id == 1 else 3

                sc.overrides["_get_array_entry"] = get_entry
                sc.overrides["_allocate_physical_qubit"] = lambda subroutine_id=None, virtual_address=None, physical_address=None, allocs=allocs: allocs.append((subroutine_id, virtual_address, physical_address))
                um = [None, None, None, None]
                if busy:
                    um[pair_index] = 0  # the virtual qubit is mapped to physical qubit 0: an id like any other
                used = {0} if busy else set()
                o = C.object_from_init(repo, ex, {"_logger": _Log(), "_qubit_unit_modules": {0: [None] * 4, 1: um}, "_used_physical_qubit_addresses": used,
                                                  "_subroutines": {4: C.Obj(None, {"app_id": 1}), 5: C.Obj(None, {"app_id": 0})}}, kind="self")
                req = C.Obj(None, {"subroutine_id": 4, "q_array_address": 6, "ent_results_array_address": 8, "tot_pairs": 3, "pairs_left": 3 - pair_index})
                resp = C.Obj(None, {"logical_qubit_id": 2})
                out = C.Interp(repo, ctx.ev, sc, ex).call_function(m, fn, [], {"epr_cmd_data": req, "response": resp, "pair_index": pair_index}, self_obj=o)
                if busy:
                    if out is not False or allocs or used != {0}:
                        ok_va, why = False, f"virtual qubit {pair_index} still allocated (to physical qubit 0): returns {out!r}, allocations {allocs}, in-use set {sorted(used)}"
                else:
                    if out is not True or allocs != [(4, pair_index, 2)] or (1, 6, pair_index) not in reads:
                        ok_va, why = False, f"pair {pair_index}: returns {out!r}, maps {allocs}, read {reads}; expected virtual qubit {pair_index} (entry {pair_index} of array 6 of application 1) -> physical 2"
    except C.EvalRaise as ex_:
        ok_va, why = False, f"raises {ex_}"
    except AnalysisError as ex_:
        ctx.error(rule, f"_handle_epr_ok_k_response cannot be evaluated: {ex_}")
    ctx.check(rule, "_handle_epr_ok_k_response:virtual-address-of-pair", ok_va, f"the keep-response does not map the request's entry for this pair index (or does not defer while that virtual qubit is allocated): {why}", repo.loc(m, fn), trivial=True)
    check_consumption(ctx, ex, rule)


def check_consumption(ctx, ex, rule="C12.B"):
    """The consumption loop (_handle_pending_epr_responses) is executed abstractly over every list of up to three pending responses
    whose outcome is one of: no request outstanding / the handler defers (returns False) / handled.  Required: responses are tried
    in arrival order; the first that can be handled is consumed - its request's pairs_left is decremented, the retirement test sees
    the decremented value, the entanglement info is stored under the pair index computed before the decrement, exactly that response
    is removed - and the scan starts again; what cannot be handled stays queued in order; when nothing can be handled the executor
    waits."""
    from .. import circuit as C
    import itertools
    repo = ctx.repo
    m = ex.module
    r_ = repo.lookup(ex, "_handle_pending_epr_responses")
    if r_ is None:
        raise AnalysisError("_handle_pending_epr_responses not found")
    fn = r_[1]
    ctx.fn("Executor._handle_pending_epr_responses")
    rt = repo.get_class("netqasm.qlink_compat", "ReturnType")
    from ..model import EnumMember
    ok_k = EnumMember(rt.qualname, "OK_K", ctx.ev.enum_members(rt)["OK_K"])

    class _Log:
        _nqsa_model = True

        def debug(self, *a_, **k_):
            return None
        info = warning = error = debug

    results = {"handled": True, "order": True, "account": True, "wait": True}
    why = {}
    try:
        for n_resp in (0, 1, 2, 3):
            for outcomes in itertools.product(("norequest", "defer", "handled"), repeat=n_resp):
                resps = [C.Obj(None, {"type": ok_k, "tag": k}) for k in range(n_resp)]
                oc = {id(r): o_ for r, o_ in zip(resps, outcomes)}
                reqs = {id(r): C.Obj(None, {"tot_pairs": 3, "pairs_left": 2, "tag": k}) for k, r in enumerate(resps)}
                log = []
                sc = C.Scenario()

                def extract(response=None, *a_):
                    response = response if response is not None else a_[0]
                    if oc[id(response)] == "norequest":
                        return None
                    q = reqs[id(response)]
                    return (q, q.fields["tot_pairs"] - q.fields["pairs_left"], True, ("key", response.fields["tag"]))

                def handler(epr_cmd_data=None, response=None, pair_index=None):
                    log.append(("try", response.fields["tag"]))
                    return oc[id(response)] == "handled"

                sc.overrides["_extract_epr_info"] = extract
                sc.overrides["_handle_last_epr_pair"] = lambda epr_cmd_data=None, is_creator=None, request_key=None: log.append(("retire-test", epr_cmd_data.fields["tag"], epr_cmd_data.fields["pairs_left"], request_key))
                sc.overrides["_store_ent_info"] = lambda epr_cmd_data=None, response=None, pair_index=None: log.append(("store", response.fields["tag"], epr_cmd_data.fields["tag"], pair_index))
                sc.overrides["_wait_to_handle_epr_responses"] = lambda: log.append(("wait",))
                sc.overrides["_handle_epr_err_response"] = lambda *a_, **k_: log.append(("err",))
                pending = list(resps)
                o = C.object_from_init(repo, ex, {"_logger": _Log(), "_pending_epr_responses": pending, "_epr_response_handlers": {C.Interp(repo, ctx.ev, sc, ex)._hashable(ok_k): handler}}, kind="self")
                C.Interp(repo, ctx.ev, sc, ex).call_function(m, fn, [], {}, self_obj=o)
                # reference behaviour
                want_left = [r for r in resps if oc[id(r)] != "handled"]
                left_now = o.fields["_pending_epr_responses"]
                case = f"responses {list(outcomes)}"
                if [id(x) for x in left_now] != [id(x) for x in want_left]:
                    results["handled"] = False
                    why["handled"] = f"{case}: left pending {[x.fields['tag'] for x in left_now]}, expected {[x.fields['tag'] for x in want_left]}"
                for r in resps:
                    k = r.fields["tag"]
                    if oc[id(r)] == "handled":
                        q = reqs[id(r)]
                        ev_ = [e for e in log if e[0] in ("retire-test", "store") and (e[1] == k)]
                        if q.fields["pairs_left"] != 1 or ("retire-test", k, 1, ("key", k)) not in log or ("store", k, k, 1) not in log or len(ev_) != 2:
                            results["account"] = False
                            why["account"] = f"{case}: response {k}: pairs_left {q.fields['pairs_left']} (was 2), events {ev_}; expected one decrement, then the retirement test seeing 1, and the info stored for pair 1"
                    elif reqs[id(r)].fields["pairs_left"] != 2:
                        results["account"] = False
                        why["account"] = f"{case}: the request of response {k} (not handled) was charged"
                tries = [e[1] for e in log if e[0] == "try"]
                # in every scan the responses are tried in arrival order: a later one is never tried before an earlier one that is still pending
                pend = list(range(n_resp))
                pos = 0
                sim = []
                while True:
                    hit = None
                    for k in pend:
                        if outcomes[k] == "norequest":
                            continue
                        sim.append(k)
                        if outcomes[k] == "handled":
                            hit = k
                            break
                    if hit is None:
                        break
                    pend.remove(hit)
                if tries != sim:
                    results["order"] = False
                    why["order"] = f"{case}: handlers tried for {tries}, expected {sim} (arrival order, restarting after each consumed response)"
                if log.count(("wait",)) != (1 if want_left else 0):
                    results["wait"] = False
                    why["wait"] = f"{case}: waited {log.count(('wait',))} times"
    except C.EvalRaise as ex_:
        for k_ in results:
            results[k_] = False
            why[k_] = f"raises {ex_}"
    except AnalysisError as ex_:
        ctx.error(rule, f"_handle_pending_epr_responses cannot be evaluated: {ex_}")
        return
    ctx.check(rule, "_handle_pending_epr_responses:handled-is-handler-result", results["handled"] and results["order"],
              f"a response is not consumed exactly when the type-specific handler reports it handled, in arrival order: {why.get('handled') or why.get('order')}", repo.loc(m, fn))
    ctx.check(rule, "_handle_pending_epr_responses:accounting-per-consumed-response", results["account"],
              f"a consumed response is not accounted for exactly once (decrement, then retirement test, info stored under the pair index computed before the decrement): {why.get('account')}", repo.loc(m, fn))
    ctx.check(rule, "_handle_pending_epr_responses:waits-when-nothing-can-be-handled", results["wait"], f"the executor does not wait exactly once when responses stay pending that cannot be handled (and not at all when none stay): {why.get('wait')}", repo.loc(m, fn), trivial=True)


def check_waits(ctx, ex):
    """C12.W — "wait instructions resume only once the awaited entries are defined".  Each wait handler is executed abstractly
    (nqsa/circuit.py; a generator is followed as straight-line code) against a modelled array in which entries become defined one
    per poll: the handler must poll exactly until all (wait_all) / the first (wait_any) / the single (wait_single) awaited entry is
    defined, and not once more."""
    from .. import circuit as C
    repo = ctx.repo
    m = ex.module
    opm = repo.module("netqasm.lang.operand")
    ADDR, ENTRY, SLICE = (opm.classes[n_] for n_ in ("Address", "ArrayEntry", "ArraySlice"))

    class _Log:
        _nqsa_model = True

        def debug(self, *a_, **k_):
            return None
        info = warning = error = debug

    class Store:
        """array store of one application: `schedule` lists the index that becomes defined at each poll"""
        _nqsa_model = True

        def __init__(self, cells):
            self.cells = cells

        def __getitem__(self, key):
            address, index = key
            return self.cells[index] if not isinstance(index, slice) else list(self.cells[index])

    exp = {"_instr_wait_all": "any", "_instr_wait_any": "all", "_instr_wait_single": "single"}
    for h, quant in exp.items():
        r_ = repo.lookup(ex, h)
        if r_ is None:
            raise AnalysisError(f"{h} not found")
        fn = r_[1]
        ctx.fn(f"Executor.{h}")
        ok, why = True, ""
        try:
            for schedule in ([], [1], [2, 0], [0, 1, 2], [2, 1, 0, 3]):
                # the awaited part: entries 0..2 (slice 0:3) or entry 2 (single); entry 3 is outside the awaited part
                for start in ([None, None, None, None], [5, None, None, None], [None, None, 7, None]):
                    cells = list(start)
                    store = Store(cells)
                    polls = []

                    def do_wait(cells=cells, schedule=list(schedule), polls=polls):
                        polls.append(list(cells))
                        if not schedule:
                            raise C.EvalRaise("Deadlock", "nothing more will be delivered")
                        cells[schedule.pop(0)] = 9
                        return None

                    sc = C.Scenario()
                    sc.overrides["_do_wait"] = do_wait
                    sc.overrides["_expand_array_part"] = lambda app_id=None, array_part=None: (4, slice(0, 3)) if array_part.cls is SLICE else (4, 2)
                    sc.overrides["_get_array_slice"] = lambda app_id=None, array_slice=None: list(cells[0:3])
                    sc.overrides["_get_array_entry"] = lambda app_id=None, array_entry=None: cells[2]
                    o = C.object_from_init(repo, ex, {"_logger": _Log(), "_app_arrays": {1: store}, "_subroutines": {4: C.Obj(None, {"app_id": 1})}, "_program_counters": {4: 0}}, kind="self")
                    a5 = C.Obj(ADDR, {"address": 4})
                    instr = C.Obj(None, {"slice": C.Obj(SLICE, {"address": a5, "start": 0, "stop": 3}), "entry": C.Obj(ENTRY, {"address": a5, "index": 2})})
                    try:
                        C.Interp(repo, ctx.ev, sc, ex).call_function(m, fn, [], {"subroutine_id": 4, "instr": instr}, self_obj=o)
                        finished = True
                    except C.EvalRaise:
                        finished = False

                    def satisfied(c_):
                        aw = c_[0:3]
                        return all(x is not None for x in aw) if quant == "any" else any(x is not None for x in aw) if quant == "all" else c_[2] is not None

                    # replay the schedule: the handler must have polled at exactly the states in which the condition did not hold yet
                    sim = list(start)
                    want_polls, sch = [], list(schedule)
                    want_finished = True
                    while not satisfied(sim):
                        want_polls.append(list(sim))
                        if not sch:
                            want_finished = False
                            break
                        sim[sch.pop(0)] = 9
                    if polls != want_polls or finished != want_finished:
                        ok = False
                        why = f"entries {start} with deliveries {schedule}: polled at {polls}, expected {want_polls}; finished={finished}, expected {want_finished}"
        except AnalysisError as ex_:
            ctx.error("C12.W", f"{h} cannot be evaluated: {ex_}")
            continue
        ctx.check("C12.W", f"{h}:polls-while-{quant}-undefined", ok,
                  f"{h} does not wait exactly while {quant} awaited entr{'y is' if quant == 'single' else 'ies are'} undefined ({why})", repo.loc(m, fn),
                  sample={"handler": h})


def check_role_flag(ctx):
    """C12.D: the role of a response is read by comparing one of its fields with an integer literal (get_creator_node_id);
    every place that builds a response must put an int-comparable value there.  A member of a plain Enum never equals
    an int, so wrapping the flag in one sends every response to the creator side."""
    repo = ctx.repo
    qm = repo.module("netqasm.qlink_compat")
    g = qm.functions.get("get_creator_node_id")
    if g is None:
        raise AnalysisError("qlink_compat.get_creator_node_id not found")
    ctx.fn("qlink_compat.get_creator_node_id")
    fields = {}
    for n in ast.walk(g):
        if isinstance(n, ast.Compare) and len(n.ops) == 1 and isinstance(n.ops[0], (ast.Eq, ast.NotEq)) and isinstance(n.left, ast.Attribute) \
                and isinstance(n.comparators[0], ast.Constant) and isinstance(n.comparators[0].value, int) and not isinstance(n.comparators[0].value, bool):
            fields[n.left.attr] = n.comparators[0].value
    ctx.check("C12.D", "get_creator_node_id:role-read-from-an-integer-flag", len(fields) == 1,
              f"get_creator_node_id compares {sorted(fields) or 'no field'} with an integer literal (expected exactly one flag field)", repo.loc(qm, g), trivial=True)
    if len(fields) != 1:
        return
    flag = next(iter(fields))
    producers = 0
    for mod in repo.modules.values():
        if mod.name.startswith("netqasm.examples"):
            continue
        for _m, qn, fn, cls in repo.iter_functions(mod.name):
            if _m is not mod:
                continue
            for c in A.calls_in(fn, nested=True):
                cn = (dotted(c.func) or "").split(".")[-1]
                if not cn.startswith("LinkLayerOKType"):
                    continue
                v = A.kwargs_of(c).get(flag)
                if v is None:
                    continue
                producers += 1
                bad = None
                for x in ast.walk(v):
                    if isinstance(x, ast.Call):
                        k = repo.resolve_class(mod, x.func)
                        if k is not None and _plain_enum(repo, k):
                            bad = k.name
                    if isinstance(x, ast.Attribute):
                        k = repo.resolve_class(mod, x.value)
                        if k is not None and _plain_enum(repo, k):
                            bad = k.name
                ctx.check("C12.D", f"{mod.name.split('.')[-1]}.{qn}:{cn}.{flag}:int-comparable", bad is None,
                          f"{qn} builds {cn}({flag}={src(v)}): a member of the plain Enum {bad} never compares equal to the integer {fields[flag]} that get_creator_node_id tests, "
                          "so every such response is classified as belonging to a create request (wrong queue, wrong result array, wrong qubit)", repo.loc(mod, c),
                          sample={"producer": qn, "value": src(v)})
    ctx.anchor("C12.D", f"places building a response with an explicit {flag}", producers, 2)


def _plain_enum(repo, k) -> bool:
    names = {(b if isinstance(b, str) else b.name).split(".")[-1] for c in repo.mro(k) for b in c.bases}
    return bool(names & {"Enum", "Flag"}) and not (names & {"IntEnum", "IntFlag", "int"})


EXECUTOR_ROLES = {
    "_extract_epr_info": [
        "$creator_node_id=get_creator_node_id(self.node_id,response)",
        "$is_creator=True",
        "$requests=self._epr_create_requests",
        "$purpose_id=response.purpose_id",
        "$remote_node_id=response.remote_node_id",
        "$epr_cmd_data=$requests[$request_key][0]",
        "$pair_index=$epr_cmd_data.tot_pairs-$epr_cmd_data.pairs_left",
    ],
    "_handle_pending_epr_responses": [
        "for ($i,$response) in enumerate(self._pending_epr_responses)",
        "$info=self._extract_epr_info(response=$response)",
        "($epr_cmd_data,$pair_index,$is_creator,$request_key)=$info",
        "$handled=False",
    ],
    "_handle_epr_ok_k_response": [
        "$subroutine_id=epr_cmd_data.subroutine_id",
        "$app_id=self._get_app_id(subroutine_id=$subroutine_id)",
        "$virtual_address=self._get_virtual_address_from_epr_data(...)",
        "$physical_address=response.logical_qubit_id",
    ],
    "_has_virtual_address": ["$unit_module=self._qubit_unit_modules.get(app_id)"],
    "_do_recv_epr": ["$app_id=self._get_app_id(...)", "$num_pairs=self._get_num_pairs_from_array(...)", "$purpose_id=self._get_purpose_id(...)"],
    "_do_create_epr": ["$create_request=self._get_create_request(...)", "$app_id=self._get_app_id(...)"],
    "_get_create_request": ["$purpose_id=self._get_purpose_id(...)", "$app_id=self._get_app_id(...)", "$array_args=self._app_arrays[$app_id][arg_array_address,:]", "$args=[remote_node_id,$purpose_id]+$array_args"],
    "_get_virtual_address_from_epr_data": ["$q_array_address=epr_cmd_data.q_array_address", "$array_entry=parse_address(...)", "$virtual_address=self._get_array_entry(...)"],
}


def inline_queue_locals(fn):
    """q = <request container or its alias>[key]  (q bound once)  ->  the uses of q read the container entry directly.
    The entry is a list object: appending to / popping from / indexing q is appending to / popping from / indexing the queue."""
    import copy
    multi = A.assigned_names(fn)
    cont_alias = {k for k, vs in multi.items() if vs and all(v is not None and A.is_self_attr(v) and v.attr in REQ for v in vs)}
    folds = {}
    for k, vs in multi.items():
        if len(vs) == 1 and isinstance(vs[0], ast.Subscript) and not isinstance(vs[0].slice, ast.Slice):
            base = vs[0].value
            if (A.is_self_attr(base) and base.attr in REQ) or (isinstance(base, ast.Name) and base.id in cont_alias):
                folds[k] = vs[0]
    if not folds:
        return

    class R(ast.NodeTransformer):
        def visit_Name(self, n):
            if n.id in folds and isinstance(n.ctx, ast.Load):
                return ast.copy_location(copy.deepcopy(folds[n.id]), n)
            return n

    def strip(stmts):
        out = []
        for st in stmts:
            for field in ("body", "orelse", "finalbody"):
                sub = getattr(st, field, None)
                if isinstance(sub, list) and sub and isinstance(sub[0], ast.stmt):
                    setattr(st, field, strip(sub) or [ast.Pass()])
            if isinstance(st, ast.Assign) and len(st.targets) == 1 and isinstance(st.targets[0], ast.Name) and st.targets[0].id in folds:
                continue
            out.append(R().visit(st))
        return out

    fn.body = strip(fn.body)
    ast.fix_missing_locations(fn)


def normalise_executor(ctx, ex):
    """name the locals of the executor's EPR functions by role (see nqsa/roles.py); done once per run"""
    if getattr(ctx, "_c12_roles_done", False):
        return
    ctx._c12_roles_done = True
    for name in ("_do_create_epr", "_do_recv_epr", "_extract_epr_info", "_handle_last_epr_pair"):
        if ex.methods.get(name) is not None:
            inline_queue_locals(ex.methods[name])
    for name, pats in EXECUTOR_ROLES.items():
        fn = ex.methods.get(name)
        if fn is not None:
            roles.normalise(ctx, fn, pats, f"Executor.{name}")


def run(ctx):
    ex = ctx.repo.get_class(EXE, "Executor")
    normalise_executor(ctx, ex)
    check_queues(ctx, ex)
    check_keys(ctx, ex)
    check_accounting(ctx, ex)
    check_busy(ctx, ex)
    check_waits(ctx, ex)
    # "consumed ... by the oldest outstanding request": a request the network stack refused (put raises) must not be outstanding,
    # nor may any other fault leave a half-registered request behind (fault-atomicity rule of C13, restricted to the queue code)
    from . import c13
    queues = ("_epr_create_requests", "_epr_recv_requests", "_pending_epr_responses")
    c13.check_fault_atomicity(ctx, "C12.F", only=lambda name, fn: any(isinstance(x, ast.Attribute) and x.attr in queues for x in ast.walk(fn)), floor=1)
    # 0 is an ordinary id / value / address: nothing int-valued may be tested by truthiness (nqsa/truth.py)
    from .. import truth
    truth.check(ctx, "C12.Z", ['netqasm.backend.executor', 'netqasm.qlink_compat'])
    # a value remembered for later calls is keyed by every argument it depends on (nqsa/memo.py)
    from .. import memo
    memo.check(ctx, "C12.K", ['netqasm.backend.executor', 'netqasm.qlink_compat'])
    # no type test that an earlier type test has already decided (a subclass tested after its base class: nqsa/shadow.py)
    from .. import shadow
    shadow.check(ctx, "C12.H", ['netqasm.backend.executor', 'netqasm.qlink_compat'])


X = "netqasm/backend/executor.py"
SEEDS = [
    dict(id="c12-role-flag-wrapped-in-plain-enum", file="netqasm/qlink_compat.py", expect="C12.D", construct="int-comparable", count=2,
         old="            directionality_flag=response.directionality_flag,", new="            directionality_flag=EPRRole(response.directionality_flag),"),

    dict(id="c12-pop-last", file=X, expect="C12.Q", construct="_epr_create_requests", old="                self._epr_create_requests[request_key].pop(0)", new="                self._epr_create_requests[request_key].pop()"),
    dict(id="c12-peek-last", file=X, expect="C12.Q", construct="[key][-1]", old="        epr_cmd_data = requests[request_key][0]", new="        epr_cmd_data = requests[request_key][-1]"),
    dict(id="c12-insert-front", file=X, expect="C12.Q", construct="_epr_recv_requests", old="        self._epr_recv_requests[remote_node_id, purpose_id].append(", new="        self._epr_recv_requests[remote_node_id, purpose_id].insert(0, "),
    dict(id="c12-pending-pop-no-break", file=X, expect="C12.B", construct="_handle_pending_epr_responses", old="                    self._pending_epr_responses.pop(i)\n                    break", new="                    self._pending_epr_responses.pop(i)"),
    dict(id="c12-pending-pop0", file=X, expect="C12.B", construct="_handle_pending_epr_responses", old="                    self._pending_epr_responses.pop(i)", new="                    self._pending_epr_responses.pop(0)"),
    dict(id="c12-key-order", file=X, expect="C12.K", construct="_extract_epr_info:key", old="        request_key = remote_node_id, purpose_id", new="        request_key = purpose_id, remote_node_id"),
    dict(id="c12-role-swap", file=X, expect="C12.D", construct="_handle_last_epr_pair", old="            if is_creator:\n                self._epr_create_requests[request_key].pop(0)\n            else:\n                self._epr_recv_requests[request_key].pop(0)",
         new="            if is_creator:\n                self._epr_recv_requests[request_key].pop(0)\n            else:\n                self._epr_create_requests[request_key].pop(0)"),
    dict(id="c12-dec-after-retire", file=X, expect="C12.A", construct="decrement-before-retire",
         old="                    epr_cmd_data.pairs_left -= 1\n\n                    self._handle_last_epr_pair(\n                        epr_cmd_data=epr_cmd_data,\n                        is_creator=is_creator,\n                        request_key=request_key,\n                    )\n",
         new="                    self._handle_last_epr_pair(\n                        epr_cmd_data=epr_cmd_data,\n                        is_creator=is_creator,\n                        request_key=request_key,\n                    )\n                    epr_cmd_data.pairs_left -= 1\n"),
    dict(id="c12-retire-early", file=X, expect="C12.A", construct="retire-iff", old="        if epr_cmd_data.pairs_left == 0:", new="        if epr_cmd_data.pairs_left <= 1:"),
    dict(id="c12-slice-shift", file=X, expect="C12.A", construct="_store_ent_info", old="        arr_stop = (pair_index + 1) * OK_FIELDS", new="        arr_stop = (pair_index + 1) * OK_FIELDS - 1"),
    dict(id="c12-pair-index", file=X, expect="C12.A", construct="pair-index", old="        pair_index = epr_cmd_data.tot_pairs - epr_cmd_data.pairs_left", new="        pair_index = epr_cmd_data.pairs_left - 1"),
    dict(id="c12-no-busy-check", file=X, expect="C12.B", construct="defer", old="        if self._has_virtual_address(app_id=app_id, virtual_address=virtual_address):", new="        if self._has_virtual_address(app_id=app_id, virtual_address=pair_index):"),
    dict(id="c12-wait-all-any", file=X, expect="C12.W", construct="_instr_wait_all", old="            if any(value is None for value in values):", new="            if all(value is None for value in values):"),
    dict(id="c12-wait-any-any", file=X, expect="C12.W", construct="_instr_wait_any", old="            if all(value is None for value in values):", new="            if any(value is None for value in values):"),
    dict(id="c12-directionality", file="netqasm/qlink_compat.py", expect="C12.D", construct="directionality", old="    if create_request.directionality_flag == 1:", new="    if create_request.directionality_flag == 0:"),
]
BENIGN = []
