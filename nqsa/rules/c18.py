"""C18 — thread sockets: once, in order, any schedule (structure only).

C18.Q FIFO discipline of _messages[key]; C18.K key mirror and send/recv key
roles; C18.E empty non-blocking receive raises without sleeping or looping;
C18.I a socket's key is published only after its callbacks are registered.
C18.R rendezvous: connect / disconnect / _wait_for_remote / is_connected executed over the histories in which the
peer acts while the first endpoint sleeps (either side first, peer stays or leaves again, callbacks on/off, timeout).
Declined: lock discipline (CPython makes append/pop(0) atomic; a rule that
demands the lock fires on behaviour-preserving edits) and everything about
interleavings as such.
"""
from __future__ import annotations

import ast
from typing import Dict, Optional, Set

from .. import astutil as A
from .. import flow as F
from .. import guards as G
from .. import roles
from ..model import AnalysisError, Unknown, dotted, src
from .c12 import parents

TECHNIQUE = "abstract execution: ThreadSocket objects built by their constructors against the module-level hub, decorated wrappers, callbacks, rendezvous and receive histories at the code's own yield points - driven by the checker's AST interpreter (nothing imported or run by Python); generic truthiness / memo / shadow lints (static analysis)"
ENGINES = ["model", "circuit"]
EXPLANATION = (
    "Over thread_socket/socket_hub.py and socket.py, everything by abstract execution (checker's interpreter, nothing imported): ThreadSocket objects are built by their own constructor, which connects through the hub object of the class attribute; the second endpoint is constructed while the first sleeps in its rendezvous loop; the decorated send / recv wrappers are called as decorated. 27 socket histories: what each wrapper sends is what the peer's matching receive returns, once, in order, per direction and socket id (C18.K); callback sockets get each message through their callback exactly once and nothing is queued for them; every send wrapper raises ConnectionError and hands nothing over once the peer or the socket itself has disconnected, a message sent the moment a key appears in the registry reaches the callback - for ThreadSocket and every subclass with callbacks of its own (C18.I); a message sent before the sender disconnected is still received (C18.W); FIFO per receiver and a message queued during the rendezvous stays queued (C18.Q). C18.R: 60 rendezvous histories on the hub (either side first, the peer arriving at sleep 1 / 2 / never, staying or leaving again, callbacks on / off, timeout or not). C18.E: receive histories (non-blocking on empty and filled queues, arrival during a sleep, timeout). Lints: no truthiness test on an int-typed value (C18.Z), memo keys (C18.K), shadowed type tests (C18.H)."
)
LEVEL_TEXT = (
    "Abstract execution of the socket classes and the hub over enumerated histories at the code's own yield points (sleep, the publication of a key). Not decided: interleavings at statement granularity inside the hub; the lock discipline."
)
LEVEL_NOTE = "lock discipline deliberately not armed (CPython list append/pop(0) are atomic); schedules are not explored"
ASSUMPTIONS = [LEVEL_NOTE]
HUB = "netqasm.sdk.classical_communication.thread_socket.socket_hub"
SOCK = "netqasm.sdk.classical_communication.thread_socket.socket"


class _KeysBroken(Exception):
    """the keys of the two endpoints do not mirror each other: no history that needs a rendezvous can be run"""


def check_socket_api(ctx, hub, ts):
    """The socket classes as an application uses them, executed by the checker's interpreter: ThreadSocket objects are built by
    their own constructor (which connects through the hub object of the class attribute - one hub per history, as the module-level
    hub is one object per process), the second endpoint is constructed while the first one sleeps in its rendezvous loop, and the
    decorated send / recv methods are called as decorated.  The logger, the lock, the clock, sleep, WeakMethod and json are modelled
    (json by the library itself on the plain dictionaries the code hands it); receive callbacks are recorded.

    Histories (plain, silent and structured variants of every wrapper; callback delivery on one, both or neither side; two socket
    ids between the same two applications):
      - what each wrapper sends is what the matching receive wrapper of the peer returns, once, in order, and nothing appears in
        the sender's own queue or under the other socket id (C18.K passes-own-socket-and-message, remote_key-mirrors-key);
      - a callback socket gets each message through its callback exactly once and nothing is queued for it; a socket without
        callbacks gets it queued exactly once and no callback runs (C18.K send:callback-..., at-most-one-delivery);
      - after the peer (or the socket itself) has disconnected every send wrapper raises ConnectionError and hands nothing to the
        hub (C18.I refuses-when-not-connected);
      - a message sent before the sender disconnected is still returned by every receive wrapper, also when the receiver has
        disconnected itself meanwhile (C18.W);
      - a message the peer sends at the very moment the socket's key appears in the registry reaches the callback (C18.I connect:
        callbacks are registered before the key is published)."""
    import json as _json
    from .. import circuit as C
    repo = ctx.repo
    sm_cls = repo.get_class("netqasm.sdk.classical_communication.message", "StructuredMessage")
    hub_attr = repo.lookup_attr(ts, "_SOCKET_HUB")
    if hub_attr is None or hub_attr[2] is None:
        raise AnalysisError("ThreadSocket._SOCKET_HUB (the class-level hub) not found")

    class _Log:
        _nqsa_model = True

        def debug(self, *a_, **k_):
            return None
        info = warning = error = debug

        def __enter__(self):
            return self

        def __exit__(self, *a_):
            return False

    class PubSet(set):
        """the registry of open sockets; tells the history when a key appears in it"""
        hook = None

        def add(self, k_):
            new = k_ not in self
            set.add(self, k_)
            if new and self.hook is not None:
                self.hook(k_)

        def update(self, *others):
            for o_ in others:
                for k_ in list(o_):
                    self.add(k_)

        def __ior__(self, other):
            self.update(other)
            return self

        def __or__(self, other):
            r_ = PubSet(self)
            r_.hook = self.hook
            r_.update(other)
            return r_

    class World:
        def __init__(self, record_callbacks=True):
            sc = self.sc = C.Scenario()
            sc.run_constructors = True
            sc.real_objects = True
            sc.max_depth = 120
            sc.apply_decorators = True
            sc.overrides["get_netqasm_logger"] = lambda *a_, **k_: _Log()
            self.clock, self.sleeps, self.script = [0.0], [0], []
            self.delivered = {}
            self.lost = {}

            def timer_():
                self.clock[0] += 0.1
                return self.clock[0]

            def sleep_(*a_, **k_):
                self.sleeps[0] += 1
                if self.script:
                    self.script.pop(0)()
                    return None
                raise C.EvalRaise("Deadlock", "nobody else will act")

            sc.externals.update({"timeit.default_timer": timer_, "time.sleep": sleep_, "weakref.WeakMethod": (lambda meth: (lambda: meth)),
                                 "threading.Lock": (lambda: _Log()), "json.dumps": _json.dumps, "json.loads": _json.loads})
            if record_callbacks:
                sc.method_overrides = {"recv_callback": lambda o_, msg: self.delivered.setdefault(self.key(o_), []).append(msg),
                                       "conn_lost_callback": lambda o_: self.lost.__setitem__(self.key(o_), self.lost.get(self.key(o_), 0) + 1)}
            self.I = C.Interp(repo, ctx.ev, sc, ts)
            self.hub = self.I.class_attr(hub_attr)
            if not isinstance(self.hub, C.Obj) or not isinstance(self.hub.fields.get("_open_sockets"), set):
                raise AnalysisError("the hub object of ThreadSocket._SOCKET_HUB has no set `_open_sockets` after its constructor")
            self.registry = PubSet(self.hub.fields["_open_sockets"])
            self.hub.fields["_open_sockets"] = self.registry

        def key(self, o_):
            return self.I.getattr(o_, "key")

        def socket(self, me, peer, sid=0, cb=False, cls_=None):
            if cls_ is not None and cls_ is not ts:
                return self.I.construct(cls_, [me, peer], {"socket_id": sid}, None)  # (a subclass decides about callbacks itself)
            return self.I.construct(ts, [me, peer], {"socket_id": sid, "use_callbacks": cb}, None)

        def pair(self, sid=0, cb_a=False, cb_b=False):
            out = {}
            self.script.append(lambda: out.__setitem__("b", self.socket("bob", "alice", sid, cb_b)))
            a = self.socket("alice", "bob", sid, cb_a)
            if "b" not in out:
                raise AnalysisError("the second endpoint was never constructed: the first constructor did not wait for it")
            return a, out["b"]

        def call(self, o_, name, *args, **kw):
            try:
                return ("ok", self.I.method(o_, name, list(args), kw, None))
            except C.EvalRaise as ex_:
                return ("raises", ex_.exc_name)

        def drain(self, s_):
            """what the hub still holds for this socket"""
            out = []
            for _ in range(8):
                r_ = self.call(self.hub, "recv", s_, block=False)
                if r_[0] != "ok":
                    break
                out.append(r_[1])
            return out

        def structured(self, h_, p_):
            return self.I.construct(sm_cls, [h_, p_], {}, None)

    def plain(v):
        if isinstance(v, C.Obj):
            return (v.cls.name if v.cls is not None else "?", tuple(sorted((k_, plain(x_)) for k_, x_ in v.fields.items())))
        return v

    bad = {}
    n_hist = 0
    SENDS = [("send", "recv"), ("send_silent", "recv_silent"), ("send_structured", "recv_structured")]
    try:
        # keys
        n_hist += 1
        w = World()
        w.sc.method_overrides["connect"] = lambda o_, *a_, **k_: None   # (the keys are looked at without a rendezvous, which itself depends on them)
        a, b, a1, b1 = w.socket("alice", "bob", 0), w.socket("bob", "alice", 0), w.socket("alice", "bob", 1), w.socket("bob", "alice", 1)
        ka, kb, ka1, kb1 = (w.key(x_) for x_ in (a, b, a1, b1))
        rk = [w.I.getattr(x_, "remote_key") for x_ in (a, b, a1, b1)]
        if rk != [kb, ka, kb1, ka1] or len({ka, kb, ka1, kb1}) != 4:
            bad["ThreadSocket:remote_key-mirrors-key"] = f"keys {[ka, kb, ka1, kb1]}, remote keys {rk}: remote_key of an endpoint must be the key of its peer (names swapped, same id) and the four keys distinct"
        if bad:
            raise _KeysBroken()
        # every wrapper pair, queued delivery; two socket ids side by side
        for smeth, rmeth in SENDS:
            n_hist += 1
            w = World()
            a, b = w.pair(0)
            a1, b1 = w.pair(1)
            mk = (lambda t_: w.structured("h" + t_, t_)) if smeth == "send_structured" else (lambda t_: t_)
            texts = ["m1", "", "m3"]
            for t_ in texts:
                r_ = w.call(a, smeth, mk(t_))
                if r_[0] != "ok":
                    raise AnalysisError(f"ThreadSocket.{smeth} on a connected pair raises {r_[1]}")
            w.call(a1, smeth, mk("other id"))
            w.call(b, smeth, mk("back"))
            got = [w.call(b, rmeth, block=False) for _ in texts] + [w.call(b, rmeth, block=False)]
            want = [("ok", plain(mk(t_))) for t_ in texts]
            if [(g_[0], plain(g_[1])) for g_ in got[:3]] != want or got[3][0] != "raises":
                bad.setdefault(f"ThreadSocket.{smeth}:passes-own-socket-and-message", f"alice.{smeth} of {texts}, then four bob.{rmeth}(block=False) give {[(g_[0], plain(g_[1])) for g_ in got]}; expected the three messages in order, then emptiness")
            rest = {"alice": [plain(x_) for x_ in [w.call(a, rmeth, block=False)[1]]], "bob id 1": [plain(x_) for x_ in [w.call(b1, rmeth, block=False)[1]]], "alice id 1": w.drain(a1)}
            if rest != {"alice": [plain(mk("back"))], "bob id 1": [plain(mk("other id"))], "alice id 1": []}:
                bad.setdefault(f"ThreadSocket.{smeth}:passes-own-socket-and-message", f"messages for the other direction / the other socket id end up as {rest}")
            if w.delivered:
                bad.setdefault("send:at-most-one-delivery-per-path", f"no socket uses callbacks, yet callbacks received {w.delivered}")
        # callbacks: on the receiver, on both, on one socket id only
        for cb_a, cb_b in ((False, True), (True, True), (True, False)):
            n_hist += 1
            w = World()
            a, b = w.pair(0, cb_a, cb_b)
            a1, b1 = w.pair(1, False, False)
            for t_ in ("m1", "m2"):
                w.call(a, "send", t_)
            w.call(b, "send", "r1")
            w.call(a1, "send", "x1")
            w.call(b1, "send", "y1")
            seen = {"a": (w.delivered.get(w.key(a), []), w.drain(a)), "b": (w.delivered.get(w.key(b), []), w.drain(b)),
                    "a1": (w.delivered.get(w.key(a1), []), w.drain(a1)), "b1": (w.delivered.get(w.key(b1), []), w.drain(b1))}
            want = {"a": (["r1"], []) if cb_a else ([], ["r1"]), "b": (["m1", "m2"], []) if cb_b else ([], ["m1", "m2"]), "a1": ([], ["y1"]), "b1": ([], ["x1"])}
            if seen != want:
                sent = {"a": ["r1"], "b": ["m1", "m2"], "a1": ["y1"], "b1": ["x1"]}
                total = {k_: sorted(v_[0] + v_[1]) for k_, v_ in seen.items()}
                everything = sum(total.values(), [])
                if any(everything.count(x_) > 1 for x_ in everything):
                    which = "send:at-most-one-delivery-per-path"
                    why = "a message is delivered more than once (callback and queue, or twice)"
                elif sorted(sum(total.values(), [])) != sorted(sum(sent.values(), [])):
                    which = "send:callback-gets-the-message"
                    why = "what arrives is not what was sent"
                else:
                    which = "send:callback-looked-up-under-remote_key"
                    why = "a message reaches the wrong endpoint or the wrong delivery path (callbacks belong to the socket registered under its own key; the sender finds them under its remote_key)"
                bad.setdefault(which, f"callbacks on alice={cb_a}, bob={cb_b} (socket id 0; id 1 without): {why}; (callback, queue) per endpoint {seen}, expected {want}")
        # not connected: every send wrapper refuses and hands nothing over
        for smeth, rmeth in SENDS:
            for who in ("peer", "self"):
                n_hist += 1
                w = World()
                a, b = w.pair(0)
                mk = (lambda t_: w.structured("h", t_)) if smeth == "send_structured" else (lambda t_: t_)
                w.call(w.hub, "disconnect", b if who == "peer" else a)
                r_ = w.call(a, smeth, mk("too late"))
                left = w.drain(b)
                if r_ != ("raises", "ConnectionError") or left:
                    bad.setdefault(f"ThreadSocket.{smeth}:refuses-when-not-connected", f"after {'the peer' if who == 'peer' else 'the socket itself'} has disconnected, {smeth} gives {r_} and the hub holds {[plain(x_) for x_ in left]} for the peer; expected ConnectionError and nothing handed over")
        # sent before the disconnect: still received
        for smeth, rmeth in SENDS:
            for also_receiver in (False, True):
                n_hist += 1
                w = World()
                a, b = w.pair(0)
                mk = (lambda t_: w.structured("h", t_)) if smeth == "send_structured" else (lambda t_: t_)
                w.call(a, smeth, mk("last words"))
                w.call(w.hub, "disconnect", a)
                if also_receiver:
                    w.call(w.hub, "disconnect", b)
                r_ = w.call(b, rmeth, block=True, timeout=0.5)
                if (r_[0], plain(r_[1])) != ("ok", plain(mk("last words"))):
                    bad.setdefault(f"ThreadSocket.{rmeth}:reaches-the-hub-whatever-the-connection-state", f"a message sent before the sender disconnected{' (the receiver has disconnected too)' if also_receiver else ''}: {rmeth} gives {(r_[0], plain(r_[1]))}; it is still in the hub's queue and has to be received")
        # publication: a message sent the moment the rendezvous allows it reaches the callback
        model_a = C.Obj(None, {"key": ("alice", "bob", 0), "remote_key": ("bob", "alice", 0), "id": 0, "app_name": "alice", "remote_app_name": "bob", "use_callbacks": False})
        subclasses = [c for mod in repo.modules.values() for c in mod.classes.values() if c is not ts and ts in repo.mro(c)]
        for with_cb in (False,):
            n_hist += 1
            w = World()
            state = {}

            def at_publication(k_, w=w, state=state):
                if k_ == ("bob", "alice", 0) and "sent" not in state:
                    state["sent"] = w.call(w.hub, "send", model_a, "at once")
            w.registry.hook = at_publication
            w.script.append(lambda w=w, state=state: state.__setitem__("b", w.socket("bob", "alice", 0, with_cb)))
            w.socket("alice", "bob", 0, False)
            if "sent" not in state or state.get("b") is None:
                raise AnalysisError("the moment of publication was not observed (the key never appeared in the hub's `_open_sockets`)")
            left = w.drain(state["b"])
            if left != ["at once"]:
                bad["connect:a-message-queued-during-the-rendezvous-stays-queued"] = (f"the peer sends the moment the socket's key is published, while the socket's connect() is still running: afterwards the hub holds "
                                                                                     f"{left} for the socket, expected ['at once'] (a whole-queue operation in connect / disconnect discards what was already sent)")
        for cls_ in [ts] + subclasses:
            for order in ("callback socket waits, the peer connects and sends at once", "the peer waits, sends the moment the callback socket's key is published"):
                n_hist += 1
                w = World(record_callbacks=cls_ is ts)
                state = {}
                try:
                    if order.startswith("callback"):
                        def peer(w=w, state=state):
                            a_ = w.socket("alice", "bob", 0, False)
                            state["sent"] = w.call(a_, "send", "at once")
                        w.script.append(peer)
                        b = w.socket("bob", "alice", 0, True, cls_)
                    else:
                        def at_publication(k_, w=w, state=state):
                            if k_ == ("bob", "alice", 0) and "sent" not in state:
                                state["sent"] = w.call(w.hub, "send", model_a, "at once")
                        w.registry.hook = at_publication
                        w.script.append(lambda w=w, state=state: state.__setitem__("b", w.socket("bob", "alice", 0, True, cls_)))
                        w.socket("alice", "bob", 0, False)
                        b = state.get("b")
                    if state.get("sent", ("", ""))[0] == "raises" and state["sent"][1] == "AttributeError" and cls_ is not ts:
                        raise C.EvalRaise("AttributeError", "in the callback")
                    if "sent" not in state or b is None:
                        raise AnalysisError(f"history `{order}`: the moment of publication was not observed (the key never appeared in the hub's `_open_sockets`)")
                    if cls_ is ts:
                        got = (state["sent"], w.delivered.get(w.key(b), []), w.drain(b))
                        if got != (("ok", None), ["at once"], []):
                            bad.setdefault("connect:callbacks-registered-before-key-published", f"{order}: the send gives {got[0]}, the callback received {got[1]}, the queue holds {got[2]}; a callback socket never reads the queue, "
                                                                                                 "so its callbacks have to be registered before its key is visible to the peer")
                except C.EvalRaise as ex_:
                    if cls_ is ts:
                        raise AnalysisError(f"history `{order}` raises {ex_.exc_name}")
                    bad.setdefault(f"{cls_.name}.__init__:state-of-the-callbacks-exists-before-the-socket-is-published",
                                   f"{order}: {ex_.exc_name} ({ex_}) - the callback of {cls_.name} runs while its constructor is still waiting in the base constructor's rendezvous, "
                                   "and reads state that the constructor creates only afterwards: the message is delivered nowhere")
    except _KeysBroken:
        ctx.check("C18.K", "ThreadSocket:remote_key-mirrors-key", False, bad["ThreadSocket:remote_key-mirrors-key"], ts.loc(ts.methods["remote_key"]) if "remote_key" in ts.methods else None)
        return
    except AnalysisError as ex_:
        ctx.error("C18.K", f"the socket classes cannot be executed: {ex_}")
        return
    ctx.anchor("C18.K", "socket histories executed", n_hist, 20)
    loc = ts.loc(ts.methods["send"]) if "send" in ts.methods else None
    names = ["ThreadSocket:remote_key-mirrors-key", "send:callback-looked-up-under-remote_key", "send:callback-gets-the-message", "send:at-most-one-delivery-per-path"]
    names += [f"ThreadSocket.{s_}:passes-own-socket-and-message" for s_, _ in SENDS]
    for nm in names:
        ctx.check("C18.K", nm, nm not in bad, bad.get(nm, ""), loc)
    for s_, r_ in SENDS:
        nm = f"ThreadSocket.{s_}:refuses-when-not-connected"
        ctx.check("C18.I", nm, nm not in bad, bad.get(nm, ""), loc)
        nm = f"ThreadSocket.{r_}:reaches-the-hub-whatever-the-connection-state"
        ctx.check("C18.W", nm, nm not in bad, bad.get(nm, ""), loc)
    nm = "connect:a-message-queued-during-the-rendezvous-stays-queued"
    ctx.check("C18.Q", nm, nm not in bad, bad.get(nm, ""), repo.loc(hub.module, hub.methods["connect"]) if "connect" in hub.methods else loc)
    nm = "connect:callbacks-registered-before-key-published"
    ctx.check("C18.I", nm, nm not in bad, bad.get(nm, ""), repo.loc(hub.module, hub.methods["connect"]) if "connect" in hub.methods else loc)
    for c in subclasses:
        nm = f"{c.name}.__init__:state-of-the-callbacks-exists-before-the-socket-is-published"
        ctx.check("C18.I", nm, nm not in bad, bad.get(nm, ""), c.loc(c.methods["__init__"]) if "__init__" in c.methods else None)


def check_receive(ctx, hub, rule="C18.E"):
    """send and recv of the hub, executed by the checker's interpreter on a hub built from __init__ (no callbacks registered).

    `sleep` is where a polling receive lets other threads run: the scripted sender acts inside it.  Required:
      - a non-blocking receive on an empty queue raises at once - no sleep before it, whatever the timeout argument is - and it is
        not a timeout error; on a non-empty queue it returns the head without sleeping;
      - a blocking receive polls: it returns the message that arrives during its k-th sleep (k = 1, 2) and no stale one; with a
        timeout and no message it raises TimeoutError; the queue it reads is its own;
      - what recv returns is what it removed from the head: three queued messages come out in sending order, each once, and a
        message queued for the other direction or another socket id is not touched."""
    from .. import circuit as C
    repo = ctx.repo
    m = hub.module
    send, recv = hub.methods.get("send"), hub.methods.get("recv")
    ctx.fn("_SocketHub.recv")
    ctx.fn("_SocketHub.send")

    class _Log:
        _nqsa_model = True

        def debug(self, *a_, **k_):
            return None
        info = warning = error = debug

    def sock(me, peer, sid=0):
        return C.Obj(None, {"key": (me, peer, sid), "remote_key": (peer, me, sid), "id": sid, "app_name": me, "remote_app_name": peer, "use_callbacks": False})

    A_, B_, B1 = sock("alice", "bob"), sock("bob", "alice"), sock("bob", "alice", 1)

    class DD(dict):
        """the defaultdict(list) of the hub"""
        def __missing__(self, k):
            self[k] = []
            return self[k]

    class Lock:
        """the hub's lock: every release is a point where another thread may run - the k-th release runs the scripted action"""
        _nqsa_model = True

        def __init__(self):
            self.releases, self.script, self.busy = 0, {}, False

        def __enter__(self):
            return self

        def __exit__(self, *a_):
            self.releases += 1
            act = self.script.get(self.releases)
            if act is not None and not self.busy:
                self.busy = True   # (the other thread's own lock operations are not points of preemption of the first)
                try:
                    act()
                finally:
                    self.busy = False
            return False

    def world(script=None, lock=None):
        """script: {sleep number: action} run inside that sleep of the receiver"""
        o = C.object_from_init(repo, hub, {"_logger": _Log(), "_lock": lock or _Log(), "_messages": DD(), "_recv_callbacks": {}, "_conn_lost_callbacks": {}}, kind="self")
        clock, sleeps = [0.0], [0]
        sc = C.Scenario()

        def timer_():
            clock[0] += 0.1
            return clock[0]

        def sleep_(*a_, **k_):
            sleeps[0] += 1
            act = (script or {}).get(sleeps[0])
            if act is not None:
                act(o, sc)
            if sleeps[0] > 8:
                raise C.EvalRaise("Deadlock", "nothing more will arrive")
            return None

        sc.externals.update({"timeit.default_timer": timer_, "time.sleep": sleep_})
        return o, sc, sleeps

    def do_send(o, sc, s_, msg):
        return C.Interp(repo, ctx.ev, sc, hub).call_function(m, send, [s_, msg], {}, self_obj=o)

    def do_recv(o, sc, s_, **kw):
        try:
            return ("ok", C.Interp(repo, ctx.ev, sc, hub).call_function(m, recv, [s_], kw, self_obj=o))
        except C.EvalRaise as ex_:
            return ("raises", ex_.exc_name)

    bad = {}
    n = 0
    try:
        # non-blocking
        for timeout in (None, 0.05, 5.0):
            n += 1
            o, sc, sleeps = world()
            do_send(o, sc, B_, "for alice")          # the other direction: must not be seen by bob
            do_send(o, sc, sock("alice", "bob", 1), "for socket 1")
            r_ = do_recv(o, sc, B_, block=False, timeout=timeout)
            if r_[0] != "raises" or r_[1] in ("TimeoutError", "Deadlock"):
                bad.setdefault("non-blocking-empty-raises", f"recv(block=False, timeout={timeout}) on an empty queue gives {r_}; it must report emptiness (an error that is not a timeout)")
            if sleeps[0]:
                bad.setdefault("no-sleep-or-loop-before-the-raise", f"recv(block=False, timeout={timeout}) on an empty queue sleeps {sleeps[0]} time(s) before it answers")
            n += 1
            o, sc, sleeps = world()
            do_send(o, sc, A_, "m1")
            do_send(o, sc, A_, "m2")
            r_ = do_recv(o, sc, B_, block=False, timeout=timeout)
            if r_ != ("ok", "m1") or sleeps[0]:
                bad.setdefault("returns-the-popped-head", f"two messages queued, recv(block=False) gives {r_} after {sleeps[0]} sleeps; expected the first one at once")
        # FIFO, each once, own queue only
        n += 1
        o, sc, sleeps = world()
        for msg in ("m1", "", "m3"):                      # the empty string is a message like any other
            do_send(o, sc, A_, msg)
        do_send(o, sc, B_, "to alice")
        do_send(o, sc, sock("alice", "bob", 1), "socket 1")
        got = [do_recv(o, sc, B_, block=False) for _ in range(4)]
        if [g_[1] for g_ in got[:3]] != ["m1", "", "m3"] or got[3][0] != "raises":
            bad.setdefault("returns-the-popped-head", f"'m1', '', 'm3' sent; four receives give {got}")
        others = (do_recv(o, sc, A_, block=False), do_recv(o, sc, B1, block=False))
        if others != (("ok", "to alice"), ("ok", "socket 1")):
            bad.setdefault("emptiness-tested-on-own-queue-each-iteration", f"the messages for the other direction / the other socket id are now {others}: a receive touched a queue that is not its own")
        # blocking receive polls afresh
        for arrive_at in (1, 2):
            n += 1
            o, sc, sleeps = world({arrive_at: lambda o_, sc_: do_send(o_, sc_, A_, "late")})
            r_ = do_recv(o, sc, B_, block=True, timeout=None)
            if r_ != ("ok", "late") or sleeps[0] != arrive_at:
                bad.setdefault("emptiness-tested-on-own-queue-each-iteration", f"a message arriving during sleep {arrive_at} of a blocking receive: recv gives {r_} after {sleeps[0]} sleeps")
        # a send that lands between two critical sections of a receive (after the k-th release of the lock by the receiver): the
        # receiver still gets the oldest message, and both messages are received exactly once, in order
        for k_rel in (1, 2, 3):
            for block_ in (True, False):
                n += 1
                lk = Lock()
                o, sc, sleeps = world(lock=lk)
                do_send(o, sc, A_, "m1")
                lk.releases = 0
                lk.script = {k_rel: (lambda o_=o, sc_=sc: do_send(o_, sc_, A_, "m2"))}
                first = do_recv(o, sc, B_, block=block_)
                lk.script = {}
                if k_rel > lk.releases:
                    do_send(o, sc, A_, "m2")   # (the receive finished with fewer releases: the send comes after it)
                rest = [do_recv(o, sc, B_, block=False) for _ in range(3)]
                got = [first] + rest
                if [g_[1] for g_ in got if g_[0] == "ok"] != ["m1", "m2"] or got[0] != ("ok", "m1"):
                    bad.setdefault("returns-the-popped-head", f"'m1' queued, 'm2' sent right after the receiver released the lock for the {k_rel}. time (block={block_}): the receives give {got}; expected 'm1', then 'm2', each once")
        n += 1
        o, sc, sleeps = world()
        r_ = do_recv(o, sc, B_, block=True, timeout=0.25)
        if r_ != ("raises", "TimeoutError"):
            bad.setdefault("blocking-receive-times-out", f"recv(block=True, timeout=0.25) with nothing sent gives {r_} after {sleeps[0]} sleeps; expected TimeoutError")
        n += 1
        o, sc, sleeps = world()
        r_ = do_recv(o, sc, B_, block=True, timeout=None)
        if r_ != ("raises", "Deadlock"):
            bad.setdefault("blocking-receive-times-out", f"recv(block=True, timeout=None) with nothing sent gives {r_}; it has to keep polling")
    except AnalysisError as ex_:
        ctx.error(rule, f"send / recv cannot be evaluated: {ex_}")
        return
    ctx.anchor(rule, "receive histories executed", n, 10)
    texts = {"non-blocking-empty-raises": "a non-blocking receive on an empty channel must report emptiness",
             "no-sleep-or-loop-before-the-raise": "the non-blocking receive would block",
             "emptiness-tested-on-own-queue-each-iteration": "the queue inspected by recv is not its own queue, looked at afresh on every poll",
             "returns-the-popped-head": "recv does not return exactly the message it removed from the head of the queue",
             "blocking-receive-times-out": "a blocking receive does not poll until the timeout"}
    for key, text in texts.items():
        # (the two FIFO clauses are reported as C18.Q, the non-blocking / polling clauses as C18.E)
        ctx.check("C18.Q" if rule == "C18.E" and key in ("returns-the-popped-head", "emptiness-tested-on-own-queue-each-iteration") else rule, f"recv:{key}", key not in bad, f"{text}: {bad.get(key)}", repo.loc(m, recv))


def check_rendezvous(ctx, hub, rule="C18.R"):
    """"Two endpoints find each other whichever side starts first", decided on the registry code by executing it.

    connect / disconnect / is_connected / _wait_for_remote are run by the checker's interpreter on a hub object built from
    __init__ with two modelled sockets.  `sleep` is the only place where the waiting thread lets the other one run, so every
    history in which the second endpoint acts while the first one waits is a nesting: at the first thread's k-th sleep the
    other thread performs a prefix of (connect, disconnect).  Enumerated: which side starts, the sleep at which the peer
    arrives (first or second poll), how much of its life the peer lives inside that one sleep (connect only, or connect and
    disconnect - "opens and closes before the other side notices"), callbacks on or off, and the order of the remaining
    disconnects.  Required:
      - connect returns exactly when the peer has connected at some time (still open or closed again), not before;
      - with a timeout and no peer, TimeoutError; with no timeout and no peer, the waiting goes on (never a return);
      - is_connected is true exactly while both are open;
      - a disconnect calls the still-registered peer's connection-lost callback once;
      - after both have disconnected the registry and the callback tables are empty (a later session starts clean).
    """
    from .. import circuit as C
    repo = ctx.repo
    m = hub.module
    need = ["connect", "disconnect", "is_connected", "_wait_for_remote"]
    for n_ in need:
        if repo.lookup(hub, n_) is None:
            raise AnalysisError(f"_SocketHub.{n_} not found")
    ctx.fn("_SocketHub.connect")
    ctx.fn("_SocketHub.disconnect")
    ctx.fn("_SocketHub._wait_for_remote")

    class _Log:
        _nqsa_model = True

        def debug(self, *a_, **k_):
            return None
        info = warning = error = debug

    class Sock:
        _nqsa_model = True

        def __init__(self, me, peer, use_callbacks):
            self.app_name, self.remote_app_name, self.id = me, peer, 0
            self.key, self.remote_key = (me, peer, 0), (peer, me, 0)
            self.use_callbacks = use_callbacks
            self.lost = 0
            self.got = []

        def recv_callback(self, msg):
            self.got.append(msg)

        def conn_lost_callback(self):
            self.lost += 1

    def call(o, sc, name, *args, **kw):
        r_ = repo.lookup(hub, name)
        return C.Interp(repo, ctx.ev, sc, hub).call_function(r_[0].module, r_[1], list(args), kw, self_obj=o)

    n_hist = 0
    problems = []
    for use_cb in (False, True):
        for first in ("A", "B"):
            for arrive_at in (None, 1, 2):          # the sleep of the first thread during which the peer acts (None: never)
                for inside in ((1, 2) if arrive_at else (0,)):   # 1: peer connects; 2: peer connects and disconnects again
                    for timeout in ((None, 0.5) if arrive_at is None else (None,)):
                        for x_first in (True, False):  # order of the disconnects that remain after the rendezvous
                            socks = {"A": Sock("alice", "bob", use_cb), "B": Sock("bob", "alice", use_cb)}
                            X, Y = socks[first], socks["B" if first == "A" else "A"]
                            clock = [0.0]
                            sleeps = [0]
                            sc = C.Scenario()
                            o = C.object_from_init(repo, hub, {"_logger": _Log(), "_lock": _Log(), "_messages": {}}, kind="self")
                            state = {"y_connected": False, "y_open": False, "x_open": False}

                            def timer_():
                                clock[0] += 0.2
                                return clock[0]

                            def sleep_(*a_, **k_):
                                sleeps[0] += 1
                                if state.get("nested"):
                                    raise C.EvalRaise("Deadlock", "the peer waits although this socket has published itself")
                                if arrive_at is not None and sleeps[0] == arrive_at:
                                    state["nested"] = True
                                    call(o, sc, "connect", Y)
                                    state["y_connected"] = state["y_open"] = True
                                    if inside == 2:
                                        call(o, sc, "disconnect", Y)
                                        state["y_open"] = False
                                    state["nested"] = False
                                    return None
                                if sleeps[0] > 3:
                                    raise C.EvalRaise("Deadlock", "nobody else will act")
                                return None

                            sc.externals.update({"timeit.default_timer": timer_, "time.sleep": sleep_, "weakref.WeakMethod": (lambda meth: (lambda: meth)),
                                                 "threading.Lock": (lambda: _Log())})
                            label = f"callbacks={use_cb} first={first} peer-arrives-at-sleep={arrive_at} peer-does={['nothing', 'connect', 'connect+disconnect'][inside]} timeout={timeout}"
                            n_hist += 1
                            outcome = "returned"
                            try:
                                call(o, sc, "connect", X, timeout=timeout)
                            except C.EvalRaise as ex_:
                                outcome = ex_.exc_name
                            want = "returned" if arrive_at is not None else ("TimeoutError" if timeout is not None else "Deadlock")
                            if outcome != want:
                                problems.append((label, f"connect of the first endpoint: {outcome}, expected {want}" + (" (it returns before the peer has ever connected)" if outcome == "returned" else
                                                                                                                    " (it never notices that the peer has been there)" if want == "returned" else "")))
                                continue
                            if arrive_at is None:
                                continue
                            if sleeps[0] != arrive_at:
                                problems.append((label, f"connect slept {sleeps[0]} times, the peer was there after sleep {arrive_at}"))
                            both = bool(call(o, sc, "is_connected", X))
                            if both != (inside == 1):
                                problems.append((label, f"is_connected after the rendezvous is {both}, expected {inside == 1}"))
                            lost_before = (X.lost, Y.lost)
                            if use_cb and inside == 2 and X.lost != 1:
                                problems.append((label, f"the peer disconnected while this socket was registered: its connection-lost callback ran {X.lost} times, expected 1"))
                            order = [X] if inside == 2 else ([X, Y] if x_first else [Y, X])
                            try:
                                for i_, s_ in enumerate(order):
                                    other = Y if s_ is X else X
                                    before = other.lost
                                    other_registered = use_cb and not (inside == 2 and other is Y) and (i_ == 0)
                                    call(o, sc, "disconnect", s_)
                                    if other.lost - before != (1 if other_registered else 0):
                                        problems.append((label, f"disconnect of {s_.app_name}: the peer's connection-lost callback ran {other.lost - before} times, expected {1 if other_registered else 0}"))
                                    if bool(call(o, sc, "is_connected", s_)) or bool(call(o, sc, "is_connected", other)):
                                        problems.append((label, f"is_connected still true after {s_.app_name} disconnected"))
                            except C.EvalRaise as ex_:
                                problems.append((label, f"disconnect raises {ex_.exc_name}"))
                                continue
                            left = {k_: v_ for k_, v_ in o.fields.items() if k_ in ("_open_sockets", "_remote_sockets", "_recv_callbacks", "_conn_lost_callbacks") and v_}
                            if left:
                                problems.append((label, f"after both endpoints have disconnected the hub still holds {left}: the next session of the same pair does not start clean"))
    ctx.anchor(rule, "rendezvous histories executed", n_hist, 40)
    by_text = {}
    for label, why in problems:
        by_text.setdefault(why.split(":")[0], (label, why))
    ctx.check(rule, "connect/disconnect:endpoints-find-each-other-whichever-side-starts-first", not problems,
              "; ".join(f"[{l_}] {w_}" for l_, w_ in list(by_text.values())[:3]), repo.loc(m, repo.lookup(hub, "disconnect")[1]),
              sample={"histories": n_hist, "failing": len(problems)})


def run(ctx):
    repo = ctx.repo
    hub = repo.get_class(HUB, "_SocketHub")
    m = hub.module
    # ---- C18.K / C18.I / C18.W: the socket classes executed as an application uses them
    ts = repo.get_class(SOCK, "ThreadSocket")
    ctx.fn("ThreadSocket.key")
    ctx.fn("ThreadSocket.remote_key")
    for meth_ in ("send", "send_structured", "send_silent", "recv", "recv_structured", "recv_silent"):
        if meth_ in ts.methods:
            ctx.fn(f"ThreadSocket.{meth_}")
    check_socket_api(ctx, hub, ts)
    # ---- C18.E  (abstract execution)
    check_receive(ctx, hub)
    # the sleep is only on the path that continues polling (after the timeout test)
    # ---- C18.I
    ctx.fn("_SocketHub.connect")
    # is_connected requires both keys; the socket-level send refuses when not connected
    ic = hub.methods.get("is_connected")
    if ic is not None:
        # executed for every combination of the two keys being listed as open (and as "has been here"): true exactly when both are open
        from .. import circuit as C
        sock_ = C.Obj(None, {"key": ("a", "b", 0), "remote_key": ("b", "a", 0)})
        got = {}
        try:
            for own in (False, True):
                for peer in (False, True):
                    for traces in (set(), {("a", "b", 0), ("b", "a", 0)}):
                        o = C.object_from_init(repo, hub, {"_open_sockets": ({("a", "b", 0)} if own else set()) | ({("b", "a", 0)} if peer else set()) | {("c", "a", 0)}, "_remote_sockets": set(traces)}, kind="self")
                        got[(own, peer, bool(traces))] = C.Interp(repo, ctx.ev, C.Scenario(), hub).call_function(m, ic, [sock_], {}, self_obj=o)
            wrong = {k_: v_ for k_, v_ in got.items() if v_ is not (k_[0] and k_[1])}
            ctx.check("C18.I", "is_connected:both-endpoints-open", not wrong, f"is_connected is not `both key and remote_key are in _open_sockets`: (own open, peer open, traces present) -> {wrong}", repo.loc(m, ic))
        except C.EvalRaise as ex_:
            ctx.check("C18.I", "is_connected:both-endpoints-open", False, f"is_connected raises {ex_}", repo.loc(m, ic))
        except AnalysisError as ex_:
            ctx.error("C18.I", f"is_connected cannot be evaluated: {ex_}")
    # 0 is an ordinary id / value / address: nothing int-valued may be tested by truthiness (nqsa/truth.py)
    try:
        check_rendezvous(ctx, hub, "C18.R")
    except AnalysisError as ex_:
        ctx.error("C18.R", f"the registry code cannot be executed: {ex_}")
    from .. import truth
    truth.check(ctx, "C18.Z", ['netqasm.sdk.classical_communication.thread_socket.socket_hub', 'netqasm.sdk.classical_communication.thread_socket.socket'])
    # a value remembered for later calls is keyed by every argument it depends on (nqsa/memo.py)
    from .. import memo
    memo.check(ctx, "C18.K", ['netqasm.sdk.classical_communication.thread_socket.socket_hub', 'netqasm.sdk.classical_communication.thread_socket.socket'])
    # no type test that an earlier type test has already decided (a subclass tested after its base class: nqsa/shadow.py)
    from .. import shadow
    shadow.check(ctx, "C18.H", ['netqasm.sdk.classical_communication.thread_socket.socket_hub', 'netqasm.sdk.classical_communication.thread_socket.socket'])


H = "netqasm/sdk/classical_communication/thread_socket/socket_hub.py"
S = "netqasm/sdk/classical_communication/thread_socket/socket.py"
SEEDS = [
    dict(id="c18-disconnect-clears-own-trace", file=H, expect="C18.R", construct="endpoints-find-each-other",
         old="            if socket.remote_key in self._remote_sockets:\n                self._remote_sockets.remove(socket.remote_key)\n", new="            if socket.key in self._remote_sockets:\n                self._remote_sockets.remove(socket.key)\n"),
    dict(id="c18-disconnect-leaves-traces", file=H, expect="C18.R", construct="endpoints-find-each-other",
         old="            if socket.remote_key in self._remote_sockets:\n                self._remote_sockets.remove(socket.remote_key)\n", new=""),
    dict(id="c18-wait-ignores-closed-again", file=H, expect="C18.R", construct="endpoints-find-each-other",
         old="            if socket.remote_key in self._remote_sockets:\n                self._logger.debug(", new="            if socket.remote_key in self._remote_sockets and socket.remote_key in self._open_sockets:\n                self._logger.debug("),
    dict(id="c18-wait-own-trace", file=H, expect="C18.R", construct="endpoints-find-each-other",
         old="            if socket.remote_key in self._remote_sockets:\n                self._logger.debug(", new="            if socket.key in self._remote_sockets:\n                self._logger.debug("),
    dict(id="c18-timeout-never-raised", file=H, expect="C18.R", construct="endpoints-find-each-other", old="                if t_elapsed > timeout:\n                    app_name = socket.app_name", new="                if t_elapsed < -timeout:\n                    app_name = socket.app_name"),
    dict(id="c18-lost-callback-of-own-socket", file=H, expect="C18.R", construct="endpoints-find-each-other", old="            conn_lost_callback = self._conn_lost_callbacks.get(socket.remote_key)", new="            conn_lost_callback = self._conn_lost_callbacks.get(socket.key)"),
    dict(id="c18-recv-refuses-when-peer-gone", file=S, expect="C18.W", construct="ThreadSocket.recv_structured:",
         old="        # TODO use maxsize?\n        msg = self._SOCKET_HUB.recv(self, block=block, timeout=timeout)\n        # if not isinstance(msg, StructuredMessage):",
         new="        if not self.connected:\n            raise ConnectionError(\"not connected\")\n        msg = self._SOCKET_HUB.recv(self, block=block, timeout=timeout)\n        # if not isinstance(msg, StructuredMessage):"),
    dict(id="c18-pop-last", file=H, expect="C18.Q", construct="recv", old="                    msg = messages.pop(0)", new="                    msg = messages.pop()"),
    dict(id="c18-insert-front", file=H, expect="C18.Q", construct="recv:", old="                self._messages[socket.remote_key].append(msg)", new="                self._messages[socket.remote_key].insert(0, msg)"),
    dict(id="c18-queue-own-key", file=H, expect="C18.Q", construct="recv:", old="                self._messages[socket.remote_key].append(msg)", new="                self._messages[socket.key].append(msg)"),
    dict(id="c18-remote-key", file=S, expect="C18.K", construct="remote_key", old="        return self.remote_app_name, self.app_name, self.id", new="        return self.remote_app_name, self.app_name, 0"),
    dict(id="c18-callback-key", file=H, expect="C18.K", construct="send:callback", old="        recv_callback = self._recv_callbacks.get(socket.remote_key)", new="        recv_callback = self._recv_callbacks.get(socket.key)"),
    dict(id="c18-nonblock-raise", file=H, expect="C18.E", construct="non-blocking", old="                if not block:\n                    raise RuntimeError(f\"No message to receive on socket {socket.key}\")", new="                if not block and timeout is not None:\n                    raise RuntimeError(f\"No message to receive on socket {socket.key}\")"),
    dict(id="c18-nonblock-sleep", file=H, expect="C18.E", construct="no-sleep", old="            if len(messages) == 0:\n                if not block:", new="            if len(messages) == 0:\n                sleep(self.__class__._RECV_SLEEP_TIME)\n                if not block:"),
    dict(id="c18-publish-first", file=H, expect="C18.I", construct="connect", old="        self._add_callbacks(socket)\n        self._open_sockets.add(socket.key)\n        self._remote_sockets.add(socket.key)\n", new="        self._open_sockets.add(socket.key)\n        self._remote_sockets.add(socket.key)\n        self._add_callbacks(socket)\n"),
    dict(id="c18-double-delivery", file=H, expect="C18.K", construct="at-most-one-delivery", old="                method(msg)\n        else:", new="                method(msg)\n                self._messages[socket.remote_key].append(msg)\n        else:"),
    dict(id="c18-purge-on-connect", file=H, expect="C18.Q", construct="stays-queued", old="        self._remote_sockets.add(socket.key)\n", new="        self._remote_sockets.add(socket.key)\n        self._messages.pop(socket.key, None)\n"),
    dict(id="c18-stale", file=H, expect="C18.Q", construct="returns-the-popped", old="                    msg = messages.pop(0)\n", new="                    msg = messages[-1]\n                    messages.pop(0)\n"),
]
BENIGN = [
    dict(id="c18-benign-discard", file=H, old="            if socket.key in self._open_sockets:\n                self._open_sockets.remove(socket.key)\n            if socket.remote_key in self._remote_sockets:\n                self._remote_sockets.remove(socket.remote_key)\n",
         new="            self._open_sockets.discard(socket.key)\n            self._remote_sockets.discard(socket.remote_key)\n"),
    dict(id="c18-benign-wait-one-test", file=H, old="            if socket.remote_key in self._open_sockets:\n                self._logger.debug(f\"Connection for socket {socket.key} successful\")\n                return\n", new="            if socket.remote_key in self._open_sockets:\n                return\n"),
    dict(id="c18-benign-peek-then-pop", file=H, old="                    msg = messages.pop(0)\n", new="                    msg = messages[0]\n                    messages.pop(0)\n"),
]
