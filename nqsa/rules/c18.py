"""C18 — thread sockets: once, in order, any schedule (structure only).

C18.Q FIFO discipline of _messages[key]; C18.K key mirror and send/recv key
roles; C18.E empty non-blocking receive raises without sleeping or looping;
C18.I a socket's key is published only after its callbacks are registered.
C18.R rendezvous: connect / disconnect / _wait_for_remote / is_connected executed over the histories in which the
peer acts while the first endpoint sleeps (either side first, peer stays or leaves again, callbacks on/off, timeout).
Declined: lock discipline (CPython makes append/pop(0) atomic; a rule that
demands the lock fires on behaviour-preserving edits) and everything about
interleavings as such.
"""
from __future__ import annotations

import ast
from typing import Dict, Optional, Set

from .. import astutil as A
from .. import flow as F
from .. import guards as G
from .. import roles
from ..model import AnalysisError, Unknown, dotted, src
from .c12 import parents

TECHNIQUE = "queue-discipline usage classification, key-mirror table check, publish-after-initialise ordering, a path rule on the non-blocking receive, and abstract interpretation of the registry methods over enumerated rendezvous histories by the checker's own AST interpreter (static analysis)"
ENGINES = ["model", "flow", "circuit"]
EXPLANATION = (
    "Over thread_socket/socket_hub.py and socket.py: every use of _messages is classified (append at the tail by send under the "
    "receiver's key, pop(0) by recv under the socket's own key, len); key and remote_key are mirror tuples (names swapped, same id); "
    "send looks the callback up and queues under remote_key, recv and callback registration use key; in recv the `raise` for an empty "
    "queue with block=False is reached from the emptiness test without passing a sleep call or a loop back edge, and the returned "
    "message is the one popped from the head; in connect the callbacks are registered before the key is added to _open_sockets."
    " C18.R: the registry methods are executed by the checker's interpreter on a hub built from __init__ with two modelled sockets, the peer acting inside the waiting side's sleep (connect, or connect and disconnect), for either side first, with and without callbacks and timeout: connect returns exactly when the peer has been there, times out or keeps waiting otherwise, is_connected holds exactly while both are open, the peer's connection-lost callback runs once, and the tables are empty after both have left."
    " Whole-queue operations on _messages (clear, re-assignment, sort, del) are violations wherever they occur. C18.W: the receive wrappers reach hub.recv under no condition on the socket's own state. C18.Z: no truthiness test on an int-typed value."
)
LEVEL_TEXT = (
    "Static analysis, structure only: necessary shape conditions (FIFO, key roles, non-blocking path, publish-after-init) at every "
    "access site of the hub. Delivery exactly-once/in-order over all thread interleavings is NOT decided."
)
LEVEL_NOTE = "lock discipline deliberately not armed (CPython list append/pop(0) are atomic); schedules are not explored"
ASSUMPTIONS = [LEVEL_NOTE]
HUB = "netqasm.sdk.classical_communication.thread_socket.socket_hub"
SOCK = "netqasm.sdk.classical_communication.thread_socket.socket"


def check_subclass_state_before_publish(ctx, ts, rule="C18.I"):
    """ThreadSocket.__init__ ends in the hub's connect(): from that call on the peer can reach the socket's callbacks, while the
    constructor of a subclass is still running.  Whatever state a subclass's callbacks read must therefore exist before the base
    constructor is called: an attribute that a callback of the class reads and that __init__ assigns only after super().__init__()
    does not exist yet when a message arrives in the rendezvous window (the message is delivered nowhere)."""
    repo = ctx.repo
    base_init = ts.methods.get("__init__")
    publishes = base_init is not None and any(isinstance(c, ast.Call) and isinstance(c.func, ast.Attribute) and c.func.attr == "connect" for c in ast.walk(base_init))
    n = 0
    for mod in repo.modules.values():
        for c in mod.classes.values():
            if c is ts or ts not in repo.mro(c):
                continue
            init = c.methods.get("__init__")
            cbs = [f for name, f in c.methods.items() if name.endswith("_callback")]
            if init is None or not cbs:
                continue
            n += 1
            ctx.fn(f"{c.name}.__init__")
            read = set()
            for f in cbs:
                me = A.param_names(f)[0] if A.param_names(f) else "self"
                for x in ast.walk(f):
                    if isinstance(x, ast.Attribute) and isinstance(x.value, ast.Name) and x.value.id == me and isinstance(x.ctx, ast.Load):
                        read.add(x.attr)
            body = A.strip_docstring(init.body)
            sup = next((k for k, st in enumerate(body) if any(isinstance(x, ast.Call) and isinstance(x.func, ast.Attribute) and x.func.attr == "__init__" and isinstance(x.func.value, ast.Call)
                                                                and dotted(x.func.value.func) == "super" for x in ast.walk(st))), None)

            def assigned(stmts):
                out = set()
                for st in stmts:
                    for x in ast.walk(st):
                        if isinstance(x, ast.Attribute) and isinstance(x.value, ast.Name) and x.value.id == "self" and isinstance(x.ctx, ast.Store):
                            out.add(x.attr)
                return out

            late = sorted((assigned(body[sup + 1:]) - assigned(body[:sup])) & read) if sup is not None else []
            ctx.check(rule, f"{c.name}.__init__:state-of-the-callbacks-exists-before-the-socket-is-published", not (publishes and late),
                      f"{c.name}.__init__ assigns {late} only after super().__init__(), which connects the socket and registers its callbacks; {', '.join(f.name for f in cbs)} read{'s' if len(cbs) == 1 else ''} "
                      f"{'it' if len(late) == 1 else 'them'}: a message the peer sends while this constructor is still waiting for the rendezvous reaches the callback before the attribute exists and is delivered nowhere",
                      c.loc(init), sample={"class": c.name, "callback state": sorted(read)})
    ctx.check(rule, "socket-subclasses-with-callbacks-examined", True, sample={"classes": n}, trivial=True)


def check_receive(ctx, hub, rule="C18.E"):
    """send and recv of the hub, executed by the checker's interpreter on a hub built from __init__ (no callbacks registered).

    `sleep` is where a polling receive lets other threads run: the scripted sender acts inside it.  Required:
      - a non-blocking receive on an empty queue raises at once - no sleep before it, whatever the timeout argument is - and it is
        not a timeout error; on a non-empty queue it returns the head without sleeping;
      - a blocking receive polls: it returns the message that arrives during its k-th sleep (k = 1, 2) and no stale one; with a
        timeout and no message it raises TimeoutError; the queue it reads is its own;
      - what recv returns is what it removed from the head: three queued messages come out in sending order, each once, and a
        message queued for the other direction or another socket id is not touched."""
    from .. import circuit as C
    repo = ctx.repo
    m = hub.module
    send, recv = hub.methods.get("send"), hub.methods.get("recv")
    ctx.fn("_SocketHub.recv")
    ctx.fn("_SocketHub.send")

    class _Log:
        _nqsa_model = True

        def debug(self, *a_, **k_):
            return None
        info = warning = error = debug

    def sock(me, peer, sid=0):
        return C.Obj(None, {"key": (me, peer, sid), "remote_key": (peer, me, sid), "id": sid, "app_name": me, "remote_app_name": peer, "use_callbacks": False})

    A_, B_, B1 = sock("alice", "bob"), sock("bob", "alice"), sock("bob", "alice", 1)

    class DD(dict):
        """the defaultdict(list) of the hub"""
        def __missing__(self, k):
            self[k] = []
            return self[k]

    def world(script=None):
        """script: {sleep number: action} run inside that sleep of the receiver"""
        o = C.object_from_init(repo, hub, {"_logger": _Log(), "_lock": _Log(), "_messages": DD(), "_recv_callbacks": {}, "_conn_lost_callbacks": {}}, kind="self")
        clock, sleeps = [0.0], [0]
        sc = C.Scenario()

        def timer_():
            clock[0] += 0.1
            return clock[0]

        def sleep_(*a_, **k_):
            sleeps[0] += 1
            act = (script or {}).get(sleeps[0])
            if act is not None:
                act(o, sc)
            if sleeps[0] > 8:
                raise C.EvalRaise("Deadlock", "nothing more will arrive")
            return None

        sc.externals.update({"timeit.default_timer": timer_, "time.sleep": sleep_})
        return o, sc, sleeps

    def do_send(o, sc, s_, msg):
        return C.Interp(repo, ctx.ev, sc, hub).call_function(m, send, [s_, msg], {}, self_obj=o)

    def do_recv(o, sc, s_, **kw):
        try:
            return ("ok", C.Interp(repo, ctx.ev, sc, hub).call_function(m, recv, [s_], kw, self_obj=o))
        except C.EvalRaise as ex_:
            return ("raises", ex_.exc_name)

    bad = {}
    n = 0
    try:
        # non-blocking
        for timeout in (None, 0.05, 5.0):
            n += 1
            o, sc, sleeps = world()
            do_send(o, sc, B_, "for alice")          # the other direction: must not be seen by bob
            do_send(o, sc, sock("alice", "bob", 1), "for socket 1")
            r_ = do_recv(o, sc, B_, block=False, timeout=timeout)
            if r_[0] != "raises" or r_[1] in ("TimeoutError", "Deadlock"):
                bad.setdefault("non-blocking-empty-raises", f"recv(block=False, timeout={timeout}) on an empty queue gives {r_}; it must report emptiness (an error that is not a timeout)")
            if sleeps[0]:
                bad.setdefault("no-sleep-or-loop-before-the-raise", f"recv(block=False, timeout={timeout}) on an empty queue sleeps {sleeps[0]} time(s) before it answers")
            n += 1
            o, sc, sleeps = world()
            do_send(o, sc, A_, "m1")
            do_send(o, sc, A_, "m2")
            r_ = do_recv(o, sc, B_, block=False, timeout=timeout)
            if r_ != ("ok", "m1") or sleeps[0]:
                bad.setdefault("returns-the-popped-head", f"two messages queued, recv(block=False) gives {r_} after {sleeps[0]} sleeps; expected the first one at once")
        # FIFO, each once, own queue only
        n += 1
        o, sc, sleeps = world()
        for msg in ("m1", "", "m3"):                      # the empty string is a message like any other
            do_send(o, sc, A_, msg)
        do_send(o, sc, B_, "to alice")
        do_send(o, sc, sock("alice", "bob", 1), "socket 1")
        got = [do_recv(o, sc, B_, block=False) for _ in range(4)]
        if [g_[1] for g_ in got[:3]] != ["m1", "", "m3"] or got[3][0] != "raises":
            bad.setdefault("returns-the-popped-head", f"'m1', '', 'm3' sent; four receives give {got}")
        others = (do_recv(o, sc, A_, block=False), do_recv(o, sc, B1, block=False))
        if others != (("ok", "to alice"), ("ok", "socket 1")):
            bad.setdefault("emptiness-tested-on-own-queue-each-iteration", f"the messages for the other direction / the other socket id are now {others}: a receive touched a queue that is not its own")
        # blocking receive polls afresh
        for arrive_at in (1, 2):
            n += 1
            o, sc, sleeps = world({arrive_at: lambda o_, sc_: do_send(o_, sc_, A_, "late")})
            r_ = do_recv(o, sc, B_, block=True, timeout=None)
            if r_ != ("ok", "late") or sleeps[0] != arrive_at:
                bad.setdefault("emptiness-tested-on-own-queue-each-iteration", f"a message arriving during sleep {arrive_at} of a blocking receive: recv gives {r_} after {sleeps[0]} sleeps")
        n += 1
        o, sc, sleeps = world()
        r_ = do_recv(o, sc, B_, block=True, timeout=0.25)
        if r_ != ("raises", "TimeoutError"):
            bad.setdefault("blocking-receive-times-out", f"recv(block=True, timeout=0.25) with nothing sent gives {r_} after {sleeps[0]} sleeps; expected TimeoutError")
        n += 1
        o, sc, sleeps = world()
        r_ = do_recv(o, sc, B_, block=True, timeout=None)
        if r_ != ("raises", "Deadlock"):
            bad.setdefault("blocking-receive-times-out", f"recv(block=True, timeout=None) with nothing sent gives {r_}; it has to keep polling")
    except AnalysisError as ex_:
        ctx.error(rule, f"send / recv cannot be evaluated: {ex_}")
        return
    ctx.anchor(rule, "receive histories executed", n, 10)
    texts = {"non-blocking-empty-raises": "a non-blocking receive on an empty channel must report emptiness",
             "no-sleep-or-loop-before-the-raise": "the non-blocking receive would block",
             "emptiness-tested-on-own-queue-each-iteration": "the queue inspected by recv is not its own queue, looked at afresh on every poll",
             "returns-the-popped-head": "recv does not return exactly the message it removed from the head of the queue",
             "blocking-receive-times-out": "a blocking receive does not poll until the timeout"}
    for key, text in texts.items():
        ctx.check(rule, f"recv:{key}", key not in bad, f"{text}: {bad.get(key)}", repo.loc(m, recv))


def check_rendezvous(ctx, hub, rule="C18.R"):
    """"Two endpoints find each other whichever side starts first", decided on the registry code by executing it.

    connect / disconnect / is_connected / _wait_for_remote are run by the checker's interpreter on a hub object built from
    __init__ with two modelled sockets.  `sleep` is the only place where the waiting thread lets the other one run, so every
    history in which the second endpoint acts while the first one waits is a nesting: at the first thread's k-th sleep the
    other thread performs a prefix of (connect, disconnect).  Enumerated: which side starts, the sleep at which the peer
    arrives (first or second poll), how much of its life the peer lives inside that one sleep (connect only, or connect and
    disconnect - "opens and closes before the other side notices"), callbacks on or off, and the order of the remaining
    disconnects.  Required:
      - connect returns exactly when the peer has connected at some time (still open or closed again), not before;
      - with a timeout and no peer, TimeoutError; with no timeout and no peer, the waiting goes on (never a return);
      - is_connected is true exactly while both are open;
      - a disconnect calls the still-registered peer's connection-lost callback once;
      - after both have disconnected the registry and the callback tables are empty (a later session starts clean).
    """
    from .. import circuit as C
    repo = ctx.repo
    m = hub.module
    need = ["connect", "disconnect", "is_connected", "_wait_for_remote"]
    for n_ in need:
        if repo.lookup(hub, n_) is None:
            raise AnalysisError(f"_SocketHub.{n_} not found")
    ctx.fn("_SocketHub.connect")
    ctx.fn("_SocketHub.disconnect")
    ctx.fn("_SocketHub._wait_for_remote")

    class _Log:
        _nqsa_model = True

        def debug(self, *a_, **k_):
            return None
        info = warning = error = debug

    class Sock:
        _nqsa_model = True

        def __init__(self, me, peer, use_callbacks):
            self.app_name, self.remote_app_name, self.id = me, peer, 0
            self.key, self.remote_key = (me, peer, 0), (peer, me, 0)
            self.use_callbacks = use_callbacks
            self.lost = 0
            self.got = []

        def recv_callback(self, msg):
            self.got.append(msg)

        def conn_lost_callback(self):
            self.lost += 1

    def call(o, sc, name, *args, **kw):
        r_ = repo.lookup(hub, name)
        return C.Interp(repo, ctx.ev, sc, hub).call_function(r_[0].module, r_[1], list(args), kw, self_obj=o)

    n_hist = 0
    problems = []
    for use_cb in (False, True):
        for first in ("A", "B"):
            for arrive_at in (None, 1, 2):          # the sleep of the first thread during which the peer acts (None: never)
                for inside in ((1, 2) if arrive_at else (0,)):   # 1: peer connects; 2: peer connects and disconnects again
                    for timeout in ((None, 0.5) if arrive_at is None else (None,)):
                        for x_first in (True, False):  # order of the disconnects that remain after the rendezvous
                            socks = {"A": Sock("alice", "bob", use_cb), "B": Sock("bob", "alice", use_cb)}
                            X, Y = socks[first], socks["B" if first == "A" else "A"]
                            clock = [0.0]
                            sleeps = [0]
                            sc = C.Scenario()
                            o = C.object_from_init(repo, hub, {"_logger": _Log(), "_lock": _Log(), "_messages": {}}, kind="self")
                            state = {"y_connected": False, "y_open": False, "x_open": False}

                            def timer_():
                                clock[0] += 0.2
                                return clock[0]

                            def sleep_(*a_, **k_):
                                sleeps[0] += 1
                                if state.get("nested"):
                                    raise C.EvalRaise("Deadlock", "the peer waits although this socket has published itself")
                                if arrive_at is not None and sleeps[0] == arrive_at:
                                    state["nested"] = True
                                    call(o, sc, "connect", Y)
                                    state["y_connected"] = state["y_open"] = True
                                    if inside == 2:
                                        call(o, sc, "disconnect", Y)
                                        state["y_open"] = False
                                    state["nested"] = False
                                    return None
                                if sleeps[0] > 3:
                                    raise C.EvalRaise("Deadlock", "nobody else will act")
                                return None

                            sc.externals.update({"timeit.default_timer": timer_, "time.sleep": sleep_, "weakref.WeakMethod": (lambda meth: (lambda: meth)),
                                                 "threading.Lock": (lambda: _Log())})
                            label = f"callbacks={use_cb} first={first} peer-arrives-at-sleep={arrive_at} peer-does={['nothing', 'connect', 'connect+disconnect'][inside]} timeout={timeout}"
                            n_hist += 1
                            outcome = "returned"
                            try:
                                call(o, sc, "connect", X, timeout=timeout)
                            except C.EvalRaise as ex_:
                                outcome = ex_.exc_name
                            want = "returned" if arrive_at is not None else ("TimeoutError" if timeout is not None else "Deadlock")
                            if outcome != want:
                                problems.append((label, f"connect of the first endpoint: {outcome}, expected {want}" + (" (it returns before the peer has ever connected)" if outcome == "returned" else
                                                                                                                    " (it never notices that the peer has been there)" if want == "returned" else "")))
                                continue
                            if arrive_at is None:
                                continue
                            if sleeps[0] != arrive_at:
                                problems.append((label, f"connect slept {sleeps[0]} times, the peer was there after sleep {arrive_at}"))
                            both = bool(call(o, sc, "is_connected", X))
                            if both != (inside == 1):
                                problems.append((label, f"is_connected after the rendezvous is {both}, expected {inside == 1}"))
                            lost_before = (X.lost, Y.lost)
                            if use_cb and inside == 2 and X.lost != 1:
                                problems.append((label, f"the peer disconnected while this socket was registered: its connection-lost callback ran {X.lost} times, expected 1"))
                            order = [X] if inside == 2 else ([X, Y] if x_first else [Y, X])
                            try:
                                for i_, s_ in enumerate(order):
                                    other = Y if s_ is X else X
                                    before = other.lost
                                    other_registered = use_cb and not (inside == 2 and other is Y) and (i_ == 0)
                                    call(o, sc, "disconnect", s_)
                                    if other.lost - before != (1 if other_registered else 0):
                                        problems.append((label, f"disconnect of {s_.app_name}: the peer's connection-lost callback ran {other.lost - before} times, expected {1 if other_registered else 0}"))
                                    if bool(call(o, sc, "is_connected", s_)) or bool(call(o, sc, "is_connected", other)):
                                        problems.append((label, f"is_connected still true after {s_.app_name} disconnected"))
                            except C.EvalRaise as ex_:
                                problems.append((label, f"disconnect raises {ex_.exc_name}"))
                                continue
                            left = {k_: v_ for k_, v_ in o.fields.items() if k_ in ("_open_sockets", "_remote_sockets", "_recv_callbacks", "_conn_lost_callbacks") and v_}
                            if left:
                                problems.append((label, f"after both endpoints have disconnected the hub still holds {left}: the next session of the same pair does not start clean"))
    ctx.anchor(rule, "rendezvous histories executed", n_hist, 40)
    by_text = {}
    for label, why in problems:
        by_text.setdefault(why.split(":")[0], (label, why))
    ctx.check(rule, "connect/disconnect:endpoints-find-each-other-whichever-side-starts-first", not problems,
              "; ".join(f"[{l_}] {w_}" for l_, w_ in list(by_text.values())[:3]), repo.loc(m, repo.lookup(hub, "disconnect")[1]),
              sample={"histories": n_hist, "failing": len(problems)})


def run(ctx):
    repo = ctx.repo
    hub = repo.get_class(HUB, "_SocketHub")
    m = hub.module
    # locals of send / recv named by role (nqsa/roles.py)
    if hub.methods.get("send") is not None:
        roles.normalise(ctx, hub.methods["send"], ["$recv_callback=self._recv_callbacks.get(socket.remote_key)", "$method=$recv_callback()"], "_SocketHub.send")
    if hub.methods.get("recv") is not None:
        roles.normalise(ctx, hub.methods["recv"], ["$messages=self._messages[socket.key]", "$msg=$messages.pop(0)", "$t_start=timer()"], "_SocketHub.recv")
    # ---- C18.Q
    uses = 0
    for name, fn in sorted(hub.methods.items()):
        if name == "__init__":
            continue
        par = parents(fn)
        sockp = A.param_names(fn)[1] if len(A.param_names(fn)) > 1 else None
        alias: Dict[str, str] = {}
        # a local bound once to an attribute of a parameter (`key = socket.key`) stands for that attribute
        params_ = set(A.param_names(fn))
        naming = {k_: v_ for k_, v_ in A.single_defs(fn).items() if isinstance(v_, ast.Attribute) and isinstance(v_.value, ast.Name) and v_.value.id in params_}
        for n in A.body_nodes(fn):
            if isinstance(n, ast.Assign) and isinstance(n.targets[0], ast.Name) and isinstance(n.value, ast.Subscript) and A.is_self_attr(n.value.value, "_messages"):
                alias[n.targets[0].id] = A.norm(A.expand(n.value.slice, naming))
        for n in A.body_nodes(fn):
            q = None
            key = None
            if isinstance(n, ast.Subscript) and A.is_self_attr(n.value, "_messages"):
                q, key = n, A.norm(A.expand(n.slice, naming))
            elif isinstance(n, ast.Name) and isinstance(n.ctx, ast.Load) and n.id in alias:
                q, key = n, alias[n.id]
            if q is None:
                continue
            p = par.get(id(q))
            if isinstance(p, ast.Assign) and p.value is q:
                continue
            uses += 1
            ctx.fn(f"_SocketHub.{name}")
            form, ok = None, None
            if isinstance(p, ast.Attribute) and isinstance(par.get(id(p)), ast.Call):
                call = par[id(p)]
                if p.attr == "append" and len(call.args) == 1:
                    form, ok = "append(msg)", (name == "send" and key == f"{sockp}.remote_key")
                elif p.attr == "pop":
                    form = "pop(" + ", ".join(src(a) for a in call.args) + ")"
                    ok = len(call.args) == 1 and isinstance(call.args[0], ast.Constant) and call.args[0].value == 0 and name == "recv" and key == f"{sockp}.key"
                elif p.attr in ("insert", "remove", "clear", "extend", "sort", "reverse"):
                    form, ok = p.attr + "(...)", False
            elif isinstance(p, ast.Call) and dotted(p.func) == "len":
                form, ok = "len(...)", True
            elif isinstance(p, ast.Subscript) and p.value is q:
                form = f"[{src(p.slice)}]"
                ok = isinstance(p.slice, ast.Constant) and p.slice.value == 0 and name == "recv" and key == f"{sockp}.key"
            if ok is None:
                ctx.error("C18.Q", f"{name}: use of _messages in an unrecognised form `{src(p)[:60] if p is not None else src(q)}`")
                continue
            ctx.check("C18.Q", f"{name}:_messages[{key}]:{form}", ok,
                      f"_SocketHub.{name} uses the message queue under key {key} as `{form}`; FIFO delivery needs: send appends at the tail of the receiver's queue (remote_key), recv pops the head (pop(0)) of its own queue (key)",
                      repo.loc(m, q), sample={"function": name, "key": key, "form": form})
    # dict-level operations on the queues (dropping or replacing a whole queue) lose messages
    for name, fn in sorted(hub.methods.items()):
        if name == "__init__":
            continue
        for n in ast.walk(fn):
            bad = None
            if isinstance(n, ast.Call) and isinstance(n.func, ast.Attribute) and A.is_self_attr(n.func.value, "_messages") and n.func.attr in ("pop", "clear", "popitem", "update", "setdefault"):
                bad = src(n)
            elif isinstance(n, ast.Delete) and any(isinstance(t, ast.Subscript) and A.is_self_attr(t.value, "_messages") for t in n.targets):
                bad = src(n)
            elif isinstance(n, ast.Assign) and any((isinstance(t, ast.Subscript) and A.is_self_attr(t.value, "_messages")) or A.is_self_attr(t, "_messages") for t in n.targets):
                bad = src(n)
            if bad is not None:
                uses += 1
                ctx.check("C18.Q", f"{name}:_messages:whole-queue-operation", False,
                          f"_SocketHub.{name} does `{bad[:70]}`: removing or replacing a whole queue discards messages that were sent but not yet received (a peer may already have queued them)", repo.loc(m, n))
    ctx.anchor("C18.Q", "uses of the message queues", uses, 3)
    # ---- C18.K key mirror
    ts = repo.get_class(SOCK, "ThreadSocket")
    kf, rf = ts.methods.get("key"), ts.methods.get("remote_key")
    if kf is None or rf is None:
        raise AnalysisError("ThreadSocket.key/remote_key not found")
    ctx.fn("ThreadSocket.key")
    ctx.fn("ThreadSocket.remote_key")

    def tup(fn):
        r = A.returns(fn)
        if len(r) == 1 and isinstance(r[0].value, ast.Tuple):
            out = []
            for e in r[0].value.elts:
                if A.is_self_attr(e):
                    al = repo.property_alias(ts, e.attr) or e.attr
                    out.append(al)
                else:
                    out.append(src(e))
            return out
        return None
    k, rk = tup(kf), tup(rf)
    ok = k is not None and rk is not None and len(k) == 3 and rk == [k[1], k[0], k[2]] and k[0] != k[1]
    ctx.check("C18.K", "ThreadSocket:remote_key-mirrors-key", ok, f"key = {k}, remote_key = {rk}; remote_key must be key with the two application names swapped and the same id", ts.loc(rf), sample={"key": k, "remote_key": rk})
    # roles in the hub
    def keys_used(fn, what):
        out = set()
        # a local bound once to an attribute of a parameter (`key = socket.key`) stands for that attribute
        params_ = set(A.param_names(fn))
        naming = {k_: v_ for k_, v_ in A.single_defs(fn).items() if isinstance(v_, ast.Attribute) and isinstance(v_.value, ast.Name) and v_.value.id in params_}
        for n in A.body_nodes(fn):
            if isinstance(n, ast.Subscript) and A.is_self_attr(n.value, what):
                out.add(A.norm(A.expand(n.slice, naming)))
            if isinstance(n, ast.Call) and isinstance(n.func, ast.Attribute) and n.func.attr in ("get", "pop") and A.is_self_attr(n.func.value, what) and n.args:
                out.add(A.norm(A.expand(n.args[0], naming)))
        return out
    send, recv, addcb, conn = (hub.methods.get(x) for x in ("send", "recv", "_add_callbacks", "connect"))
    if not all((send, recv, addcb, conn)):
        raise AnalysisError("_SocketHub.send/recv/_add_callbacks/connect not found")
    sp = A.param_names(send)[1]
    ctx.check("C18.K", "send:callback-looked-up-under-remote_key", keys_used(send, "_recv_callbacks") == {f"{sp}.remote_key"},
              f"send looks the receive callback up under {sorted(keys_used(send, '_recv_callbacks'))}; must be the receiver's key (remote_key)", repo.loc(m, send))
    ap = A.param_names(addcb)[1]
    ctx.check("C18.K", "_add_callbacks:registered-under-key", keys_used(addcb, "_recv_callbacks") == {f"{ap}.key"},
              f"callbacks are registered under {sorted(keys_used(addcb, '_recv_callbacks'))}; must be the socket's own key", repo.loc(m, addcb))
    # the callback receives the message that was sent
    msgp = A.param_names(send)[2]
    cb_calls = [c for c in A.calls_in(send) if isinstance(c.func, ast.Name) and c.func.id == "method"]
    ctx.check("C18.K", "send:callback-gets-the-message", len(cb_calls) == 1 and len(cb_calls[0].args) == 1 and A.norm(cb_calls[0].args[0]) == msgp,
              "the receive callback is not called exactly once with the sent message", repo.loc(m, send))
    # a message is delivered either to the callback or to the queue, not both / neither
    cfg = F.CFG(send)

    def deliver(st):
        return F.events_in(st, lambda n: isinstance(n, ast.Call) and ((isinstance(n.func, ast.Name) and n.func.id == "method") or (isinstance(n.func, ast.Attribute) and n.func.attr == "append" and "_messages" in A.norm(n.func.value))))
    mn, mx = cfg.count_on_paths(deliver)
    ctx.check("C18.K", "send:at-most-one-delivery-per-path", mx == 1, f"a send delivers between {mn} and {mx} times on its paths (callback call or queue append); more than one is a duplicate", repo.loc(m, send),
              sample={"deliveries per path": [mn, mx]})
    # ---- C18.E  (abstract execution)
    check_receive(ctx, hub)
    # the sleep is only on the path that continues polling (after the timeout test)
    # ---- C18.I
    ctx.fn("_SocketHub.connect")
    cp = A.param_names(conn)[1]
    idx_cb = idx_pub = None
    for i, st in enumerate(conn.body):
        for c in A.calls_in(st):
            if A.is_self_attr(c.func, "_add_callbacks"):
                idx_cb = i if idx_cb is None else idx_cb
            if isinstance(c.func, ast.Attribute) and c.func.attr == "add" and A.is_self_attr(c.func.value, "_open_sockets") and c.args and A.norm(c.args[0]) == f"{cp}.key":
                idx_pub = i if idx_pub is None else idx_pub
    if idx_cb is None or idx_pub is None:
        ctx.error("C18.I", "connect: callback registration / key publication not found at the top level of the function")
    else:
        ctx.check("C18.I", "connect:callbacks-registered-before-key-published", idx_cb < idx_pub,
                  "connect() adds the socket's key to _open_sockets before registering its callbacks: a peer that sends in that window has its message queued "
                  "instead of delivered to the callback, and a callback socket never reads the queue", repo.loc(m, conn.body[idx_pub]),
                  sample={"register at statement": idx_cb, "publish at statement": idx_pub})
    # is_connected requires both keys; the socket-level send refuses when not connected
    ic = hub.methods.get("is_connected")
    if ic is not None:
        # executed for every combination of the two keys being listed as open (and as "has been here"): true exactly when both are open
        from .. import circuit as C
        sock_ = C.Obj(None, {"key": ("a", "b", 0), "remote_key": ("b", "a", 0)})
        got = {}
        try:
            for own in (False, True):
                for peer in (False, True):
                    for traces in (set(), {("a", "b", 0), ("b", "a", 0)}):
                        o = C.object_from_init(repo, hub, {"_open_sockets": ({("a", "b", 0)} if own else set()) | ({("b", "a", 0)} if peer else set()) | {("c", "a", 0)}, "_remote_sockets": set(traces)}, kind="self")
                        got[(own, peer, bool(traces))] = C.Interp(repo, ctx.ev, C.Scenario(), hub).call_function(m, ic, [sock_], {}, self_obj=o)
            wrong = {k_: v_ for k_, v_ in got.items() if v_ is not (k_[0] and k_[1])}
            ctx.check("C18.I", "is_connected:both-endpoints-open", not wrong, f"is_connected is not `both key and remote_key are in _open_sockets`: (own open, peer open, traces present) -> {wrong}", repo.loc(m, ic))
        except C.EvalRaise as ex_:
            ctx.check("C18.I", "is_connected:both-endpoints-open", False, f"is_connected raises {ex_}", repo.loc(m, ic))
        except AnalysisError as ex_:
            ctx.error("C18.I", f"is_connected cannot be evaluated: {ex_}")
    for meth in ("send", "send_structured", "send_silent"):
        fn = ts.methods.get(meth)
        if fn is None:
            continue
        hub_send = [c for c in A.calls_in(fn) if A.norm(c.func) == "self._SOCKET_HUB.send"]
        guarded = False
        for c in hub_send:
            for st in G.dominating_stmts(fn, c):
                cond = G.raising_condition(st)
                if cond is not None and A.norm(cond) == "notself.connected":
                    guarded = True
        ctx.check("C18.I", f"ThreadSocket.{meth}:refuses-when-not-connected", bool(hub_send) and guarded, f"ThreadSocket.{meth} hands the message to the hub without first raising when the socket is not connected", ts.loc(fn), trivial=True)
    # hub sends use the socket itself and the message parameter
    for meth in ("send", "send_structured", "send_silent"):
        fn = ts.methods.get(meth)
        if fn is None:
            continue
        mp = A.param_names(fn)[1]
        ok = any(A.norm(c.func) == "self._SOCKET_HUB.send" and [A.norm(a) for a in c.args] == ["self", mp] for c in A.calls_in(fn))
        ctx.check("C18.K", f"ThreadSocket.{meth}:passes-own-socket-and-message", ok, f"ThreadSocket.{meth} does not call hub.send(self, {mp})", ts.loc(fn), trivial=True)
    # a queued message outlives its sender's connection: the receive wrappers reach the hub whatever the peer's state is
    n_recv = 0
    for meth, fn in sorted(ts.methods.items()):
        hub_recv = [c for c in A.calls_in(fn) if A.norm(c.func) == "self._SOCKET_HUB.recv"]
        if not hub_recv:
            continue
        n_recv += 1
        ctx.fn(f"ThreadSocket.{meth}")
        blockers = []
        for c in hub_recv:
            for st in G.dominating_stmts(fn, c):
                cond = G.raising_condition(st)
                if cond is not None and any(isinstance(x, ast.Attribute) and isinstance(x.value, ast.Name) and x.value.id == "self" for x in ast.walk(cond)):
                    blockers.append(src(cond))
            for t, pol in G.path_conditions(fn, c):
                if any(isinstance(x, ast.Attribute) and isinstance(x.value, ast.Name) and x.value.id == "self" for x in ast.walk(t)):
                    blockers.append(("" if pol else "not ") + src(t))
        ctx.check("C18.W", f"ThreadSocket.{meth}:reaches-the-hub-whatever-the-connection-state", not blockers,
                  f"ThreadSocket.{meth} only asks the hub for a message when `{'; '.join(blockers)}` allows it: a message that was sent before the sender disconnected "
                  "(it is still in the hub's queue) is then never received", ts.loc(fn), sample={"wrapper": meth})
    ctx.anchor("C18.W", "receive wrappers around hub.recv", n_recv, 3)
    # 0 is an ordinary id / value / address: nothing int-valued may be tested by truthiness (nqsa/truth.py)
    check_subclass_state_before_publish(ctx, ts, "C18.I")
    try:
        check_rendezvous(ctx, hub, "C18.R")
    except AnalysisError as ex_:
        ctx.error("C18.R", f"the registry code cannot be executed: {ex_}")
    from .. import truth
    truth.check(ctx, "C18.Z", ['netqasm.sdk.classical_communication.thread_socket.socket_hub', 'netqasm.sdk.classical_communication.thread_socket.socket'])
    # a value remembered for later calls is keyed by every argument it depends on (nqsa/memo.py)
    from .. import memo
    memo.check(ctx, "C18.K", ['netqasm.sdk.classical_communication.thread_socket.socket_hub', 'netqasm.sdk.classical_communication.thread_socket.socket'])
    # no type test that an earlier type test has already decided (a subclass tested after its base class: nqsa/shadow.py)
    from .. import shadow
    shadow.check(ctx, "C18.H", ['netqasm.sdk.classical_communication.thread_socket.socket_hub', 'netqasm.sdk.classical_communication.thread_socket.socket'])


H = "netqasm/sdk/classical_communication/thread_socket/socket_hub.py"
S = "netqasm/sdk/classical_communication/thread_socket/socket.py"
SEEDS = [
    dict(id="c18-disconnect-clears-own-trace", file=H, expect="C18.R", construct="endpoints-find-each-other",
         old="            if socket.remote_key in self._remote_sockets:\n                self._remote_sockets.remove(socket.remote_key)\n", new="            if socket.key in self._remote_sockets:\n                self._remote_sockets.remove(socket.key)\n"),
    dict(id="c18-disconnect-leaves-traces", file=H, expect="C18.R", construct="endpoints-find-each-other",
         old="            if socket.remote_key in self._remote_sockets:\n                self._remote_sockets.remove(socket.remote_key)\n", new=""),
    dict(id="c18-wait-ignores-closed-again", file=H, expect="C18.R", construct="endpoints-find-each-other",
         old="            if socket.remote_key in self._remote_sockets:\n                self._logger.debug(", new="            if socket.remote_key in self._remote_sockets and socket.remote_key in self._open_sockets:\n                self._logger.debug("),
    dict(id="c18-wait-own-trace", file=H, expect="C18.R", construct="endpoints-find-each-other",
         old="            if socket.remote_key in self._remote_sockets:\n                self._logger.debug(", new="            if socket.key in self._remote_sockets:\n                self._logger.debug("),
    dict(id="c18-timeout-never-raised", file=H, expect="C18.R", construct="endpoints-find-each-other", old="                if t_elapsed > timeout:\n                    app_name = socket.app_name", new="                if t_elapsed < -timeout:\n                    app_name = socket.app_name"),
    dict(id="c18-lost-callback-of-own-socket", file=H, expect="C18.R", construct="endpoints-find-each-other", old="            conn_lost_callback = self._conn_lost_callbacks.get(socket.remote_key)", new="            conn_lost_callback = self._conn_lost_callbacks.get(socket.key)"),
    dict(id="c18-recv-refuses-when-peer-gone", file=S, expect="C18.W", construct="ThreadSocket.recv_structured:",
         old="        # TODO use maxsize?\n        msg = self._SOCKET_HUB.recv(self, block=block, timeout=timeout)\n        # if not isinstance(msg, StructuredMessage):",
         new="        if not self.connected:\n            raise ConnectionError(\"not connected\")\n        msg = self._SOCKET_HUB.recv(self, block=block, timeout=timeout)\n        # if not isinstance(msg, StructuredMessage):"),
    dict(id="c18-pop-last", file=H, expect="C18.Q", construct="recv", old="                    msg = messages.pop(0)", new="                    msg = messages.pop()"),
    dict(id="c18-insert-front", file=H, expect="C18.Q", construct="send", old="                self._messages[socket.remote_key].append(msg)", new="                self._messages[socket.remote_key].insert(0, msg)"),
    dict(id="c18-queue-own-key", file=H, expect="C18.Q", construct="send", old="                self._messages[socket.remote_key].append(msg)", new="                self._messages[socket.key].append(msg)"),
    dict(id="c18-remote-key", file=S, expect="C18.K", construct="remote_key", old="        return self.remote_app_name, self.app_name, self.id", new="        return self.remote_app_name, self.app_name, 0"),
    dict(id="c18-callback-key", file=H, expect="C18.K", construct="send:callback", old="        recv_callback = self._recv_callbacks.get(socket.remote_key)", new="        recv_callback = self._recv_callbacks.get(socket.key)"),
    dict(id="c18-nonblock-raise", file=H, expect="C18.E", construct="non-blocking", old="                if not block:\n                    raise RuntimeError(f\"No message to receive on socket {socket.key}\")", new="                if not block and timeout is not None:\n                    raise RuntimeError(f\"No message to receive on socket {socket.key}\")"),
    dict(id="c18-nonblock-sleep", file=H, expect="C18.E", construct="no-sleep", old="            if len(messages) == 0:\n                if not block:", new="            if len(messages) == 0:\n                sleep(self.__class__._RECV_SLEEP_TIME)\n                if not block:"),
    dict(id="c18-publish-first", file=H, expect="C18.I", construct="connect", old="        self._add_callbacks(socket)\n        self._open_sockets.add(socket.key)\n        self._remote_sockets.add(socket.key)\n", new="        self._open_sockets.add(socket.key)\n        self._remote_sockets.add(socket.key)\n        self._add_callbacks(socket)\n"),
    dict(id="c18-double-delivery", file=H, expect="C18.K", construct="at-most-one-delivery", old="                method(msg)\n        else:", new="                method(msg)\n                self._messages[socket.remote_key].append(msg)\n        else:"),
    dict(id="c18-purge-on-connect", file=H, expect="C18.Q", construct="whole-queue", old="        self._remote_sockets.add(socket.key)\n", new="        self._remote_sockets.add(socket.key)\n        self._messages.pop(socket.key, None)\n"),
    dict(id="c18-stale", file=H, expect="C18.E", construct="returns-the-popped", old="                    msg = messages.pop(0)\n", new="                    msg = messages[-1]\n                    messages.pop(0)\n"),
]
BENIGN = [
    dict(id="c18-benign-discard", file=H, old="            if socket.key in self._open_sockets:\n                self._open_sockets.remove(socket.key)\n            if socket.remote_key in self._remote_sockets:\n                self._remote_sockets.remove(socket.remote_key)\n",
         new="            self._open_sockets.discard(socket.key)\n            self._remote_sockets.discard(socket.remote_key)\n"),
    dict(id="c18-benign-wait-one-test", file=H, old="            if socket.remote_key in self._open_sockets:\n                self._logger.debug(f\"Connection for socket {socket.key} successful\")\n                return\n", new="            if socket.remote_key in self._open_sockets:\n                return\n"),
    dict(id="c18-benign-peek-then-pop", file=H, old="                    msg = messages.pop(0)\n", new="                    msg = messages[0]\n                    messages.pop(0)\n"),
]
