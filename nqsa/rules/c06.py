"""C06 — pre-compiled templated subroutines equal direct compilation (claimed in part).

C06.R  every connection method that pops the pending proto-subroutine reaches the
       builder reset on every path on which something was popped
C06.I  Subroutine.instantiate substitutes every Template operand of every
       instruction, rebuilds through the instruction's own from_operands and sets the app id
C06.T  from_operands that admit a Template also convert a raw int at the same position
C06.A  the assembler passes replace an operand only under a type test that excludes Template
"""
from __future__ import annotations

import ast
from typing import Dict, List, Optional, Set

from .. import astutil as A
from .. import flow as F
from .. import guards as G
from .. import instrs as I
from ..model import AnalysisError, Unknown, dotted, src

TECHNIQUE = "must-pass-through path rule (pop => reset) on the CFG with callee summaries; instantiate, templates through assembly and the flush / compile pipeline executed by the checker's own AST interpreter (static analysis; abstract execution)"
ENGINES = ["model", "flow", "instrs", "circuit", "pipeline"]
EXPLANATION = (
    "Over sdk/connection.py: for every method that calls subrt_pop_pending_subroutine(), every CFG path from the pop to a normal exit "
    "(except the early return taken when nothing was popped) passes a call of the builder's _reset, directly or through a callee "
    "whose own CFG always resets. Over lang/subroutine.py: instantiate() iterates all instructions and all operands without early "
    "exit, replaces Template operands by the supplied values, rebuilds with instr.from_operands and stores the app id. Over "
    "lang/instr: a from_operands that admits Template at a position converts an int at that position to an Immediate."
    ' C06.S: compile() and the flush path convert the proto-subroutine through the same single builder call, which assembles and then applies the configured transpiler.'
    ' C06.A: the assembler passes replace an operand of a command only under an isinstance fact that excludes Template, so template operands reach instantiate().'
    ' C06.T executes every from_operands abstractly with a Template at each immediate position and with raw ints.'
    ' C06.I executes Subroutine.instantiate on modelled instructions with 0 to 6 operands and templates at any position.'
)
LEVEL_TEXT = (
    "Static analysis, partial: the connection-state clause (compile leaves the builder as flush does) is decided on all paths of all "
    "popping methods, and the substitution is exhaustive. Not decided: equality of controller effects; NV-transpiled templates."
)
LEVEL_NOTE = "exceptional paths not modelled; callee resolution by method name within the connection class"
ASSUMPTIONS = [LEVEL_NOTE]
CONN = "netqasm.sdk.connection"
POP = "subrt_pop_pending_subroutine"


def is_reset_call(n) -> bool:
    return isinstance(n, ast.Call) and isinstance(n.func, ast.Attribute) and n.func.attr == "_reset" and "builder" in A.norm(n.func.value)


def always_resets(repo, cls, cache: Dict[str, bool], name: str, depth=3) -> bool:
    if name in cache:
        return cache[name]
    cache[name] = False
    r = repo.lookup(cls, name)
    if r is None or depth < 0:
        return False
    fn = r[1]
    cfg = F.CFG(fn)

    def ev(st):
        return F.events_in(st, lambda n: is_reset_call(n) or (isinstance(n, ast.Call) and A.is_self_attr(n.func) and n.func.attr != name and always_resets(repo, cls, cache, n.func.attr, depth - 1)))
    mn, mx = cfg.count_on_paths(ev)
    cache[name] = mn >= 1
    return cache[name]


def check_same_pipeline(ctx):
    """C06.S: compile() and the flush path turn a proto-subroutine into a Subroutine through the same builder conversion, and that
    conversion assembles and then applies the connection's transpiler (sibling agreement: what flush sends is what compile returns).
    Decided by executing both paths against a recording builder and the conversion against a recording assembler / transpiler
    (nqsa/pipeline.py)."""
    from .. import pipeline
    repo = ctx.repo
    conn = repo.get_class(CONN, "BaseNetQASMConnection")
    b = repo.get_class("netqasm.sdk.builder", "Builder")
    ctx.fn("BaseNetQASMConnection.compile")
    ctx.fn("BaseNetQASMConnection.commit_protosubroutine")
    ctx.fn("Builder.subrt_compile_subroutine")
    try:
        pr = pipeline.run_pipeline(ctx)
    except AnalysisError as ex_:
        ctx.error("C06.S", f"the compile / flush pipeline cannot be evaluated: {ex_}")
        return
    ctx.anchor("C06.S", "methods converting a proto-subroutine", 2, 2)
    ctx.check("C06.S", "compile-and-flush-convert-the-proto-subroutine-the-same-way", pr["flush"] is None and pr["compile"] is None,
              f"{pr['compile'] or pr['flush']}: compile() and the flush path must hand the popped proto-subroutine to the same builder conversion, otherwise a pre-compiled "
              "subroutine is not what a flush of the same operations sends (e.g. it misses the NV transpilation)", conn.loc(), sample={"paths": ["flush", "compile"]})
    ctx.check("C06.S", "Builder.subrt_compile_subroutine:assemble-then-transpile", pr["convert"] is None,
              f"Builder.subrt_compile_subroutine does not return assemble_subroutine(<proto>) passed through the connection's transpiler when one is configured: {pr['convert']}", b.loc())
    ctx.check("C06.S", "flush:builder-reset-only-after-the-subroutine-is-out", pr["reset-after-send"] is None, f"{pr['reset-after-send']}", conn.loc(), trivial=True)


def _branches(e, facts=()):
    """(facts, value) for every arm of a conditional expression"""
    if isinstance(e, ast.IfExp):
        return _branches(e.body, facts + ((e.test, True),)) + _branches(e.orelse, facts + ((e.test, False),))
    return [(facts, e)]


def _typed_as_non_template(facts, var) -> bool:
    for t, pol in facts:
        if pol and isinstance(t, ast.Call) and dotted(t.func) == "isinstance" and len(t.args) == 2 and A.norm(t.args[0]) == var:
            classes = [A.norm(x) for x in (t.args[1].elts if isinstance(t.args[1], ast.Tuple) else [t.args[1]])]
            if classes and not any("Template" in c or c == "object" for c in classes):
                return True
    return False


def check_templates_survive_assembly(ctx):
    """C06.A - a template operand has to reach Subroutine.instantiate: the assembler passes (arguments, constant lifting, label
    resolution) must hand every Template on untouched.  Decided by executing assemble_subroutine (checker's interpreter,
    _build_subroutine modelled: it returns the command list) on programs whose commands carry Template objects in every operand
    position - at an exempt (immediate) position, at a register position, next to literals that are lifted, and with a template
    whose name is also the name of a label of the program: afterwards the very same Template objects sit at the same positions."""
    from .. import circuit as C
    from ..model import EnumMember
    from . import c03
    repo, ev = ctx.repo, ctx.ev
    m = repo.module("netqasm.lang.parsing.text")
    asm = m.functions.get("assemble_subroutine")
    if asm is None:
        raise AnalysisError("text.assemble_subroutine not found")
    ctx.fn("text.assemble_subroutine")
    irm = repo.module("netqasm.lang.ir")
    icmd, blab, proto = irm.classes["ICmd"], irm.classes["BranchLabel"], irm.classes["ProtoSubroutine"]
    opm = repo.module(I.OPERAND_MOD)
    tcls, R_, LBL = opm.classes["Template"], opm.classes["Register"], opm.classes["Label"]
    gi = repo.get_class("netqasm.lang.ir", "GenericInstr")
    gm = ev.enum_members(gi)
    rn = repo.get_class("netqasm.lang.encoding", "RegisterName")
    rmem = ev.enum_members(rn)
    exc = c03.exception_table(ctx)
    ins = lambda n_: EnumMember(gi.qualname, n_, gm[n_])
    reg = lambda i_: C.Obj(R_, {"name": EnumMember(rn.qualname, "R", rmem["R"]), "index": i_})
    T = lambda n_: C.Obj(tcls, {"name": n_})
    rot = next((g for g, i in sorted(exc) if g.startswith("ROT")), None)
    if rot is None or ("JMP", 0) not in exc:
        raise AnalysisError("no rotation / jmp entry in the literal-exception table")
    plain = next(n_ for n_ in sorted(gm) if not any(e[0] == n_ for e in exc))
    t_imm, t_reg, t_lab, t_arg = T("angle"), T("value"), T("A"), T("arg")
    cmds = [C.Obj(blab, {"name": "A", "lineno": None}),
            C.Obj(icmd, {"instruction": ins(rot), "args": [], "operands": [reg(0), t_imm, 4], "lineno": None}),       # template at an exempt position
            C.Obj(icmd, {"instruction": ins(plain), "args": [t_arg], "operands": [t_reg, 77], "lineno": None}),      # template as bracketed argument and at a register position, next to a literal
            C.Obj(icmd, {"instruction": ins(rot), "args": [], "operands": [reg(1), t_lab, 2], "lineno": None}),      # template named like the label
            C.Obj(icmd, {"instruction": ins("JMP"), "args": [], "operands": [C.Obj(LBL, {"name": "A"})], "lineno": None})]
    where = {"angle": (1, 1), "arg": (2, 0), "value": (2, 1), "A": (3, 1)}
    sc = C.Scenario()
    sc.plain_registers = True
    sc.globals = {"_REPLACE_CONSTANTS_EXCEPTION": [(ins(a_), b_) for a_, b_ in sorted(exc)]}
    sc.overrides["_build_subroutine"] = lambda pre_subroutine=None, flavour=None, *a_, **k_: list(pre_subroutine.fields.get("_commands", pre_subroutine.fields.get("commands")))
    pre = C.Obj(proto, {"_commands": list(cmds), "_arguments": [], "_app_id": 0, "_netqasm_version": (0, 10)})
    bad = None
    try:
        out = C.Interp(repo, ev, sc, None).call_function(m, asm, [pre], {"flavour": C.Obj(None, {})})
        kept = [c_ for c_ in cmds[1:] if any(c_ is x for x in (out or []))]
        if len(kept) != 4:
            bad = "the source commands are not all in the assembled program"
        else:
            for t_ in (t_imm, t_arg, t_reg, t_lab):
                ci, pi = where[t_.fields["name"]]
                ops = cmds[ci].fields["operands"]
                if pi >= len(ops) or ops[pi] is not t_:
                    bad = bad or f"the template `{{{t_.fields['name']}}}` written as operand {pi} of command {ci} is `{ops[pi] if pi < len(ops) else None!r}` after assembling"
            jt = cmds[4].fields["operands"][0]
            if jt != 0 or isinstance(jt, bool):
                bad = bad or f"the jump to label A targets {jt!r}, expected 0"
    except C.EvalRaise as ex_:
        bad = f"assembling raises {ex_}"
    except AnalysisError as ex_:
        ctx.error("C06.A", f"assemble_subroutine cannot be evaluated: {ex_}")
        return
    ctx.check("C06.A", "assemble_subroutine:templates-reach-instantiate-untouched", bad is None,
              f"{bad}: a Template operand is consumed or replaced by the assembler, so instantiate() has nothing left to fill in", repo.loc(m, asm), sample={"templates": sorted(where)})


def check_value_equals_filled_template(ctx, rule="C06.P"):
    """"Filling a template and committing has the same effect as writing the value": where the SDK admits a Template (the numerator of
    a rotation), a value written directly must reach the subroutine exactly as instantiate() would put it there - unchanged.  The
    rotation emitter is executed (checker's interpreter) for int numerators inside and outside the encodable range and for a
    Template: the emitted operand is the numerator itself in every case (an int-only normalisation makes flush(n) and
    compile + instantiate(n) + commit differ; rejecting an unencodable value is the encoder's job, for both routes alike)."""
    from .. import circuit as C
    from ..model import EnumMember
    from . import c19
    repo = ctx.repo
    b = repo.get_class("netqasm.sdk.builder", "Builder")
    fn = b.methods.get("_build_cmds_single_qubit_rotation")
    if fn is None:
        raise AnalysisError("Builder._build_cmds_single_qubit_rotation not found")
    ctx.fn("Builder._build_cmds_single_qubit_rotation")
    gi_ = repo.get_class("netqasm.lang.ir", "GenericInstr")
    roty = EnumMember(gi_.qualname, "ROT_Y", ctx.ev.enum_members(gi_)["ROT_Y"])
    tcls = repo.get_class("netqasm.lang.operand", "Template")
    bad = None
    n = 0
    try:
        for d_ in (0, 1, 4, 7):
            for n_ in (0, 1, 2, 7, 31, 32, 255, 256, 300, 1000):
                n += 1
                outcome, log, asked = c19.rotation_builder_run(ctx, b, fn, {"instruction": roty, "virtual_qubit_id": 2, "n": n_, "d": d_}, [])
                rots = c19.rotation_builder_rotations(log)
                if outcome != "ok" or rots != [(2, "ROT_Y", n_, d_)]:
                    bad = bad or f"rotation with n={n_}, d={d_}: {outcome}, emitted {rots if rots is not None else log!r}; instantiate() would put exactly {n_} where a template stood"
            t_ = C.Obj(tcls, {"name": "num"})
            outcome, log, asked = c19.rotation_builder_run(ctx, b, fn, {"instruction": roty, "virtual_qubit_id": 2, "n": t_, "d": d_}, [])
            rots = c19.rotation_builder_rotations(log)
            if outcome != "ok" or not rots or rots[0][2] is not t_ or rots[0][3] != d_:
                bad = bad or f"rotation with a template numerator, d={d_}: {outcome}, emitted {rots!r}"
    except AnalysisError as ex_:
        ctx.error(rule, f"_build_cmds_single_qubit_rotation cannot be evaluated: {ex_}")
        return
    ctx.check(rule, "_build_cmds_single_qubit_rotation:a-written-value-is-emitted-as-a-filled-template-would-be", bad is None,
              f"{bad}: flushing the operations written with the value and committing the instantiated template send different subroutines (or only one of them is accepted)", b.loc(fn),
              sample={"numerators": n})


def run(ctx):
    check_same_pipeline(ctx)
    check_templates_survive_assembly(ctx)
    check_value_equals_filled_template(ctx, "C06.P")
    repo = ctx.repo
    m = repo.module(CONN)
    n_pop = 0
    for c in m.classes.values():
        cache: Dict[str, bool] = {}
        for name, fn in sorted(c.methods.items()):
            pops = [x for x in A.calls_in(fn) if A.call_name(x) == POP]
            if not pops:
                continue
            n_pop += 1
            ctx.fn(f"{c.name}.{name}")
            cfg = F.CFG(fn)
            pop_node = cfg.stmt_containing(pops[0])
            # variable holding the popped value
            pv = None
            st = cfg.stmt[pop_node]
            if isinstance(st, ast.Assign) and isinstance(st.targets[0], ast.Name):
                pv = st.targets[0].id
            # remove the bodies of `if <pv> is None: return` (nothing was popped)
            g = cfg.g
            removed = set()
            for n_, s_ in cfg.stmt.items():
                if isinstance(s_, ast.If) and pv and A.norm(s_.test) == f"{pv}isNone":
                    for b in s_.body:
                        for x in ast.walk(b):
                            k = cfg.node_of.get(id(x))
                            if k is not None:
                                removed.add(k)
            for k in removed:
                g.remove_node(k)

            def ev(st_):
                return F.events_in(st_, lambda n: is_reset_call(n) or (isinstance(n, ast.Call) and A.is_self_attr(n.func) and always_resets(repo, c, cache, n.func.attr)))
            mn, mx = cfg.count_on_paths(ev, source=pop_node)
            ctx.check("C06.R", f"{c.name}.{name}:pop-then-reset", mn >= 1,
                      f"{c.name}.{name} pops the pending proto-subroutine but there is a path to its normal exit that never resets the builder "
                      f"(min resets on a path = {mn}): the next flush declares and returns the same arrays again, erasing results already returned",
                      c.loc(fn), sample={"method": f"{c.name}.{name}", "min_resets_per_path": mn, "max": mx})
    ctx.anchor("C06.R", "methods that pop the pending proto-subroutine", n_pop, 2)
    # the reset itself clears what the next pop would re-emit
    b = repo.get_class("netqasm.sdk.builder", "Builder")
    rs = b.methods.get("_reset")
    mm = repo.get_class("netqasm.sdk.memmgr", "MemoryManager")
    mr = mm.methods.get("reset")
    if rs is None or mr is None:
        raise AnalysisError("Builder._reset / MemoryManager.reset not found")
    ok = any(A.norm(x.func) == "self._mem_mgr.reset" for x in A.calls_in(rs))
    ctx.check("C06.R", "Builder._reset:resets-memory-manager", ok, "Builder._reset does not reset the memory manager", b.loc(rs))
    called = {A.call_name(x) for x in A.calls_in(mr)}
    for need in ("reset_arrays_to_return", "reset_registers_to_return"):
        f2 = mm.methods.get(need)
        clears = f2 is not None and any(isinstance(n, ast.Assign) and A.is_self_attr(n.targets[0]) and isinstance(n.value, (ast.List, ast.Dict)) and not getattr(n.value, "elts", getattr(n.value, "keys", [])) for n in ast.walk(f2))
        ctx.check("C06.R", f"MemoryManager.reset:{need}", need in called and clears, f"MemoryManager.reset does not clear via {need}", mm.loc(mr), sample={"reset step": need})
    # what the pop emits comes from exactly these lists
    pp = b.methods.get(POP)
    ok = pp is not None and {"_build_cmds_allocated_arrays", "_build_cmds_return_registers"} <= {A.call_name(x) for x in A.calls_in(pp)}
    ctx.check("C06.R", "Builder.subrt_pop_pending_subroutine:emits-arrays-and-returns", ok, "the pop no longer emits array declarations / returns from the bookkeeping lists (anchor changed)", b.loc(pp) if pp else "", trivial=True)

    # ---- C06.I
    sub = repo.get_class("netqasm.lang.subroutine", "Subroutine")
    fn = sub.methods.get("instantiate")
    if fn is None:
        raise AnalysisError("Subroutine.instantiate not found")
    ctx.fn("Subroutine.instantiate")
    # instantiate, executed by the checker's interpreter on a subroutine of modelled instructions: every instruction is rebuilt by
    # its own from_operands, in order, from its own operands with each Template replaced by the argument of that name and everything
    # else kept; the list and the application id are stored; a template without arguments is refused
    from .. import circuit as C
    tcls0 = repo.get_class("netqasm.lang.operand", "Template")

    class MInstr:
        _nqsa_model = True

        def __init__(self, tag, operands):
            self.tag, self.operands = tag, operands

        def from_operands(self, ops):
            return ("rebuilt", self.tag, list(ops))

    def T_(name):
        return C.Obj(tcls0, {"name": name})

    def run_inst(instrs, arguments, with_args=True):
        o = C.object_from_init(repo, sub, {"_instructions": list(instrs), "_app_id": None, "_arguments": []}, kind="self")
        kw = {"app_id": 5}
        if with_args:
            kw["arguments"] = arguments
        try:
            C.Interp(repo, ctx.ev, C.Scenario(), sub).call_function(sub.module, fn, [], kw, self_obj=o)
        except C.EvalRaise as ex_:
            return None, ex_.exc_name
        return o, None

    r0, r1 = C.RegSym("r0"), C.RegSym("r1")
    prog = [MInstr("i0", [r0, T_("a"), 7]), MInstr("i1", []), MInstr("i2", [T_("b"), T_("a")]), MInstr("i3", [r1, 0, r0, 1, T_("a"), T_("b")])]  # up to six operands (RegRegImm4)
    want = [("rebuilt", "i0", [r0, 41, 7]), ("rebuilt", "i1", []), ("rebuilt", "i2", [0, 41]), ("rebuilt", "i3", [r1, 0, r0, 1, 41, 0])]
    why = {}
    try:
        o, raised = run_inst(prog, {"a": 41, "b": 0, "unused": 9})
        got = o.fields.get("_instructions") if o is not None else None
        if raised is not None or not isinstance(got, list):
            why["every-instruction"] = f"instantiate raises {raised}" if raised else f"the instruction list becomes {got!r}"
        else:
            if [g_[1] if isinstance(g_, tuple) and len(g_) == 3 else None for g_ in got] != ["i0", "i1", "i2", "i3"]:
                why["every-instruction"] = f"the rebuilt list is {got!r}: not one rebuilt instruction per source instruction, in order"
                if not all(isinstance(g_, tuple) and g_ and g_[0] == "rebuilt" for g_ in got):
                    why["rebuilt-by-own-class"] = f"the stored list holds {got!r}: not what each instruction's own from_operands returns"
            else:
                for g_, w_ in zip(got, want):
                    if len(g_[2]) != len(w_[2]):
                        why.setdefault("every-operand", f"{g_[1]} is rebuilt from {g_[2]!r}, its source has {len(w_[2])} operands")
                    elif any(not (x is y or (isinstance(y, int) and not isinstance(x, (C.Obj, C.RegSym)) and x == y)) for x, y in zip(g_[2], w_[2])):
                        why.setdefault("template-replaced-by-its-argument-others-kept", f"{g_[1]} is rebuilt from {g_[2]!r}, expected {w_[2]!r} (a: 41, b: 0)")
            if o.fields.get("_app_id") != 5:
                why["stores-instructions-and-app-id"] = f"the application id is {o.fields.get('_app_id')!r} after instantiate(app_id=5)"
        o2, raised2 = run_inst([MInstr("j0", [r0, 3]), MInstr("j1", [r1])], None, with_args=False)
        if raised2 is not None or o2.fields.get("_instructions") != [("rebuilt", "j0", [r0, 3]), ("rebuilt", "j1", [r1])] or o2.fields.get("_app_id") != 5:
            why.setdefault("stores-instructions-and-app-id", f"a subroutine without templates, instantiated without arguments: {raised2 or o2.fields.get('_instructions')!r}")
        o3, raised3 = run_inst([MInstr("k0", [T_("a")])], None, with_args=False)
        if raised3 is None:
            why.setdefault("template-replaced-by-its-argument-others-kept", f"a template without arguments is not refused: the instruction is rebuilt as {o3.fields.get('_instructions')!r}")
    except AnalysisError as ex_:
        ctx.error("C06.I", f"Subroutine.instantiate cannot be evaluated: {ex_}")
        why = None
    if why is not None:
        texts = {"every-instruction": "instantiate does not visit every instruction (early exit or filtered iteration)", "every-operand": "instantiate does not visit every operand of each instruction",
                 "template-replaced-by-its-argument-others-kept": "instantiate does not pass arguments[op.name] for Template operands and the operand itself otherwise, in order",
                 "rebuilt-by-own-class": "instructions are not rebuilt with instr.from_operands(ops) (class would not be preserved)",
                 "stores-instructions-and-app-id": "instantiate does not store the rebuilt instruction list and app_id"}
        for key, text in texts.items():
            ctx.check("C06.I", f"instantiate:{key}", key not in why, f"{text}: {why.get(key)}", sub.loc(fn))
    # arguments discovered = all Template operands
    init = sub.methods.get("__init__")
    ok = init is not None and any(isinstance(n, ast.Call) and dotted(n.func) == "isinstance" and A.norm(n.args[1]) == "Template" for n in ast.walk(init))
    ctx.check("C06.I", "Subroutine.__init__:arguments-from-template-operands", ok, "Subroutine.__init__ no longer collects Template operands as arguments", sub.loc(init) if init else "", trivial=True)

    # ---- C06.T  (abstract execution, as C17.O: the way from_operands is written does not matter)
    from .. import circuit as C
    n_t = 0
    seen = set()
    tcls = repo.get_class("netqasm.lang.operand", "Template")
    for c in I.all_registered(repo):
        fo = I.shape_owner(repo, c, "from_operands")
        if fo is None or fo.qualname in seen:
            continue
        seen.add(fo.qualname)
        fn = fo.methods["from_operands"]
        ops = I.operands_attrs(repo, c) or []
        anns = {n: ann for n, ann, k in I.operand_fields(repo, c)}
        reals = [repo.property_alias(c, a) or a for a in ops]
        imm_pos = [i for i, r in enumerate(reals) if "Immediate" in I.ann_types(anns.get(r))]
        if not imm_pos:
            continue

        def run_with(make):
            vals = []
            for i, r in enumerate(reals):
                t = I.ann_types(anns.get(r))
                if i in imm_pos:
                    vals.append(make(i))
                elif "Register" in t:
                    vals.append(C.RegSym(f"operand{i}"))
                else:
                    k = repo.resolve_class(fo.module, t[0]) if t else None
                    vals.append(C.Obj(k, {"operand": i}))
            it = C.Interp(repo, ctx.ev, C.Scenario(), None)
            try:
                return vals, it.call_function(fo.module, fn, [vals], {}, self_obj=("class", fo))
            except C.EvalRaise:
                return vals, None

        try:
            for i in imm_pos:
                # a template at position i alone (the others hold ints)
                vals, out = run_with(lambda j, i=i: C.Obj(tcls, {"name": f"t{j}"}) if j == i else 1000003 + j)
                if not (isinstance(out, C.Obj) and out.fields.get(reals[i]) is vals[i]):
                    continue  # this position does not admit a template
                n_t += 1
                ctx.fn(fo.qualname + ".from_operands")
                vals2, out2 = run_with(lambda j: 1000003 + j)
                got = out2.fields.get(reals[i]) if isinstance(out2, C.Obj) else None
                conv = isinstance(got, C.Imm) and got.value == vals2[i]
                ctx.check("C06.T", f"{fo.name}.from_operands:{reals[i]}:int-converted-where-template-admitted", conv,
                          f"{fo.name}.from_operands admits a Template for `{reals[i]}` but does not convert a raw int there to an Immediate; instantiating the template would leave an int operand", fo.loc(fn),
                          sample={"class": fo.name, "operand": reals[i]})
        except AnalysisError as ex_:
            ctx.error("C06.T", f"{fo.name}.from_operands cannot be evaluated: {ex_}")
    ctx.anchor("C06.T", "template-admitting operand positions", n_t, 2)


CN = "netqasm/sdk/connection.py"
SU = "netqasm/lang/subroutine.py"
SEEDS = [
    dict(id="c06-label-lookup-untyped", file="netqasm/lang/parsing/text.py", expect="C06.A", construct="templates-reach-instantiate",
         old="    if isinstance(operand, Label):\n        for label, value in labels.items():\n            if operand.name == label:\n                return value\n    return operand\n",
         new="    return labels.get(getattr(operand, \"name\", None), operand)\n"),
    dict(id="c06-label-lookup-admits-template", file="netqasm/lang/parsing/text.py", expect="C06.A", construct="templates-reach-instantiate",
         old="    if isinstance(operand, Label):\n        for label, value in labels.items():", new="    if isinstance(operand, (Label, Template)):\n        for label, value in labels.items():"),
    dict(id="c06-constant-lift-untyped", file="netqasm/lang/parsing/text.py", expect="C06.A", construct="templates-reach-instantiate",
         old="                isinstance(operand, int)\n                and (command.instruction, j) not in _REPLACE_CONSTANTS_EXCEPTION", new="                not isinstance(operand, (Register, ArrayEntry, ArraySlice, Label))\n                and (command.instruction, j) not in _REPLACE_CONSTANTS_EXCEPTION"),
    dict(id="c06-compile-assembles-only", expect="C06.S", construct="compile-and-flush",
         edits=[("netqasm/sdk/connection.py", "        subroutine = self._builder.subrt_compile_subroutine(protosubroutine)\n\n        # The arrays and registers", "        subroutine = assemble_subroutine(protosubroutine)\n\n        # The arrays and registers"),
                ("netqasm/sdk/connection.py", "from netqasm.lang.subroutine import Subroutine\n", "from netqasm.lang.parsing.text import assemble_subroutine\nfrom netqasm.lang.subroutine import Subroutine\n")]),
    dict(id="c06-builder-skips-transpiler", file="netqasm/sdk/builder.py", expect="C06.S", construct="assemble-then-transpile",
         old="        if self._compiler is not None:\n            subroutine = self._compiler(subroutine=subroutine).transpile()\n", new="        if self._compiler is not None and self._track_lines:\n            subroutine = self._compiler(subroutine=subroutine).transpile()\n"),

    dict(id="c06-orig-compile-no-reset", file=CN, expect="C06.R", construct="compile", old="        self._builder._reset()\n\n        return subroutine\n", new="        return subroutine\n"),
    dict(id="c06-commit-no-reset", file=CN, expect="C06.R", construct="flush", old="        self.commit_subroutine(subroutine, block, callback)\n\n        self._builder._reset()", new="        self.commit_subroutine(subroutine, block, callback)"),
    dict(id="c06-reset-conditional", file=CN, expect="C06.R", construct="flush", old="        self.commit_subroutine(subroutine, block, callback)\n\n        self._builder._reset()", new="        self.commit_subroutine(subroutine, block, callback)\n\n        if block:\n            self._builder._reset()"),
    dict(id="c06-reset-keeps-arrays", file="netqasm/sdk/memmgr.py", expect="C06.R", construct="reset_arrays_to_return", old="        self.reset_arrays_to_return()\n        self.reset_registers_to_return()", new="        self.reset_registers_to_return()"),
    dict(id="c06-instantiate-first-only", file=SU, expect="C06.I", construct="every-operand", old="            for op in instr.operands:\n                if isinstance(op, Template):\n                    assert arguments is not None", new="            for op in instr.operands[:3]:\n                if isinstance(op, Template):\n                    assert arguments is not None"),
    dict(id="c06-instantiate-skip", file=SU, expect="C06.I", construct="every-instruction", old="            instrs.append(instr.from_operands(ops))", new="            if not ops:\n                continue\n            instrs.append(instr.from_operands(ops))"),
    dict(id="c06-instantiate-appid", file=SU, expect="C06.I", construct="app-id", old="        self.instructions = instrs\n        self._app_id = app_id", new="        self.instructions = instrs"),
    dict(id="c06-template-int", file="netqasm/lang/instr/core.py", expect="C06.T", construct="imm1", old="        if isinstance(imm1, int):\n            imm1 = Immediate(value=imm1)\n        elif isinstance(imm1, Immediate):", new="        if isinstance(imm1, Immediate):"),
]
BENIGN = [
    dict(id="c06-benign-label-lookup-typed-get", file="netqasm/lang/parsing/text.py",
         old="    if isinstance(operand, Label):\n        for label, value in labels.items():\n            if operand.name == label:\n                return value\n    return operand\n",
         new="    return labels.get(operand.name, operand) if isinstance(operand, Label) else operand\n"),
]
