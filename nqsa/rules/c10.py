"""C10 — entanglement looks like Phi+ whatever Bell state the link delivered (claimed in part).

C10.T  Bell-state -> gates table of the single-pair correction emitter (T-sem)
C10.M  post-processing table of EprMeasureResult.measurement_outcome (3 x 6);
       basis <-> rotation tables inverse and semantically the named observable
C10.Q  reaching emitted definition: at every call of the correction emitter the
       qubit register was last written by a load of the qubit-id array at the
       pair index (constant 0 only under the single-communication-qubit guard)
C10.E  corrections and post-processing are control-dependent on expect_phi_plus
       and the receiver role
"""
from __future__ import annotations

import ast
import copy
import math
from typing import Dict, List, Optional, Tuple

import numpy as np

from .. import astutil as A
from .. import circuit as C
from .. import emit as E
from .. import guards as G
from ..model import AnalysisError, EnumMember, Unknown, dotted, src

TECHNIQUE = "table extraction from the AST + checker-side Pauli/Bell semantics; reaching-emitted-definition rule on the qubit operand; control-dependence on expect_phi_plus; abstract interpretation of small functions over an enumerated finite domain by the checker's own AST interpreter (static analysis)"
ENGINES = ["model", "emit", "circuit"]
EXPLANATION = (
    "The three if_eq(BellState.X.value) arms of the correction emitter are read from the AST, their rotation lists multiplied out and "
    "(P (x) 1)|state> compared with |Phi+>, states taken by name from BellState; the flip table of measurement_outcome is extracted "
    "and compared with `flip iff the correcting Pauli anticommutes with the measured axis`, the measured axis of each named basis "
    "being computed from its rotation triple (Rx Ry Rx then Z); at every call site of the correction emitter the last emitted write "
    "to its qubit register before the call must be a load of the qubit-id array at the pair index, a literal 0 being accepted only "
    "in a function called solely under the single-communication-qubit guard; every correction emission and the post_process flag "
    "lie under expect_phi_plus (and role == RECV)."
    ' C10.E: the gate of every correction-emitting site is decided as an implication (helper predicates inlined, all valuations of its atoms, both roles). C10.X: sdk_epr_keep is executed abstractly for every combination of post routine / sequential / communication qubits / role: exactly one correction mechanism is enabled. C10.Z: no truthiness test on an int-typed value.'
    " C10.T interprets the correction emitter twice on one persistent builder object with two different qubit registers and judges the second run (a command object kept from an earlier call carries that call's register). C10.K: nothing kept for later calls depends on an argument of the first call."
    ' C10.M executes rotation_to_basis / basis_to_rotation for all bases and measurement_outcome for 4 Bell states x 6 bases x both raw outcomes x post-processing on / off, and for unequal local / remote bases.'
)
LEVEL_TEXT = (
    "Static analysis, partial: correction table, post-processing table (18 entries), correction target and gating are decided at every "
    "site. Not decided: joint statistics as distributions; the Bell-state numbering used by the link layer that produces the reports."
)
LEVEL_NOTE = "BellState members are taken by name with the states documented next to them; qlink_interface's differently ordered BellState is noted, not armed (nothing fixes the producer's convention)"
ASSUMPTIONS = [LEVEL_NOTE]
B = "netqasm.sdk.builder"
BE = "netqasm.sdk.build_epr"
SINGLE = "_build_cmds_epr_keep_corrections_single_pair"

s2 = 1 / math.sqrt(2)
BELL = {
    "PHI_PLUS": np.array([s2, 0, 0, s2], dtype=complex),
    "PHI_MINUS": np.array([s2, 0, 0, -s2], dtype=complex),
    "PSI_PLUS": np.array([0, s2, s2, 0], dtype=complex),
    "PSI_MINUS": np.array([0, s2, -s2, 0], dtype=complex),
}
# Pauli (up to phase) that maps the state to Phi+ when applied to one half
CORRECTION = {"PHI_PLUS": "i", "PHI_MINUS": "z", "PSI_PLUS": "x", "PSI_MINUS": "y"}
PAULI = {"i": C.I2, "x": C.PX, "y": C.PY, "z": C.PZ}


def bell_by_value(ctx) -> Dict[int, str]:
    bs = ctx.repo.get_class("netqasm.qlink_compat", "BellState")
    return {v: k for k, v in ctx.ev.enum_members(bs).items()}


def check_correction_table(ctx):
    repo, ev = ctx.repo, ctx.ev
    b = repo.get_class(B, "Builder")
    r_ = repo.lookup(b, SINGLE)   # (through the MRO: the method may live in a base class / mixin of Builder)
    if r_ is None:
        raise AnalysisError(f"{SINGLE} not found")
    owner_cls, fn = r_[0], r_[1]
    ctx.fn(f"Builder.{SINGLE}")
    byv = bell_by_value(ctx)
    params = A.param_names(fn)
    bsp, qp = params[1], params[2]
    # the emitter is interpreted abstractly (loops over tables, comprehensions and helper calls included): `self` and the Bell-state
    # future are recorders, so the run yields the sequence  if_eq(v) ... add_pending_commands([...]) ...
    # The builder object outlives the call: its attributes start as Builder.__init__ leaves them (constants only) and keep what
    # the emitter stores in them.  The emitter is run twice on the same builder with two different qubit registers; the second
    # run is the one judged, so a command object kept from an earlier call (with that call's register in it) shows up.
    selfrec = C.Obj(None, {"name": "builder"}, "future")
    init = b.methods.get("__init__")
    for st in (A.body_nodes(init) if init is not None else []):
        tg = st.targets[0] if isinstance(st, ast.Assign) else st.target if isinstance(st, ast.AnnAssign) else None
        if tg is not None and A.is_self_attr(tg) and isinstance(getattr(st, "value", None), ast.Constant):
            selfrec.fields[tg.attr] = st.value.value
    # class-level tables of the builder and its base classes (a table of corrections kept next to the emitter) are what they evaluate to
    for k_ in repo.mro(b):
        for an_, (_a, av_) in k_.attrs.items():
            if an_ not in selfrec.fields and av_ is not None and not an_.startswith("__"):
                try:
                    selfrec.fields[an_] = C.Interp(repo, ev, C.Scenario(), None).eval(av_, {}, k_.module)
                except (AnalysisError, C.EvalRaise):
                    pass
    for qreg in (C.RegSym("qubit_reg_of_an_earlier_call"), C.RegSym("qubit_reg")):
        sc = C.Scenario()
        it = C.Interp(repo, ev, sc, None)
        bellrec = C.Obj(None, {"name": "bell_state"}, "future")
        try:
            it.call_function(owner_cls.module, fn, [bellrec, qreg], {}, self_obj=selfrec)
        except TypeError:
            it.call_function(owner_cls.module, fn, [selfrec, bellrec, qreg], {})
    arms: Dict[str, list] = {}
    current = None
    for rec in sc.recorded:
        name_, obj_, args_, kwargs_ = rec
        if name_ == "future.if_eq" and obj_ is bellrec:
            v = args_[0] if args_ else None
            v = v.value if isinstance(v, EnumMember) else v
            current = byv.get(v)
            if current is None:
                ctx.check("C10.T", f"arm:{v}", False, f"correction arm compares the Bell state with {v}, which is no BellState value", b.loc(fn))
            else:
                arms.setdefault(current, [])
        elif name_ in ("future.subrt_add_pending_commands", "future.subrt_add_pending_command") and obj_ is selfrec:
            cmds = args_[0] if args_ else kwargs_.get("commands", kwargs_.get("command"))
            cmds = cmds if isinstance(cmds, list) else [cmds]
            if current is None:
                ctx.check("C10.T", "correction-outside-any-arm", False, "a correction command is emitted outside any `if bell_state == ...` arm", b.loc(fn))
                continue
            arms[current].extend(cmds)
        elif name_.startswith("future.") and obj_ is bellrec:
            ctx.error("C10.T", f"unrecognised use of the Bell-state future in {SINGLE}: {name_[7:]}")
    ctx.anchor("C10.T", "Bell-state correction arms", len(arms), 3)
    for name, state in sorted(BELL.items()):
        ems = arms.get(name, [])
        U = C.I2
        seq = []
        bad_target = False
        for em in ems:
            fields = getattr(em, "fields", {})
            instr = fields.get("instruction")
            iname = instr.name if isinstance(instr, EnumMember) else str(instr)
            ops = fields.get("operands") or []
            if iname not in ("ROT_X", "ROT_Y", "ROT_Z") or len(ops) != 3:
                ctx.error("C10.T", f"correction arm {name}: unexpected command {iname}")
                continue
            n, d = ops[1], ops[2]
            n = n.value if isinstance(n, C.Imm) else n
            d = d.value if isinstance(d, C.Imm) else d
            if not isinstance(n, int) or not isinstance(d, int):
                ctx.error("C10.T", f"correction arm {name}: non-constant angle")
                continue
            if ops[0] is not qreg:
                bad_target = True
            U = C.rot(iname[-1].lower(), n * math.pi / 2 ** d) @ U
            seq.append((iname.lower(), n, d))
        out = np.kron(U, C.I2) @ state
        ok = abs(abs(np.vdot(BELL["PHI_PLUS"], out)) - 1) < 1e-9 and not bad_target
        ctx.check("C10.T", f"correction:{name}", ok,
                  f"for a reported {name} the emitter applies {seq or 'nothing'} to the local qubit; (P (x) 1)|{name}> is not |PHI_PLUS> (needed: {CORRECTION[name].upper()} up to phase)"
                  + ("; a correction targets another register than the emitter's qubit operand" if bad_target else ""), b.loc(fn), sample={"state": name, "gates": seq})


def basis_axis(rot: Tuple[int, int, int]) -> Optional[Tuple[str, int]]:
    """measured observable of `meas_basis x1 y x2 (denominator 16)`: U^dagger Z U with U = Rx(x2) Ry(y) Rx(x1)"""
    x1, y, x2 = rot
    U = C.rot("x", x2 * math.pi / 16) @ C.rot("y", y * math.pi / 16) @ C.rot("x", x1 * math.pi / 16)
    O = U.conj().T @ C.PZ @ U
    for ax, P in (("x", C.PX), ("y", C.PY), ("z", C.PZ)):
        for sgn in (1, -1):
            if np.allclose(O, sgn * P, atol=1e-9):
                return ax, sgn
    return None


def check_postprocessing(ctx):
    repo, ev = ctx.repo, ctx.ev
    m = repo.module(BE)
    emb = m.classes.get("EprMeasBasis")
    if emb is None:
        raise AnalysisError("EprMeasBasis not found")
    bases = list(ev.enum_members(emb))
    # basis <-> rotation tables
    # both conversion functions are executed abstractly (nqsa/circuit.py), however their tables are kept
    members = ev.enum_members(emb)
    f_b2r, f_r2b = m.functions.get("basis_to_rotation"), m.functions.get("rotation_to_basis")
    if f_b2r is None or f_r2b is None:
        raise AnalysisError("rotation_to_basis / basis_to_rotation not found")
    ctx.fn("build_epr.rotation_to_basis")
    ctx.fn("build_epr.basis_to_rotation")

    def _run(fn, arg):
        try:
            return C.Interp(repo, ev, C.Scenario(), None).call_function(m, fn, [arg], {})
        except C.EvalRaise:
            return None

    b2r, r2b = {}, {}
    try:
        for bn in bases:
            rot = _run(f_b2r, EnumMember(emb.qualname, bn, members[bn]))
            b2r[bn] = tuple(rot) if isinstance(rot, (tuple, list)) else None
        for rot in set(v for v in b2r.values() if v is not None) | {(1, 2, 3), (0, 0, 0)}:
            back = _run(f_r2b, rot)
            r2b[rot] = back.name if isinstance(back, EnumMember) else back
    except AnalysisError as ex_:
        ctx.error("C10.M", f"basis <-> rotation functions cannot be evaluated: {ex_}")
        return
    tables = {"rotation_to_basis": r2b, "basis_to_rotation": b2r}
    r2b, b2r = tables["rotation_to_basis"], tables["basis_to_rotation"]
    for bn in bases:
        rot = b2r.get(bn)
        ok = rot is not None and r2b.get(tuple(rot)) == bn
        ctx.check("C10.M", f"basis-tables:{bn}:inverse", ok, f"basis_to_rotation({bn}) = {rot} but rotation_to_basis maps it to {r2b.get(tuple(rot)) if rot is not None else None}", "netqasm/sdk/build_epr.py", trivial=True)
        ax = basis_axis(tuple(rot)) if rot is not None else None
        want = (bn[-1].lower(), -1 if bn.startswith("M") else 1)
        ctx.check("C10.M", f"basis-tables:{bn}:measures-its-axis", ax == want, f"basis {bn} is realised by rotations {rot}, which measure {ax}; expected {want} (axis, sign)", "netqasm/sdk/build_epr.py",
                  sample={"basis": bn, "rotations": rot, "observable": ax})
    # the X / Y constants of Qubit.measure(basis=...) agree
    b = repo.get_class(B, "Builder")
    mfn = b.methods.get("_build_cmds_measure")
    for n in ast.walk(mfn):
        if isinstance(n, ast.If) and isinstance(n.test, ast.Compare) and "QubitMeasureBasis." in A.norm(n.test):
            which = A.norm(n.test.comparators[0]).split(".")[-1]
            for c in A.calls_in(n.body[0]) if n.body else []:
                em = E.parse_icmd(c)
                if em is not None and em.instr == "MEAS_BASIS":
                    vals = [ev.try_eval(o, b.module) for o in em.operands[2:5]]
                    den = ev.try_eval(A.expand(em.operands[5], A.single_defs(mfn)), b.module)
                    ax = basis_axis(tuple(vals)) if all(isinstance(v, int) for v in vals) and den == 4 else None
                    ctx.check("C10.M", f"_build_cmds_measure:{which}-basis-constants", ax == (which.lower(), 1), f"measuring in basis {which} uses rotations {vals} / 2^{den}, which measure {ax}", b.loc(n), sample={"basis": which, "rotations": vals})
    # post-processing flips
    emr = m.classes.get("EprMeasureResult")
    mo = emr.methods.get("measurement_outcome") if emr else None
    if mo is None:
        raise AnalysisError("EprMeasureResult.measurement_outcome not found")
    ctx.fn("EprMeasureResult.measurement_outcome")
    # the property is executed abstractly for every (reported Bell state, basis, raw outcome): flipped <=> returned != raw.
    # The result object holds the raw outcome, the rotations of both sides (basis_to_rotation of the basis) and the raw Bell state.
    bsc = repo.get_class("netqasm.qlink_compat", "BellState")
    bsm = ev.enum_members(bsc)
    flips: Dict[str, set] = {n_: set() for n_ in bsm}
    eval_err = None
    raw_when_off = True

    def outcome(sname, bn, raw, post, remote=None):
        o = C.Obj(emr, {"post_process": post, "raw_measurement_outcome": raw, "measurement_basis_local": b2r.get(bn), "measurement_basis_remote": b2r.get(remote or bn),
                        "raw_bell_state": C.Obj(None, {"value": bsm[sname]})}, "self")
        return C.Interp(repo, ev, C.Scenario(), emr).call_function(m, mo, [], {}, self_obj=o)

    try:
        for sname in bsm:
            for bn in bases:
                res = [outcome(sname, bn, raw, True) for raw in (0, 1)]
                if res == [1, 0]:
                    flips[sname].add(bn)
                elif res != [0, 1]:
                    flips[sname].add(f"{bn}:{res}")
                if [outcome(sname, bn, raw, False) for raw in (0, 1)] != [0, 1]:
                    raw_when_off = False
    except (AnalysisError, C.EvalRaise) as ex_:
        eval_err = str(ex_)
        ctx.error("C10.M", f"EprMeasureResult.measurement_outcome cannot be evaluated: {ex_}")
        return
    n_entries = 0
    for sname in ("PHI_PLUS", "PHI_MINUS", "PSI_PLUS", "PSI_MINUS"):
        corr = CORRECTION[sname]
        for bn in bases:
            n_entries += 1
            axis = bn[-1].lower()
            want = corr != "i" and corr != axis
            got = bn in flips.get(sname, set())
            ctx.check("C10.M", f"post-process:{sname}:{bn}", got == want,
                      f"outcome measured in basis {bn} with reported {sname}: flipped={got}; Phi+ statistics need flipped={want} (the correcting Pauli {corr.upper()} {'anti' if want else ''}commutes with {axis.upper()})",
                      emr.loc(mo), sample={"state": sname, "basis": bn, "flip": got} if n_entries % 6 == 1 else None)
    ctx.anchor("C10.M", "post-processing table entries", n_entries, 24)
    # without post-processing the raw outcome is returned unchanged (evaluated above for every state and basis)
    ctx.check("C10.M", "measurement_outcome:raw-when-not-post-processing", raw_when_off, "measurement_outcome does not return the raw outcome when post_process is off", emr.loc(mo))
    # bell_state, executed for every member: the member whose value the object's own raw_bell_state holds (wherever in the bases the property lives)
    rb = repo.lookup(emr, "bell_state")
    bs = rb[1] if rb is not None else None
    ok = bs is not None
    if ok:
        try:
            for sname in bsm:
                o_ = C.Obj(emr, {"raw_bell_state": C.Obj(None, {"value": bsm[sname]}), "post_process": False, "raw_measurement_outcome": 0}, "self")
                got_ = C.Interp(repo, ev, C.Scenario(), emr).getattr(o_, "bell_state")
                if not (isinstance(got_, EnumMember) and got_.name == sname and got_.enum == bsc.qualname):
                    ok = False
        except (AnalysisError, C.EvalRaise):
            ok = False
    ctx.check("C10.M", "EprMeasureResult.bell_state:from-own-raw-bell-state", ok, "bell_state is not the BellState member of the object's own raw_bell_state value", emr.loc(bs) if bs else "", trivial=True)
    # the basis that decides the flip is the local one: with different local / remote bases no post-processed outcome is handed out
    mixed = []
    try:
        for bl, br_ in (("X", "Z"), ("Z", "Y")):
            if bl in bases and br_ in bases:
                try:
                    mixed.append(outcome("PSI_PLUS", bl, 0, True, remote=br_))
                except C.EvalRaise:
                    mixed.append("raises")
    except AnalysisError as ex_:
        ctx.error("C10.M", f"measurement_outcome cannot be evaluated for unequal bases: {ex_}")
    ctx.check("C10.M", "measurement_outcome:basis-is-local-measurement-basis", all(x == "raises" for x in mixed) and bool(mixed),
              f"with unequal local and remote bases a post-processed outcome is returned ({mixed}) instead of an error", emr.loc(mo))


def unit_of(fn_outer, node):
    """innermost function (closure) containing node"""
    best = fn_outer
    for n in ast.walk(fn_outer):
        if isinstance(n, (ast.FunctionDef, ast.AsyncFunctionDef)) and n is not fn_outer and any(x is node for x in ast.walk(n)):
            if best is fn_outer or any(x is n for x in ast.walk(best)):
                best = n
    return best


def check_targets(ctx):
    repo = ctx.repo
    b = repo.get_class(B, "Builder")
    sites = 0
    for name, fn in sorted(b.methods.items()):
        for call in A.calls_in(fn, nested=True):
            if not A.is_self_attr(call.func, SINGLE):
                continue
            sites += 1
            unit = unit_of(fn, call)
            # a closure is named by its position among the closures of the method, not by its (local) name
            closures = [n_ for n_ in ast.walk(fn) if isinstance(n_, (ast.FunctionDef, ast.AsyncFunctionDef)) and n_ is not fn]
            uname = name if unit is fn else f"{name}.<closure {closures.index(unit) + 1}>"
            ctx.fn(f"Builder.{uname}")
            qarg = call.args[1] if len(call.args) > 1 else A.kwargs_of(call).get("qubit_reg")
            if not isinstance(qarg, ast.Name):
                ctx.error("C10.Q", f"{uname}: qubit register argument is not a name")
                continue
            R = qarg.id
            # writes to R emitted in this unit before the call, in source order
            writes = []
            for c in A.calls_in(unit, nested=False):
                if (c.lineno, c.col_offset) >= (call.lineno, call.col_offset):
                    continue
                em = E.parse_icmd(c)
                if em is not None and em.kind == "icmd" and em.instr == "SET" and em.operands and A.norm(em.operands[0]) == R:
                    writes.append((c.lineno, "set", A.norm(em.operands[1]), c))
                if isinstance(c.func, ast.Attribute) and c.func.attr == "get_load_commands" and c.args and A.norm(c.args[0]) == R:
                    writes.append((c.lineno, "load", A.norm(A.expand(c.func.value, A.single_defs(unit))), c))
            writes.sort(key=lambda w: w[0])
            last = writes[-1] if writes else None
            ok = False
            why = "the qubit register is never written before the corrections are emitted"
            if last is not None:
                if last[1] == "load":
                    # <ids array>.get_future_index(<pair index>)
                    srcx = last[2]
                    ok = ".get_future_index(" in srcx and ("qubit_ids" in srcx)
                    idx = srcx[srcx.index(".get_future_index(") + len(".get_future_index("):-1] if ok else None
                    # pair index = the loop callback's index parameter / loop register of the unit
                    params = A.param_names(unit)
                    ok = ok and idx is not None and (idx in params or idx in ("loop_register", "pair"))
                    why = f"last write is a load of `{srcx}`"
                else:
                    # literal: only under the single-communication-qubit guard
                    guarded = single_comm_only(ctx, b, name)
                    ok = last[2] == "0" and guarded
                    why = f"last emitted write before the call is `set {R} {last[2]}`" + ("" if guarded else ", and the enclosing function is not reachable solely under the single-communication-qubit guard")
            ctx.check("C10.Q", f"Builder.{uname}:correction-targets-the-pair's-qubit", ok,
                      f"Builder.{uname}: {why}; the Pauli correction for pair i must act on the virtual qubit of pair i (its entry in the qubit-id array), "
                      f"otherwise with several pairs or other live qubits it hits a different qubit", b.loc(call), sample={"site": uname, "last_write": last[:3] if last else None})
    ctx.anchor("C10.Q", "call sites of the single-pair correction emitter", sites, 3)


def single_comm_only(ctx, b, fname) -> bool:
    """is Builder.<fname> called only under a test of `single_comm_qubit` (comm_qubit_count == 1)?"""
    callers = 0
    for name, fn in b.methods.items():
        d = A.single_defs(fn)
        for c in A.calls_in(fn, nested=True):
            if A.is_self_attr(c.func, fname):
                callers += 1
                tests = G.path_conditions(fn, c)
                ok = False
                for t, pol in tests:
                    conj = t.values if isinstance(t, ast.BoolOp) and isinstance(t.op, ast.And) else [t]
                    for x in conj:
                        e = A.expand(x, d)
                        if pol and "comm_qubit_count==1" in A.norm(e):
                            ok = True
                if not ok:
                    return False
    return callers > 0


def inline_predicates(expr, cls, depth=3):
    """replace self.<helper>(...) by the helper's returned expression (helpers whose body is one `return <expr>`),
    parameters substituted by the call's arguments or their defaults"""
    class T(ast.NodeTransformer):
        def visit_Call(self, node):
            self.generic_visit(node)
            if A.is_self_attr(node.func) and node.func.attr in cls.methods and depth > 0:
                h = cls.methods[node.func.attr]
                body = A.strip_docstring(h.body)
                if len(body) == 1 and isinstance(body[0], ast.Return) and body[0].value is not None:
                    ps = h.args.args[1:]
                    defaults = dict(zip([p_.arg for p_ in ps][len(ps) - len(h.args.defaults):], h.args.defaults)) if h.args.defaults else {}
                    sub = {}
                    for i, p_ in enumerate(ps):
                        a = A.get_arg(node, i, p_.arg)
                        if a is None:
                            a = defaults.get(p_.arg)
                        if a is None:
                            return node
                        sub[p_.arg] = a
                    e = copy.deepcopy(body[0].value)

                    class S(ast.NodeTransformer):
                        def visit_Name(self, n):
                            return copy.deepcopy(sub[n.id]) if n.id in sub else n
                    return inline_predicates(S().visit(e), cls, depth - 1)
            return node
    return T().visit(copy.deepcopy(expr))


def gate_implies(tests, d, cls, has_role):
    """does the conjunction of the enclosing tests imply `params.expect_phi_plus` and (when the unit is shared by both
    roles) `role == EPRRole.RECV`?  Decided by evaluating it for every valuation of its atoms."""
    exprs = [(inline_predicates(A.expand(t, d), cls), pol) for t, pol in tests]
    RECV, CREATE = G.Sym("EPRRole.RECV"), G.Sym("EPRRole.CREATE")
    atoms = set()
    phi_atoms = set()
    for e, _ in exprs:
        for n in ast.walk(e):
            if isinstance(n, (ast.Name, ast.Attribute)):
                txt = A.norm(n)
                if txt.startswith("EPRRole") or txt in ("role",):
                    continue
                if isinstance(n, ast.Attribute) and n.attr == "expect_phi_plus":
                    phi_atoms.add(txt)
                atoms.add(txt)
    # keep maximal atoms only (a.b: not a)
    atoms = {a_ for a_ in atoms if not any(o != a_ and o.startswith(a_ + ".") for o in atoms)}
    atoms = sorted(a_ for a_ in atoms if a_ not in ("self",))
    if len(atoms) > 8:
        raise Unknown(f"too many atoms in the gate: {atoms}")
    phi_ok = role_ok = True
    import itertools
    for vals in itertools.product([True, False], repeat=len(atoms)):
        for role in ((RECV, CREATE) if has_role else (RECV,)):
            env = dict(zip(atoms, vals))
            env.update({"EPRRole.RECV": RECV, "EPRRole.CREATE": CREATE, "role": role})
            if all(bool(G.peval(e, env)) == pol for e, pol in exprs):
                if not phi_atoms or not all(env[a_] for a_ in phi_atoms):
                    phi_ok = False
                if role is not RECV:
                    role_ok = False
    return phi_ok, role_ok, [("" if pol else "not ") + src(e) for e, pol in exprs]


def check_applied_once(ctx):
    """C10.X: for one request the correction of a pair is emitted by exactly one mechanism: the whole-array loop (enabled by
    wait_all in the keep builders), the per-pair post routine, or the per-pair move-to-memory loop.  sdk_epr_keep is executed
    abstractly for every valuation of (post routine given, sequential, one communication qubit, role, reset flag)."""
    import itertools
    repo = ctx.repo
    b = repo.get_class(B, "Builder")
    fn = b.methods.get("sdk_epr_keep")
    if fn is None:
        raise AnalysisError("Builder.sdk_epr_keep not found")
    ctx.fn("Builder.sdk_epr_keep")
    RECV, CREATE = G.Sym("EPRRole.RECV"), G.Sym("EPRRole.CREATE")
    routine, hw = G.Sym("routine"), G.Sym("hardware_config")
    keepers = {}
    for name in ("_build_cmds_epr_recv_keep", "_build_cmds_epr_create_keep"):
        f2 = b.methods.get(name)
        if f2 is not None and "wait_all" in A.param_names(f2):
            keepers[name] = A.param_names(f2).index("wait_all") - 1
    bad = []
    n_val = 0
    for post, seq, comm, role, reset in itertools.product((None, routine), (True, False), (1, 2, None), (RECV, CREATE), (True, False)):
        env = {"params.post_routine": post, "params.sequential": seq, "params.number": 2, "params.expect_phi_plus": True,
               "self._hardware_config": (hw if comm is not None else None), "self._hardware_config.comm_qubit_count": comm if comm is not None else 2,
               "isinstance(self._hardware_config,NVHardwareConfig)": comm == 1,
               "role": role, "reset_results_array": reset, "EPRRole.RECV": RECV, "EPRRole.CREATE": CREATE}
        seen = {"wait_all": [], "post": 0, "move": 0}

        def on_call(c, env_):
            nm = c.func.attr if A.is_self_attr(c.func) else None
            if nm in keepers:
                a = A.get_arg(c, keepers[nm], "wait_all")
                try:
                    seen["wait_all"].append(G.peval(a, env_) if a is not None else G.UNKNOWN)
                except Unknown:
                    seen["wait_all"].append(G.UNKNOWN)
            elif nm == "_build_cmds_post_epr":
                seen["post"] += 1
            elif nm == "_build_cmds_wait_move_epr_to_mem":
                seen["move"] += 1

        try:
            G.run_block(fn.body, env, on_call)
        except Unknown as ex_:
            ctx.error("C10.X", f"sdk_epr_keep: a condition cannot be evaluated ({ex_})")
            return
        n_val += 1
        if len(seen["wait_all"]) != 1 or isinstance(seen["wait_all"][0], G.Sym):
            ctx.error("C10.X", f"sdk_epr_keep: the wait_all argument of the keep builder could not be evaluated for {('post routine' if post else 'no post routine')}, comm={comm}")
            return
        mechanisms = int(bool(seen["wait_all"][0])) + seen["post"] + seen["move"]
        if mechanisms != 1:
            bad.append({"post_routine": post is not None, "sequential": seq, "comm_qubits": comm, "role": str(role), "wait_all": bool(seen["wait_all"][0]), "post_epr": seen["post"], "move_to_mem": seen["move"]})
    ctx.check("C10.X", "sdk_epr_keep:one-correction-mechanism-per-request", not bad,
              f"for {bad[:2]} the request is built with {'several' if bad and (int(bad[0]['wait_all']) + bad[0]['post_epr'] + bad[0]['move_to_mem']) > 1 else 'no'} correction mechanism(s) "
              "(whole-array loop when wait_all, per-pair post routine, per-pair move to memory): a pair's Pauli correction is applied twice (and cancels) or not at all",
              b.loc(fn), sample={"valuations": n_val, "violating": bad[:3]})


def check_gating(ctx):
    repo = ctx.repo
    b = repo.get_class(B, "Builder")
    n = 0
    for name, fn in sorted(b.methods.items()):
        for call in A.calls_in(fn, nested=True):
            callee = call.func.attr if A.is_self_attr(call.func) else None
            if callee not in (SINGLE, "_build_cmds_epr_keep_corrections"):
                continue
            if name == "_build_cmds_epr_keep_corrections":
                continue  # the all-pairs emitter itself: its call sites are the gated ones
            n += 1
            unit = unit_of(fn, call)
            tests = G.path_conditions(unit, call)
            d = dict(A.single_defs(fn))
            d.update(A.single_defs(unit))
            # the unit serves both roles when the enclosing method has a `role` parameter; otherwise it exists on the receiving side only
            has_role = "role" in A.param_names(fn)
            recv_only = (not has_role) and "recv" in name
            try:
                phi_ok, role_ok, texts = gate_implies(tests, d, b, has_role)
            except Unknown as ex_:
                ctx.error("C10.E", f"Builder.{name}: gate of {callee} cannot be evaluated ({ex_})")
                continue
            ok = phi_ok and (role_ok if has_role else recv_only)
            ctx.check("C10.E", f"Builder.{name}:{callee}:gated-by-expect_phi_plus", ok,
                      f"Builder.{name} emits Bell corrections ({callee}) under {texts}; that condition "
                      + ("can hold with expect_phi_plus false" if not phi_ok else "can hold on the creating node" if has_role else "is in a method that is not receiver-only and tests no role")
                      + ": corrections must be emitted only by the receiver and only when it expects Phi+ (both nodes applying the same Pauli leaves the delivered Bell state in place)",
                      b.loc(call), sample={"site": name, "guards": texts})
    ctx.anchor("C10.E", "correction emission sites", n, 4)
    m = repo.module(BE)
    fn = m.functions.get("deserialize_epr_measure_results")
    ok = False
    if fn is not None:
        for c in A.calls_in(fn):
            if A.call_name(c) == "EprMeasureResult":
                pp = A.kwargs_of(c).get("post_process")
                pp = A.expand(pp, A.single_defs(fn)) if pp is not None else None  # the flag may be computed once before the results are built
                ok = pp is not None and A.norm(pp) in ("request.expect_phi_plusandrole==EPRRole.RECV", "role==EPRRole.RECVandrequest.expect_phi_plus")
    ctx.check("C10.E", "deserialize_epr_measure_results:post_process-flag", ok, "post_process is not (request.expect_phi_plus and role == EPRRole.RECV)", "netqasm/sdk/build_epr.py")
    # the API default and hand-through of expect_phi_plus
    es = repo.get_class("netqasm.sdk.epr_socket", "EPRSocket")
    for meth in ("recv_keep", "recv_keep_with_info", "recv_measure", "recv_rsp", "recv_rsp_with_info"):
        f2 = es.methods.get(meth)
        if f2 is None:
            continue
        if "expect_phi_plus" not in A.param_names(f2):
            continue
        ok = any(A.call_name(c) == "EntRequestParams" and A.norm(A.kwargs_of(c).get("expect_phi_plus", ast.Constant(value=0))) == "expect_phi_plus" for c in A.calls_in(f2))
        ctx.check("C10.E", f"EPRSocket.{meth}:expect_phi_plus-handed-through", ok, f"EPRSocket.{meth} does not pass expect_phi_plus into the request", es.loc(f2), trivial=True)


def run(ctx):
    check_applied_once(ctx)
    check_correction_table(ctx)
    check_postprocessing(ctx)
    check_targets(ctx)
    check_gating(ctx)
    # 0 is an ordinary id / value / address: nothing int-valued may be tested by truthiness (nqsa/truth.py)
    from .. import truth
    truth.check(ctx, "C10.Z", ['netqasm.sdk.builder', 'netqasm.sdk.build_epr'])
    # a value remembered for later calls is keyed by every argument it depends on (nqsa/memo.py)
    from .. import memo
    memo.check(ctx, "C10.K", ['netqasm.sdk.builder', 'netqasm.sdk.build_epr'])
    # no type test that an earlier type test has already decided (a subclass tested after its base class: nqsa/shadow.py)
    from .. import shadow
    shadow.check(ctx, "C10.H", ['netqasm.sdk.builder', 'netqasm.sdk.build_epr'])


BF = "netqasm/sdk/builder.py"
BEF = "netqasm/sdk/build_epr.py"
SEEDS = [
    dict(id="c10-post-routine-keeps-wait-all", file=BF, expect="C10.X", construct="one-correction-mechanism",
         old="        if params.post_routine is not None or single_comm_qubit:\n            wait_all = False", new="        if (params.post_routine is not None and params.sequential) or single_comm_qubit:\n            wait_all = False"),
    dict(id="c10-move-to-mem-also-with-post-routine", file=BF, expect="C10.X", construct="one-correction-mechanism",
         old="        if params.post_routine is None and single_comm_qubit:\n            self._build_cmds_wait_move_epr_to_mem(", new="        if single_comm_qubit:\n            self._build_cmds_wait_move_epr_to_mem("),

    dict(id="c10-helper-default-role-at-shared-site", expect="C10.E", construct="_build_cmds_wait_move_epr_to_mem", edits=[
        (BF, "    def _build_cmds_wait_move_epr_to_mem(", "    def _needs_bell_corrections(\n        self, params: EntRequestParams, role: EPRRole = EPRRole.RECV\n    ) -> bool:\n        return params.expect_phi_plus and role == EPRRole.RECV\n\n    def _build_cmds_wait_move_epr_to_mem("),
        (BF, "            if params.expect_phi_plus and role == EPRRole.RECV:\n                bell_state = self._get_raw_bell_state(", "            if self._needs_bell_corrections(params, role):\n                bell_state = self._get_raw_bell_state("),
        (BF, "            if params.expect_phi_plus and role == EPRRole.RECV:\n                # Perform Bell corrections", "            if self._needs_bell_corrections(params):\n                # Perform Bell corrections"),
    ]),

    dict(id="c10-table-swapped", file=BF, expect="C10.T", construct="correction", old="        with bell_state.if_eq(BellState.PHI_MINUS.value):  # Phi- -> apply Z-gate", new="        with bell_state.if_eq(BellState.PSI_PLUS.value):  # Phi- -> apply Z-gate"),
    dict(id="c10-psi-minus-half", file=BF, expect="C10.T", construct="correction:PSI_MINUS", old="                ICmd(instruction=GenericInstr.ROT_X, operands=[qubit_reg, 16, 4]),\n                ICmd(instruction=GenericInstr.ROT_Z, operands=[qubit_reg, 16, 4]),", new="                ICmd(instruction=GenericInstr.ROT_X, operands=[qubit_reg, 16, 4]),"),
    dict(id="c10-angle", file=BF, expect="C10.T", construct="correction:PHI_MINUS", old="                ICmd(instruction=GenericInstr.ROT_Z, operands=[qubit_reg, 16, 4])\n            ]\n            self.subrt_add_pending_commands(correction_cmds)  # type: ignore\n        with bell_state.if_eq(BellState.PSI_PLUS.value)", new="                ICmd(instruction=GenericInstr.ROT_Z, operands=[qubit_reg, 8, 4])\n            ]\n            self.subrt_add_pending_commands(correction_cmds)  # type: ignore\n        with bell_state.if_eq(BellState.PSI_PLUS.value)"),
    dict(id="c10-flip-table", file=BEF, expect="C10.M", construct="post-process:PSI_PLUS", old="            elif self.bell_state == BellState.PSI_PLUS:\n                # correct for X-gate applied to Phi+\n                if local in [\n                    EprMeasBasis.Y,\n                    EprMeasBasis.MY,", new="            elif self.bell_state == BellState.PSI_PLUS:\n                # correct for X-gate applied to Phi+\n                if local in [\n                    EprMeasBasis.X,\n                    EprMeasBasis.MY,"),
    dict(id="c10-basis-rotation", file=BEF, expect="C10.M", construct="basis-tables:MX", old="    elif basis == EprMeasBasis.MX:\n        return (0, 8, 0)", new="    elif basis == EprMeasBasis.MX:\n        return (0, 24, 0)"),
    dict(id="c10-orig-post-loop-zero", file=BF, expect="C10.Q", construct="_build_cmds_post_epr.<closure", old="                qubit_reg_cmds = qubit_ids.get_future_index(\n                    loop_reg\n                ).get_load_commands(qubit_reg)\n                self.subrt_add_pending_commands(qubit_reg_cmds)\n", new="                self.subrt_add_pending_command(ICmd(instruction=GenericInstr.SET, operands=[qubit_reg, 0]))\n"),
    dict(id="c10-ungated", file=BF, expect="C10.E", construct="_build_cmds_epr_recv_keep", old="        if wait_all and params.expect_phi_plus:\n            self._build_cmds_epr_keep_corrections(\n                qubit_ids_array, ent_results_array, params\n            )\n\n    def _build_cmds_epr_create_measure(", new="        if wait_all:\n            self._build_cmds_epr_keep_corrections(\n                qubit_ids_array, ent_results_array, params\n            )\n\n    def _build_cmds_epr_create_measure("),
    dict(id="c10-post-process-flag", file=BEF, expect="C10.E", construct="post_process", old="                post_process=(request.expect_phi_plus and role == EPRRole.RECV),", new="                post_process=(role == EPRRole.RECV),"),
    dict(id="c10-meas-x-const", file=BF, expect="C10.M", construct="_build_cmds_measure:X", old="                operands=[qubit_reg, outcome_reg, 0, 24, 0, denom],  # -pi/2 Y rotation", new="                operands=[qubit_reg, outcome_reg, 0, 8, 0, denom],  # -pi/2 Y rotation"),
    dict(id="c10-wait-move-generic", file=BF, expect="C10.Q", construct="_build_cmds_wait_move_epr_to_mem", old="        if params.post_routine is None and single_comm_qubit:\n            self._build_cmds_wait_move_epr_to_mem(", new="        if params.post_routine is None:\n            self._build_cmds_wait_move_epr_to_mem("),
    dict(id="c10-wrong-index", file=BF, expect="C10.Q", construct="_build_cmds_post_epr.<closure", old="                qubit_reg_cmds = qubit_ids.get_future_index(\n                    loop_reg\n                ).get_load_commands(qubit_reg)", new="                qubit_reg_cmds = qubit_ids.get_future_index(\n                    0\n                ).get_load_commands(qubit_reg)"),
]
BENIGN = [
    dict(id="c10-benign-gate-through-helper", edits=[
        (BF, "    def _build_cmds_wait_move_epr_to_mem(", "    def _needs_bell_corrections(\n        self, params: EntRequestParams, role: EPRRole = EPRRole.RECV\n    ) -> bool:\n        return params.expect_phi_plus and role == EPRRole.RECV\n\n    def _build_cmds_wait_move_epr_to_mem("),
        (BF, "            if params.expect_phi_plus and role == EPRRole.RECV:\n                bell_state = self._get_raw_bell_state(", "            if self._needs_bell_corrections(params, role):\n                bell_state = self._get_raw_bell_state("),
        (BF, "            if params.expect_phi_plus and role == EPRRole.RECV:\n                # Perform Bell corrections", "            if self._needs_bell_corrections(params, role):\n                # Perform Bell corrections"),
        (BF, "        if wait_all and params.expect_phi_plus:", "        if wait_all and self._needs_bell_corrections(params):", 2),
    ]),
]
