"""C03 — assembling preserves program meaning (claimed in part).

C03.O  pass order in assemble_subroutine (args->operands, constants, labels, class lookup)
C03.X  _REPLACE_CONSTANTS_EXCEPTION == Immediate-typed operand positions (exhaustive)
C03.S  scratch register excluded from every register named anywhere in the
       program (all register-bearing operand kinds traversed) and from the
       temporaries of the same command
C03.M  mnemonic -> class lookup; one output instruction per input command
C03.L  assemble_subroutine executed on 98 labelled programs: every branch lands on what followed its label (inserted sets included)
C03.P  macro expansion executed: every `$name` expands to the definition of exactly that name, for every definition order
       (names that are prefixes of one another included)
"""
from __future__ import annotations

import ast
from typing import Dict, List, Set, Tuple

from .. import astutil as A
from .. import guards as G
from .. import instrs as I
from ..model import AnalysisError, EnumMember, Unknown, dotted, eval_module_table, src

TECHNIQUE = "AST table evaluation + ordering/exhaustiveness rules over the assembler; the scratch-register pass, label resolution, macro expansion and subroutine construction executed by the checker's own AST interpreter on enumerated programs (static analysis; abstract execution)"
ENGINES = ["model", "instrs", "circuit"]
EXPLANATION = (
    "Over lang/parsing/text.py: the four assembler passes run in the order that keeps label numbering valid; the literal-exception "
    "table (rebuilt by evaluating the module-level loops) equals exactly the Immediate-typed operand positions of every instruction "
    "class of every flavour; get_current_registers traverses every operand kind that can hold a Register (derived from operand.py "
    "annotations) and the scratch-register choice is control-dependent on exclusion from both the program's registers and the "
    "temporaries of the same command; the final pass maps each command to exactly one instruction through the flavour's mnemonic table."
    ' Operand-producing functions must return fresh objects (no memoisation, no module-level table), because _replace_constants rewrites operands in place. C03.Z: no truthiness test on an int-typed value in the assembler (a label at instruction 0 is a value).'
    ' get_current_registers is executed abstractly (checker-side AST interpreter) with one register at the top level and in each register-bearing attribute of each operand class.'
    ' C03.P: _apply_macros is executed for every definition order of four macros, three of whose names are prefixes of one another, and must give the token-wise expansion each time.'
    ' C03.S: _replace_constants is executed on twelve programs and judged against the property (scratch register named nowhere in the program, distinct within a command, one set per literal, nothing else moved, exhaustion raises).'
    ' C03.L: assemble_subroutine is executed on 98 labelled programs (three commands in every order, two labels in every pair of the four slots, consecutive labels, a label after the last instruction, bracketed arguments and literals to materialise, a duplicate label): every branch target is the index of what followed its label, inserted set commands included.'
)
LEVEL_TEXT = (
    "Static analysis, partial: decides the structural clauses the assembler's correctness rests on for every instruction class and "
    "every operand kind (pass order, literal-exception table, scratch-register exclusion, one-to-one final pass). Not decided: label "
    "arithmetic and insertion indices for arbitrary programs (decided for the enumerated families of C03.S and C03.L only), macro values that themselves contain macro references."
)
LEVEL_NOTE = "not decided: value-level index arithmetic in _assign_branch_labels/_replace_constants, macros defined in terms of other macros; trusts the AST constant evaluator for the module-level table"
ASSUMPTIONS = [LEVEL_NOTE]
TEXT_MOD = "netqasm.lang.parsing.text"
IR_MOD = "netqasm.lang.ir"


def exception_table(ctx) -> Set[Tuple[str, int]]:
    m = ctx.repo.module(TEXT_MOD)
    try:
        tab = eval_module_table(ctx.ev, m, "_REPLACE_CONSTANTS_EXCEPTION")
    except Unknown as e:
        raise AnalysisError(f"_REPLACE_CONSTANTS_EXCEPTION cannot be evaluated: {e}")
    out = set()
    for ent in tab:
        if not (isinstance(ent, tuple) and len(ent) == 2 and isinstance(ent[0], EnumMember) and isinstance(ent[1], int)):
            raise AnalysisError(f"unexpected exception-table entry {ent!r}")
        out.add((ent[0].name, ent[1]))
    return out


def immediate_positions(ctx) -> Dict[str, Dict[str, List[Tuple[int, bool]]]]:
    """mnemonic -> flavour -> [(position, is_immediate)]"""
    repo, ev = ctx.repo, ctx.ev
    out: Dict[str, Dict[str, list]] = {}
    for fname, (fc, core, spec) in I.flavours(repo).items():
        table = {}
        for c in core + spec:
            table[I.field_default(repo, ev, c, "mnemonic")] = c
        for mn, c in table.items():
            ops = I.operands_attrs(repo, c)
            if ops is None:
                raise AnalysisError(f"{c.name}.operands not a list of attributes")
            anns = {n: ann for n, ann, k in I.operand_fields(repo, c)}
            pos = []
            for i, a in enumerate(ops):
                real = repo.property_alias(c, a) or a
                types = I.ann_types(anns.get(real))
                pos.append((i, "Immediate" in types))
            out.setdefault(mn, {})[fname] = pos
    return out


def check_exception_table(ctx, rule="C03.X"):
    repo, ev = ctx.repo, ctx.ev
    tab = exception_table(ctx)
    gi = repo.get_class(IR_MOD, "GenericInstr")
    members = ev.enum_members(gi)
    imm = immediate_positions(ctx)
    n = 0
    covered = set()
    for mn, per in sorted(imm.items()):
        g = mn.upper()
        if g not in members:
            continue  # reported by the mnemonic rule
        for fname, pos in sorted(per.items()):
            for i, is_imm in pos:
                n += 1
                in_tab = (g, i) in tab
                covered.add((g, i))
                if is_imm:
                    ctx.check(rule, f"{fname}:{mn}:pos{i}:literal-stays-immediate", in_tab,
                              f"{mn} operand {i} is an Immediate in {fname} but (GenericInstr.{g}, {i}) is not in _REPLACE_CONSTANTS_EXCEPTION: "
                              f"a literal there (jump target, angle) is turned into a register load and from_operands rejects it",
                              sample={"mnemonic": mn, "pos": i, "immediate": True, "in_table": in_tab})
                else:
                    ctx.check(rule, f"{fname}:{mn}:pos{i}:register-position-not-excepted", not in_tab,
                              f"{mn} operand {i} is not an Immediate in {fname} but (GenericInstr.{g}, {i}) is in _REPLACE_CONSTANTS_EXCEPTION: "
                              f"a literal there is left as an int where the class requires a register", trivial=True)
    for g, i in sorted(tab - covered):
        has_class = g.lower() in imm
        if has_class:
            ctx.check(rule, f"table:{g}:{i}:position-exists", False, f"exception-table entry (GenericInstr.{g}, {i}) names an operand position the instruction class does not have")
        else:
            ctx.note(f"exception-table entry ({g}, {i}) has no instruction class in any flavour (informational)")
    ctx.anchor(rule, "operand positions compared with the exception table", n, 150)
    # use site, executed: for every entry of the table, a command of that instruction with a literal in EVERY operand position goes
    # through _replace_constants; the literals at the instruction's exempt positions - and only those - are still literals afterwards
    from .. import circuit as C
    m = repo.module(TEXT_MOD)
    fn = m.functions.get("_replace_constants")
    if fn is None:
        raise AnalysisError("_replace_constants not found")
    ctx.fn("text._replace_constants")
    icmd = repo.get_class(IR_MOD, "ICmd")
    by_instr = {}
    for g, i in tab:
        by_instr.setdefault(g, set()).add(i)
    why = None
    try:
        for g, exempt in sorted(by_instr.items()):
            width = max(exempt) + 2
            ops = [900 + k for k in range(width)]
            cmd = C.Obj(icmd, {"instruction": EnumMember(gi.qualname, g, members[g]), "args": [], "operands": list(ops), "lineno": None})
            sc = C.Scenario()
            sc.plain_registers = True
            sc.globals = {"_REPLACE_CONSTANTS_EXCEPTION": [(EnumMember(gi.qualname, a_, members[a_]), b_) for a_, b_ in sorted(tab)]}
            try:
                C.Interp(repo, ev, sc, None).call_function(m, fn, [[cmd]], {})
            except C.EvalRaise as ex_:
                why = why or f"{g}: raises {ex_}"
                continue
            kept = {k for k, v in enumerate(cmd.fields["operands"]) if isinstance(v, int)}
            if kept != exempt:
                why = why or f"{g} with literals in positions 0..{width - 1}: positions {sorted(kept)} are still literals, the table exempts {sorted(exempt)}"
    except AnalysisError as ex_:
        ctx.error(rule, f"_replace_constants cannot be evaluated: {ex_}")
        return
    ctx.check(rule, "_replace_constants:table-key", why is None,
              f"the table is not consulted with (the command's instruction, the operand's position): {why}", repo.loc(m, fn), sample={"instructions": len(by_instr)})


def check_order(ctx):
    repo = ctx.repo
    m = repo.module(TEXT_MOD)
    fn = m.functions.get("assemble_subroutine")
    if fn is None:
        raise AnalysisError("assemble_subroutine not found")
    ctx.fn("text.assemble_subroutine")
    order = ["_make_args_operands", "_replace_constants", "_assign_branch_labels", "_build_subroutine"]
    first_idx = {}
    in_loop = False
    for i, st in enumerate(fn.body):
        for n in ast.walk(st):
            if isinstance(n, ast.Call) and A.call_name(n) in order:
                first_idx.setdefault(A.call_name(n), []).append(i)
                if isinstance(st, (ast.For, ast.While)):
                    in_loop = True
    missing = [o for o in order if o not in first_idx]
    if missing:
        ctx.error("C03.O", f"assemble_subroutine no longer calls {missing}")
        return
    if in_loop:
        ctx.error("C03.O", "assembler passes are called inside a loop (unrecognised shape)")
        return
    for a, b in zip(order, order[1:]):
        ok = max(first_idx[a]) < min(first_idx[b])
        ctx.check("C03.O", f"assemble_subroutine:{a}-before-{b}", ok,
                  f"{a} (statement {first_idx[a]}) must run before {b} (statement {first_idx[b]}): literal replacement inserts commands, so labels numbered earlier would be stale; "
                  f"exception positions are defined on the merged operand list", repo.loc(m, fn),
                  sample={"order": [(o, first_idx[o]) for o in order]})
    # _replace_constants result must be stored back into the proto-subroutine
    stored = False
    for n in A.body_nodes(fn):
        if isinstance(n, ast.Assign) and isinstance(n.value, ast.Call) and A.call_name(n.value) == "_replace_constants":
            t = n.targets[0]
            a = n.value.args[0] if n.value.args else None
            stored = isinstance(t, ast.Attribute) and t.attr == "commands" and a is not None and A.norm(a) == A.norm(t)
    ctx.check("C03.O", "assemble_subroutine:constants-result-stored", stored, "the result of _replace_constants(x.commands) is not stored back to x.commands", repo.loc(m, fn), trivial=True)


def register_holders(ctx):
    """(operand class, attr) pairs whose annotation admits a Register"""
    repo = ctx.repo
    m = repo.module(I.OPERAND_MOD)
    out = []
    for c in m.classes.values():
        if c.name == "Register":
            continue
        for n, ann, val, k in repo.dataclass_fields(c):
            if "Register" in I.ann_types(ann):
                out.append((c.name, n))
    return out


def check_scratch(ctx):
    repo = ctx.repo
    m = repo.module(TEXT_MOD)
    gcr = m.functions.get("get_current_registers")
    rc = m.functions.get("_replace_constants")
    if gcr is None or rc is None:
        raise AnalysisError("get_current_registers/_replace_constants not found")
    ctx.fn("text.get_current_registers")
    holders = register_holders(ctx)
    ctx.anchor("C03.S", "register-bearing operand attributes", len(holders), 3)
    # what does the function add to the set, and under which isinstance tests?
    isinst = set()
    attrs_read = set()
    added = []
    for n in ast.walk(gcr):
        if isinstance(n, ast.Call) and dotted(n.func) == "isinstance" and len(n.args) == 2:
            t = n.args[1]
            for e in (t.elts if isinstance(t, ast.Tuple) else [t]):
                d = dotted(e)
                if d:
                    isinst.add(d.split(".")[-1])
        if isinstance(n, ast.Attribute):
            attrs_read.add(n.attr)
        if isinstance(n, ast.Call) and dotted(n.func) == "getattr" and len(n.args) >= 2 and isinstance(n.args[1], ast.Constant):
            attrs_read.add(n.args[1].value)
        if isinstance(n, ast.Constant) and isinstance(n.value, str):
            attrs_read.add(n.value)
        if isinstance(n, ast.Call) and isinstance(n.func, ast.Attribute) and n.func.attr in ("add", "update", "append"):
            added.append(n)
    # executed abstractly (nqsa/circuit.py): a command whose only register sits in the given place must yield that register's text
    from .. import circuit as C
    from ..model import EnumMember
    rn = repo.get_class("netqasm.lang.encoding", "RegisterName")
    rmem = ctx.ev.enum_members(rn)
    opm = repo.module(I.OPERAND_MOD)
    R_ = opm.classes["Register"]
    icmd = repo.get_class("netqasm.lang.ir", "ICmd")
    blab = repo.get_class("netqasm.lang.ir", "BranchLabel")

    def reg(name, index):
        return C.Obj(R_, {"name": EnumMember(rn.qualname, name, rmem[name]), "index": index})

    def collected(operands):
        cmds = [C.Obj(blab, {"name": "L"}), C.Obj(icmd, {"instruction": "X", "args": [], "operands": operands}), C.Obj(blab, {"name": "M"})]
        try:
            out = C.Interp(repo, ctx.ev, C.Scenario(), None).call_function(m, gcr, [cmds], {})
        except C.EvalRaise as ex_:
            return f"raises {ex_}"
        return out

    try:
        got = collected([7, reg("R", 11), 3])
        ctx.check("C03.S", "get_current_registers:top-level-register", isinstance(got, (set, list)) and "R11" in set(got),
                  f"get_current_registers does not collect operands that are Registers (R11 as an operand gives {got!r})", repo.loc(m, gcr))
        for cname, attr in holders:
            hc = opm.classes[cname]
            fields = {}
            for n_, ann, val, k in repo.dataclass_fields(hc):
                t = I.ann_types(ann)
                if n_ == attr:
                    fields[n_] = reg("R", 12)
                elif "Register" in t and "int" in t:
                    fields[n_] = 5   # the other register-bearing positions hold literals
                elif "Register" in t:
                    fields[n_] = reg("R", 13)
                elif "Address" in t:
                    fields[n_] = C.Obj(opm.classes["Address"], {"address": 0})
                else:
                    fields[n_] = 0
            got = collected([C.Obj(hc, fields)])
            ok = isinstance(got, (set, list)) and "R12" in set(got)
            ctx.check("C03.S", f"get_current_registers:{cname}.{attr}", ok,
                      f"get_current_registers does not look at {cname}.{attr}, which can hold a Register (R12 there gives {got!r}): a register used only inside an array operand "
                      f"can be picked as scratch register for a literal and be overwritten by the inserted `set`", repo.loc(m, gcr),
                      sample={"holder": f"{cname}.{attr}"})
    except AnalysisError as ex_:
        ctx.error("C03.S", f"get_current_registers cannot be evaluated: {ex_}")
    check_replace_constants(ctx, m, rc, reg, R_, opm, icmd, blab)


def check_replace_constants(ctx, m, rc, reg, R_, opm, icmd, blab):
    """C03.S, second half: _replace_constants (with whatever helpers and closures it uses) is executed by the checker's interpreter
    on small programs and its result is judged against the statement of the property, not against a particular way of writing
    the search for a scratch register:
      - every literal in a non-exempt operand position, array index or slice bound is replaced by a register, and a `set` of
        exactly that register to exactly that literal is inserted directly before the command (nothing else is added, removed or
        reordered; labels stay where they are);
      - that register is named nowhere in the source program - at top level, as an array index or as a slice bound of any
        command, before or after - and is not used for another literal of the same command;
      - literals in the exempt (immediate) positions stay literals;
      - when the program leaves no register free, assembling fails instead of overwriting a live register."""
    from .. import circuit as C
    repo = ctx.repo
    ctx.fn("text._replace_constants")
    gi = repo.get_class(IR_MOD, "GenericInstr")
    gmem = ctx.ev.enum_members(gi)
    exc = exception_table(ctx)
    ADDR, ENTRY, SLICE = (opm.classes[n_] for n_ in ("Address", "ArrayEntry", "ArraySlice"))

    def instr(name):
        return EnumMember(gi.qualname, name, gmem[name])

    free_instr = next((n_ for n_ in sorted(gmem) if not any(e[0] == n_ for e in exc)), None)
    exempt = sorted(exc)[0] if exc else None
    if free_instr is None:
        raise AnalysisError("no instruction without exempt operand positions")

    def cmd(name, operands, lineno=None):
        return C.Obj(icmd, {"instruction": instr(name), "args": [], "operands": list(operands), "lineno": lineno})

    def entry(index):
        return C.Obj(ENTRY, {"address": C.Obj(ADDR, {"address": 0}), "index": index})

    def slc(start, stop):
        return C.Obj(SLICE, {"address": C.Obj(ADDR, {"address": 0}), "start": start, "stop": stop})

    def regs(k, lo=0):
        return [reg("R", i) for i in range(lo, lo + k)]

    def is_reg(x):
        return isinstance(x, C.Obj) and x.cls is R_

    def rname(x):
        nm = x.fields.get("name")
        return f"{nm.name if isinstance(nm, EnumMember) else nm}{x.fields.get('index')}"

    def literal_sites(c):
        """(kind, position/attribute, value) of the literals of a source command that must be materialised"""
        out = []
        iname = c.fields["instruction"].name
        for j, op in enumerate(c.fields["operands"]):
            if isinstance(op, int) and (iname, j) not in exc:
                out.append(("operand", j, None, op))
            elif isinstance(op, C.Obj) and op.cls is ENTRY and isinstance(op.fields["index"], int):
                out.append(("entry", j, "index", op.fields["index"]))
            elif isinstance(op, C.Obj) and op.cls is SLICE:
                for a_ in ("start", "stop"):
                    if isinstance(op.fields[a_], int):
                        out.append(("slice", j, a_, op.fields[a_]))
        return out

    def named_registers(program):
        out = set()
        for c in program:
            if c.cls is not icmd:
                continue
            for op in c.fields["operands"]:
                if is_reg(op):
                    out.add(rname(op))
                elif isinstance(op, C.Obj) and op.cls in (ENTRY, SLICE):
                    for v in op.fields.values():
                        if is_reg(v):
                            out.add(rname(v))
        return out

    programs = {}
    programs["one literal, no registers"] = [cmd(free_instr, [101])]
    programs["one literal next to R0..R2"] = [cmd(free_instr, regs(3) + [102])]
    programs["literal first, registers named by later commands"] = [cmd(free_instr, [103]), C.Obj(blab, {"name": "L"}), cmd(free_instr, regs(2)), cmd(free_instr, [entry(reg("R", 2))]),
                                                                    cmd(free_instr, [slc(reg("R", 3), reg("R", 4))])]
    programs["registers named by earlier commands"] = [cmd(free_instr, [slc(reg("R", 0), reg("R", 1))]), cmd(free_instr, [entry(reg("R", 2))]), cmd(free_instr, [104, reg("R", 3)])]
    programs["several literals in one command"] = [cmd(free_instr, [reg("R", 0), 105, 106, entry(107), slc(108, 109)]), C.Obj(blab, {"name": "END"})]
    programs["literal slice bound next to a register bound"] = [cmd(free_instr, [slc(reg("R", 0), 110)]), cmd(free_instr, [slc(111, reg("R", 1))])]
    programs["two commands with literals"] = [cmd(free_instr, [112, reg("R", 0)]), C.Obj(blab, {"name": "M"}), C.Obj(blab, {"name": "N"}), cmd(free_instr, [113, reg("R", 1)])]
    programs["fifteen registers named, one literal"] = [cmd(free_instr, regs(8)), cmd(free_instr, regs(7, 8)), cmd(free_instr, [114])]
    programs["registers of other banks do not count"] = [cmd(free_instr, [reg("Q", 0), reg("C", 1), reg("M", 2), 115])]
    if exempt is not None:
        ops = [reg("R", 0)] * (exempt[1]) + [116, 117]
        programs[f"exempt position {exempt[1]} of {exempt[0]} keeps its literal"] = [cmd(exempt[0], ops)]
    full = {"all sixteen registers named, one literal": [cmd(free_instr, regs(8)), cmd(free_instr, [entry(reg("R", 8)), slc(reg("R", 9), reg("R", 10))]), cmd(free_instr, regs(5, 11)),
                                                          cmd(free_instr, [118])],
            "fifteen registers named, two literals in one command": [cmd(free_instr, regs(8)), cmd(free_instr, regs(7, 8)), cmd(free_instr, [119, 120])]}

    def run_(program):
        sc = C.Scenario()
        sc.plain_registers = True
        sc.globals = {"_REPLACE_CONSTANTS_EXCEPTION": [(instr(a_), b_) for a_, b_ in sorted(exc)]}
        try:
            out = C.Interp(repo, ctx.ev, sc, None).call_function(m, rc, [program], {})
            return out if out is not None else program, None
        except C.EvalRaise as ex_:
            return None, ex_.exc_name

    n = 0
    bad = {}
    try:
        for label, program in programs.items():
            import copy as _copy
            n += 1
            source = list(program)
            sites = {id(c): literal_sites(c) for c in source if c.cls is icmd}
            named = named_registers(source)
            out, raised = run_(program)
            if raised is not None:
                bad.setdefault("completes", (label, f"raises {raised} although registers are free"))
                continue
            if not isinstance(out, list):
                bad.setdefault("completes", (label, f"returns {out!r}"))
                continue
            # the source commands, in order, with the inserted commands grouped in front of the one they precede
            groups, pending, k = [], [], 0
            for c in out:
                if k < len(source) and c is source[k]:
                    groups.append((c, pending))
                    pending, k = [], k + 1
                else:
                    pending.append(c)
            if k != len(source) or pending:
                bad.setdefault("source-kept", (label, "the source commands and labels do not all appear, once and in order, in the result"))
                continue
            for c, ins in groups:
                want = sites.get(id(c), [])
                if len(ins) != len(want):
                    bad.setdefault("one-set-per-literal", (label, f"{len(ins)} commands are inserted before a command with {len(want)} literals to materialise"))
                    continue
                used = []
                for kind, j, attr, lit in want:
                    holder = c.fields["operands"][j]
                    now = holder if kind == "operand" else holder.fields[attr]
                    if not is_reg(now):
                        bad.setdefault("literal-replaced", (label, f"the literal {lit} ({kind} {attr or j}) is still {now!r} after the pass"))
                        continue
                    sets = [x for x in ins if isinstance(x, C.Obj) and x.cls is icmd and isinstance(x.fields.get("instruction"), EnumMember) and x.fields["instruction"].name == "SET"
                            and len(x.fields.get("operands", [])) == 2 and is_reg(x.fields["operands"][0]) and rname(x.fields["operands"][0]) == rname(now) and x.fields["operands"][1] == lit
                            and not x.fields.get("args")]
                    if len(sets) != 1:
                        bad.setdefault("set-writes-chosen-register", (label, f"the literal {lit} was replaced by {rname(now)} but the commands inserted before it are {ins!r}: not exactly one `set {rname(now)} {lit}`"))
                    nm = now.fields.get("name")
                    if not (isinstance(nm, EnumMember) and nm.name == "R" and isinstance(now.fields.get("index"), int) and 0 <= now.fields["index"] < 16):
                        bad.setdefault("pool", (label, f"the scratch register {rname(now)} is not one of R0..R15"))
                    if rname(now) in named:
                        bad.setdefault("excludes-program-registers", (label, f"the literal {lit} is loaded into {rname(now)}, which the source program names (registers named: {sorted(named)}): the inserted `set` overwrites a register of the program"))
                    if rname(now) in used:
                        bad.setdefault("excludes-temporaries-of-same-command", (label, f"two literals of one command are loaded into the same register {rname(now)}: the second `set` overwrites the first"))
                    used.append(rname(now))
                # exempt positions
                iname = c.fields["instruction"].name if c.cls is icmd else None
                for j, op in enumerate(c.fields.get("operands", [])) if c.cls is icmd else []:
                    if (iname, j) in exc and not isinstance(op, int):
                        bad.setdefault("exempt-stays-literal", (label, f"operand {j} of {iname} must stay an immediate but became {op!r}"))
        for label, program in full.items():
            n += 1
            out, raised = run_(program)
            if raised is None:
                bad.setdefault("exhaustion-raises", (label, "assembling succeeds although no register is free: some register the program names is overwritten by an inserted `set`"))
    except AnalysisError as ex_:
        ctx.error("C03.S", f"_replace_constants cannot be evaluated: {ex_}")
        return
    ctx.anchor("C03.S", "programs executed through _replace_constants", n, 10)
    texts = {"completes": "the pass does not complete on a program with free registers", "source-kept": "source commands are dropped, duplicated or reordered",
             "one-set-per-literal": "not exactly one inserted command per literal", "literal-replaced": "a literal is left in a position that needs a register",
             "set-writes-chosen-register": "the inserted command is not `set <chosen register> <literal>`", "pool": "scratch candidates are not R0..R15",
             "excludes-program-registers": "the scratch register is one the program names", "excludes-temporaries-of-same-command": "two literals of one command share a scratch register",
             "exempt-stays-literal": "an immediate position lost its literal", "exhaustion-raises": "no free register is not an error"}
    for key, text in texts.items():
        hit = bad.get(key)
        ctx.check("C03.S", f"_replace_constants:{key}", hit is None, f"{text}: program `{hit[0]}`: {hit[1]}" if hit else "", repo.loc(m, rc), sample={"programs": n})


def check_lookup(ctx):
    repo, ev = ctx.repo, ctx.ev
    m = repo.module(TEXT_MOD)
    fn = m.functions.get("_build_subroutine")
    if fn is None:
        raise AnalysisError("_build_subroutine not found")
    ctx.fn("text._build_subroutine")
    # executed (checker's interpreter) with a modelled flavour: one instruction per command, in order, looked up under the lower-cased
    # instruction name, built by that class's from_operands from the command's own operands, carrying the command's line number
    from .. import circuit as C
    gi0 = repo.get_class(IR_MOD, "GenericInstr")
    gm0 = ev.enum_members(gi0)
    icmd0 = repo.get_class(IR_MOD, "ICmd")
    asked = []

    class MInstr:
        _nqsa_model = True

        def __init__(self, name, ops):
            self.name, self.ops, self.lineno = name, ops, "unset"
            self.mnemonic, self.operands = name, ops

    class MClass:
        _nqsa_model = True

        def __init__(self, name):
            self.name = name

        def from_operands(self, ops):
            return MInstr(self.name, list(ops))

    class MFlavour:
        _nqsa_model = True

        def get_instr_by_name(self, name):
            asked.append(name)
            return MClass(name)

    names = ["SET", "QALLOC", "SET", "ROT_X", "RET_REG"]
    cmds = [C.Obj(icmd0, {"instruction": EnumMember(gi0.qualname, n_, gm0[n_]), "args": [], "operands": [f"op{k}a", f"op{k}b"][:k % 3], "lineno": 10 + k}) for k, n_ in enumerate(names)]
    pre = C.Obj(None, {"commands": list(cmds), "arguments": ["t"], "netqasm_version": (0, 10), "app_id": 3})
    ok_loop = lookup_ok = fromops_ok = False
    why = ""
    try:
        sc = C.Scenario()
        out = C.Interp(repo, ev, sc, None).call_function(m, fn, [pre, MFlavour()], {})
        ins = out.fields.get("instructions") if isinstance(out, C.Obj) else None
        if not isinstance(ins, list):
            ins = out.fields.get("_instructions") if isinstance(out, C.Obj) else None
        ok_loop = isinstance(ins, list) and len(ins) == len(cmds) and all(isinstance(x, MInstr) for x in ins) and [x.name for x in ins] == [n_.lower() for n_ in names]
        lookup_ok = asked == [n_.lower() for n_ in names]
        fromops_ok = ok_loop and all(x.ops == c_.fields["operands"] and x.lineno == c_.fields["lineno"] for x, c_ in zip(ins, cmds))
        why = f"asked the flavour for {asked}; built {[(getattr(x, 'name', x), getattr(x, 'ops', None), getattr(x, 'lineno', None)) for x in (ins or [])]}"
    except C.EvalRaise as ex_:
        why = f"raises {ex_}"
    except AnalysisError as ex_:
        ctx.error("C03.M", f"_build_subroutine cannot be evaluated: {ex_}")
        why = None
    if why is not None:
        ctx.check("C03.M", "_build_subroutine:one-instruction-per-command", ok_loop,
                  f"the final pass does not produce exactly one instruction per command, in order ({why})", repo.loc(m, fn))
        ctx.check("C03.M", "_build_subroutine:lookup-by-lowercase-name", lookup_ok, f"the class is not looked up with flavour.get_instr_by_name(command.instruction.name.lower()) ({why})", repo.loc(m, fn))
        ctx.check("C03.M", "_build_subroutine:from-operands-of-command", fromops_ok, f"from_operands is not applied to the command's own operand list (or the line number is lost) ({why})", repo.loc(m, fn))
    # every flavour mnemonic is a GenericInstr name (lower-cased)
    gi = repo.get_class(IR_MOD, "GenericInstr")
    members = ev.enum_members(gi)
    k = 0
    for fname, (fc, core, spec) in sorted(I.flavours(repo).items()):
        for c in core + spec:
            mn = I.field_default(repo, ev, c, "mnemonic")
            k += 1
            ctx.check("C03.M", f"{fname}:{mn}:generic-instr-exists", isinstance(mn, str) and mn.upper() in members and mn == mn.lower(),
                      f"{fname}: mnemonic {mn!r} of {c.name} is not the lower-cased name of a GenericInstr member, so neither the parser nor the assembler can reach it", c.loc(), trivial=True)
    # string_to_instruction table is keyed by instruction_to_string(instr) = instr.name.lower()
    irm = repo.module(IR_MOD)
    its = irm.functions.get("instruction_to_string")
    ok = False
    if its is not None:
        rets = A.returns(its)
        ok = len(rets) == 1 and A.norm(rets[0].value) == f"{A.param_names(its)[0]}.name.lower()"
    ctx.check("C03.M", "ir.instruction_to_string:name-lower", ok, "instruction_to_string is not instr.name.lower()", repo.loc(irm, its) if its else "")


def check_macros(ctx, rule="C03.P"):
    """_apply_macros executed by the checker's interpreter: every `$name` in the body stands for the macro of exactly that name.

    The macro table is a list in definition order; names may be prefixes of one another (`c`, `cnt`, `cnt2`).  The reference
    expansion is token-wise (longest name that matches at the `$`), the function is run for every definition order of the
    four macros and must give the reference each time - the assembled program cannot depend on the order of independent
    definitions.  The empty body and the empty table are part of the domain.
    """
    import itertools
    from .. import circuit as C
    repo = ctx.repo
    m = repo.module(TEXT_MOD)
    fn = m.functions.get("_apply_macros")
    if fn is None:
        raise AnalysisError("_apply_macros not found")
    ctx.fn("text._apply_macros")
    sym = repo.get_class("netqasm.lang.symbols", "Symbols")
    consts = {}
    for st in sym.node.body:
        if isinstance(st, ast.Assign) and len(st.targets) == 1 and isinstance(st.targets[0], ast.Name) and isinstance(st.value, ast.Constant):
            consts[st.targets[0].id] = st.value.value
    start, br = consts.get("MACRO_START"), consts.get("PREAMBLE_DEFINE_BRACKETS")
    if not isinstance(start, str) or not isinstance(br, str) or len(br) != 2:
        raise AnalysisError("Symbols.MACRO_START / PREAMBLE_DEFINE_BRACKETS are not string constants")
    table = {"c": "R0", "cnt": "R1", "cnt2": f"{br[0]}R2{br[1]}", "q": "Q0"}
    body = [f"set {start}cnt 5", f"set {start}cnt2 7", f"add {start}cnt2 {start}cnt2 {start}cnt", f"qalloc {start}q", f"set {start}c 1", "", f"ret_reg {start}cnt2"]

    def reference(lines, names):
        out = []
        for ln in lines:
            i, acc = 0, ""
            while i < len(ln):
                if ln.startswith(start, i):
                    hit = max((n for n in names if ln.startswith(n, i + len(start))), key=len, default=None)
                    if hit is not None:
                        acc += table[hit].strip(br)
                        i += len(start) + len(hit)
                        continue
                acc += ln[i]
                i += 1
            out.append(acc)
        return out

    def run_(lines, macros):
        try:
            return C.Interp(repo, ctx.ev, C.Scenario(), None).call_function(m, fn, [list(lines), [list(x) for x in macros]], {})
        except C.EvalRaise as ex_:
            return f"raises {ex_}"

    n = 0
    bad = None
    for k in (0, 1, 2, 3, 4):
        for names in itertools.permutations(sorted(table), k):
            if k and k < 4 and names != tuple(sorted(names)) and names != tuple(sorted(names, reverse=True)):
                continue  # partial tables: ascending and descending order only
            want = reference(body, names)
            got = run_(body, [(nm, table[nm]) for nm in names])
            n += 1
            if got != want and bad is None:
                diff = next(((w, g) for w, g in zip(want, got) if w != g), (want, got)) if isinstance(got, list) and len(got) == len(want) else (want, got)
                bad = (names, diff)
    ctx.check(rule, "_apply_macros:each-name-expands-to-its-own-definition:any-definition-order", bad is None,
              f"with the macros defined in the order {list(bad[0]) if bad else ''} the body line that should expand to {bad[1][0]!r} becomes {bad[1][1]!r}: "
              f"a `{start}name` is replaced by a definition of a different name (a name that is a prefix of another one is substituted inside it), "
              f"so the assembled program is not the source program" if bad else "", repo.loc(m, fn), sample={"definition orders executed": n, "macro names": sorted(table)})
    got = run_([], [("c", "R0")])
    ctx.check(rule, "_apply_macros:empty-body", got == [], f"an empty body expands to {got!r}, not to no lines", repo.loc(m, fn), trivial=True)
    # the caller hands over the body lines and the DEFINE entries of the preamble, and assembles what comes back
    callers = [f for f in m.functions.values() if any(A.call_name(c) == "_apply_macros" for c in A.calls_in(f))]
    ctx.anchor(rule, "callers of _apply_macros", len(callers), 1)


def check_labels(ctx, rule="C03.L"):
    """"Every branch lands on the instruction that followed its label", decided by executing assemble_subroutine.

    assemble_subroutine (with _build_subroutine modelled: it hands back the command list it was given) runs in the checker's
    interpreter on an enumerated family of programs: three commands in every order - one with bracketed arguments and literals to
    materialise, `jmp A`, `beq R0 R1 B` - with the labels A and B in every pair of the four slots before / between / after the
    commands (consecutive labels and a label after the last instruction included), plus a one-command program, a self-jump and a
    duplicate label.  Required of the result: no label is left, the source commands keep their order, every literal got its `set`
    directly in front of its command, and each branch target is the index of the first command (inserted `set`s included) of what
    followed the label in the source - the length of the program for a label at the end."""
    import itertools
    from .. import circuit as C
    repo = ctx.repo
    m = repo.module(TEXT_MOD)
    asm = m.functions.get("assemble_subroutine")
    if asm is None:
        raise AnalysisError("assemble_subroutine not found")
    ctx.fn("text.assemble_subroutine")
    ctx.fn("text._assign_branch_labels")
    irm = repo.module(IR_MOD)
    icmd, blab, proto = irm.classes["ICmd"], irm.classes["BranchLabel"], irm.classes["ProtoSubroutine"]
    opm = repo.module(I.OPERAND_MOD)
    R_, LBL = opm.classes["Register"], opm.classes["Label"]
    gi = repo.get_class(IR_MOD, "GenericInstr")
    gmem = ctx.ev.enum_members(gi)
    rn = repo.get_class("netqasm.lang.encoding", "RegisterName")
    rmem = ctx.ev.enum_members(rn)
    exc = exception_table(ctx)
    if ("JMP", 0) not in exc or ("BEQ", 2) not in exc:
        raise AnalysisError("jmp / beq targets are not in the literal-exception table")
    plain = next((n_ for n_ in sorted(gmem) if not any(e[0] == n_ for e in exc)), None)

    def instr(name):
        return EnumMember(gi.qualname, name, gmem[name])

    def reg(i):
        return C.Obj(R_, {"name": EnumMember(rn.qualname, "R", rmem["R"]), "index": i})

    def build(order, slots, dup=False):
        cmds = {"lit": C.Obj(icmd, {"instruction": instr(plain), "args": [41], "operands": [reg(0), 42], "lineno": None}),
                "jmp": C.Obj(icmd, {"instruction": instr("JMP"), "args": [], "operands": [C.Obj(LBL, {"name": "A"})], "lineno": None}),
                "beq": C.Obj(icmd, {"instruction": instr("BEQ"), "args": [], "operands": [reg(0), reg(1), C.Obj(LBL, {"name": "B"})], "lineno": None})}
        seq = [cmds[k] for k in order]
        out = []
        for pos in range(len(seq) + 1):
            for name, at in zip(("A", "B"), slots):
                if at == pos:
                    out.append(C.Obj(blab, {"name": "A" if dup else name, "lineno": None}))
            if pos < len(seq):
                out.append(seq[pos])
        return out, seq

    def run_(commands):
        sc = C.Scenario()
        sc.plain_registers = True
        sc.globals = {"_REPLACE_CONSTANTS_EXCEPTION": [(instr(a_), b_) for a_, b_ in sorted(exc)]}
        sc.overrides["_build_subroutine"] = lambda pre_subroutine=None, flavour=None, *a_, **k_: list(pre_subroutine.fields.get("_commands", pre_subroutine.fields.get("commands")))
        sc.overrides["VanillaFlavour"] = lambda *a_, **k_: None
        pre = C.Obj(proto, {"_commands": list(commands), "_arguments": [], "_app_id": 0, "_netqasm_version": (0, 10)})
        try:
            return C.Interp(repo, ctx.ev, sc, None).call_function(m, asm, [pre], {"flavour": C.Obj(None, {})}), None
        except C.EvalRaise as ex_:
            return None, ex_.exc_name

    bad = {}
    n = 0
    try:
        for order in itertools.permutations(("lit", "jmp", "beq")):
            for slots in itertools.product(range(4), repeat=2):
                n += 1
                commands, seq = build(order, slots)
                label = f"commands {list(order)}, label A before position {slots[0]}, B before position {slots[1]}"
                out, raised = run_(commands)
                if raised is not None or not isinstance(out, list):
                    bad.setdefault("completes", f"{label}: {raised or out!r}")
                    continue
                if any(isinstance(x, C.Obj) and x.cls is blab for x in out):
                    bad.setdefault("labels-removed", f"{label}: a label is still in the assembled program")
                    continue
                pos = {}
                k = 0
                for i_, x in enumerate(out):
                    if k < len(seq) and x is seq[k]:
                        pos[k] = i_
                        k += 1
                if k != len(seq):
                    bad.setdefault("source-kept", f"{label}: the source commands are not all there, once and in order")
                    continue
                # the group of a command starts after the previous source command: its inserted `set`s, then the command
                start = {j: (pos[j - 1] + 1 if j else 0) for j in range(len(seq))}
                li = order.index("lit")
                n_sets = pos[li] - start[li]
                lit_ops = seq[li].fields["operands"]
                if seq[li].fields.get("args") or len(lit_ops) != 3 or not (isinstance(lit_ops[1], C.Obj) and lit_ops[1].fields.get("index") == 0 and lit_ops[1].fields["name"].name == "R"):
                    bad.setdefault("args-then-operands", f"{label}: the command written with the bracketed argument 41 and the operands (R0, 42) ends up with args {seq[li].fields.get('args')!r} and operands {lit_ops!r}: "
                                                         "the arguments must come first, then the operands, and the argument list must be empty")
                if n_sets != 2 or len(out) != len(seq) + 2 or any(pos[j] != start[j] for j in range(len(seq)) if j != li):
                    bad.setdefault("literals-materialised", f"{label}: {n_sets} commands inserted before the command with the bracketed argument 41 and the literal 42 (expected 2), program length {len(out)}")
                    continue
                for who, lab_i, op_i in (("jmp", 0, 0), ("beq", 1, 2)):
                    tgt = seq[order.index(who)].fields["operands"][op_i]
                    want = start[slots[lab_i]] if slots[lab_i] < len(seq) else len(out)
                    if tgt != want or isinstance(tgt, bool):
                        bad.setdefault("branch-lands-on-what-followed-its-label", f"{label}: `{who}` now targets {tgt!r}; what followed its label starts at index {want} of the assembled program "
                                                                                  f"({'past its end' if want == len(out) else 'the inserted set commands included'})")
        n += 1
        one = C.Obj(icmd, {"instruction": instr("JMP"), "args": [], "operands": [C.Obj(LBL, {"name": "A"})], "lineno": None})
        out, raised = run_([C.Obj(blab, {"name": "A", "lineno": None}), one])
        if raised is not None or one.fields["operands"][0] != 0 or isinstance(one.fields["operands"][0], bool):
            bad.setdefault("branch-lands-on-what-followed-its-label", f"a jump to a label in front of the first (and only) command targets {one.fields['operands'][0]!r} ({raised}); expected 0")
        n += 1
        commands, seq = build(("lit", "jmp", "beq"), (0, 2), dup=True)
        out, raised = run_(commands)
        if raised is None:
            bad.setdefault("duplicate-label-refused", "two labels with the same name are accepted")
    except AnalysisError as ex_:
        ctx.error(rule, f"assemble_subroutine cannot be evaluated: {ex_}")
        return
    ctx.anchor(rule, "labelled programs assembled", n, 90)
    texts = {"completes": "assembling a labelled program fails", "labels-removed": "labels are left in the program", "source-kept": "source commands are dropped, duplicated or reordered",
             "literals-materialised": "literals and bracketed arguments are not materialised in front of their command",
             "args-then-operands": "bracketed arguments are not folded in front of the operands",
             "branch-lands-on-what-followed-its-label": "a branch does not land on the instruction that followed its label", "duplicate-label-refused": "a duplicate label is not refused"}
    for key, text in texts.items():
        ctx.check(rule, f"assemble_subroutine:{key}", key not in bad, f"{text}: {bad.get(key)}", repo.loc(m, asm), sample={"programs": n})


def check_fresh_operands(ctx):
    """C03.S: _replace_constants rewrites operands in place, so every parsed operand must be an object of its own:
    nothing on the parsing path may be memoised or served from a module-level container."""
    repo = ctx.repo
    m = repo.module(TEXT_MOD)
    rc = m.functions.get("_replace_constants")
    inplace = [n for n in ast.walk(rc) if (isinstance(n, ast.Call) and dotted(n.func) == "setattr") or
               (isinstance(n, ast.Assign) and any(isinstance(t, ast.Attribute) for t in n.targets))] if rc is not None else []
    ctx.note(f"_replace_constants rewrites operands in place at {len(inplace)} site(s)")
    if not inplace:
        return  # operands are rebuilt: sharing them would be harmless
    mods = [m, repo.module("netqasm.lang.operand")]
    module_level = {}
    for mod in mods:
        for st in mod.tree.body:
            for t in (st.targets if isinstance(st, ast.Assign) else [st.target] if isinstance(st, ast.AnnAssign) else []):
                if isinstance(t, ast.Name) and isinstance(getattr(st, "value", None), (ast.Dict, ast.List, ast.Set, ast.DictComp, ast.ListComp, ast.Call)):
                    module_level[(mod.name, t.id)] = st
    # functions that can hand out an operand object: they construct a class of operand.py, or call such a function
    opclasses = set(mods[1].classes)
    allf = {(mod.name, qn): fn for mod in mods for _m, qn, fn, _c in repo.iter_functions(mod.name) if _m is mod}
    producers = {k for k, fn in allf.items() if any((A.call_name(c) or "") in opclasses for c in A.calls_in(fn))}
    changed = True
    while changed:
        changed = False
        pn = {k[1].split(".")[-1] for k in producers}
        for k, fn in allf.items():
            if k not in producers and any((A.call_name(c) or "") in pn for c in A.calls_in(fn)):
                producers.add(k)
                changed = True
    n = 0
    for mod in mods:
        for _m, qn, fn, _c in repo.iter_functions(mod.name):
            if _m is not mod or (mod.name, qn) not in producers:
                continue
            n += 1
            memo = []
            for dec in fn.decorator_list:
                dn = dotted(dec.func if isinstance(dec, ast.Call) else dec) or src(dec)
                imp = mod.imports.get(dn.split(".")[0])
                head = ".".join(str(x) for x in imp if x) if isinstance(imp, tuple) else (imp or dn.split(".")[0])
                target = head + ("." + ".".join(dn.split(".")[1:]) if "." in dn else "")
                if any(k in target.lower() for k in ("cache", "memo")):
                    memo.append(src(dec))
            stores = []
            for x in A.body_nodes(fn):
                tgt = None
                if isinstance(x, ast.Assign) and isinstance(x.targets[0], ast.Subscript) and isinstance(x.targets[0].value, ast.Name):
                    tgt = x.targets[0].value.id
                elif isinstance(x, ast.Call) and isinstance(x.func, ast.Attribute) and isinstance(x.func.value, ast.Name) and x.func.attr in ("setdefault", "append", "update", "add"):
                    tgt = x.func.value.id
                if tgt is not None and (mod.name, tgt) in module_level and tgt not in A.assigned_names(fn) and tgt not in A.param_names(fn):
                    stores.append(f"{tgt} <- {src(x)[:60]}")
            ctx.check("C03.S", f"{mod.name.split('.')[-1]}.{qn}:returns-fresh-objects", not memo and not stores,
                      f"{qn} is memoised ({'; '.join(memo + stores)}): two occurrences of the same operand text would be one object, and _replace_constants rewrites operands in place "
                      "(setattr), so the literal of the second occurrence is never materialised", repo.loc(mod, fn), trivial=True)
    ctx.anchor("C03.S", "operand-producing functions checked for memoisation", n, 8)


def run(ctx):
    check_order(ctx)
    check_exception_table(ctx, "C03.X")
    check_scratch(ctx)
    check_fresh_operands(ctx)
    check_lookup(ctx)
    check_macros(ctx, "C03.P")
    check_labels(ctx, "C03.L")
    # 0 is an ordinary id / value / address: nothing int-valued may be tested by truthiness (nqsa/truth.py)
    from .. import truth
    truth.check(ctx, "C03.Z", ['netqasm.lang.parsing.text'])
    # a value remembered for later calls is keyed by every argument it depends on (nqsa/memo.py)
    from .. import memo
    memo.check(ctx, "C03.K", ['netqasm.lang.parsing.text'])
    # no type test that an earlier type test has already decided (a subclass tested after its base class: nqsa/shadow.py)
    from .. import shadow
    shadow.check(ctx, "C03.H", ['netqasm.lang.parsing.text'])


T = "netqasm/lang/parsing/text.py"
SEEDS = [
    dict(id="c03-label-off-by-one", file=T, expect="C03.L", construct="branch-lands", old="        branch_labels[branch_label] = command_number\n", new="        branch_labels[branch_label] = command_number + 1\n"),
    dict(id="c03-label-counted-before-sets", file=T, expect="C03.L", construct="branch-lands",
         old="    if replace_constants:\n        pre_subroutine.commands = _replace_constants(pre_subroutine.commands)\n    if assign_branch_labels:\n        _assign_branch_labels(pre_subroutine)\n",
         new="    if assign_branch_labels:\n        _assign_branch_labels(pre_subroutine)\n    if replace_constants:\n        pre_subroutine.commands = _replace_constants(pre_subroutine.commands)\n"),
    dict(id="c03-labels-patched-from-second-command", file=T, expect="C03.L", construct="branch-lands", old="def _update_labels(subroutine, variables: Dict[str, int], from_command=0):", new="def _update_labels(subroutine, variables: Dict[str, int], from_command=1):"),
    dict(id="c03-duplicate-label-last-wins", file=T, expect="C03.L", construct="duplicate-label", old="        if branch_label in branch_labels:\n            raise NetQASMSyntaxError(\n                f\"branch labels need to be unique, name {branch_label} already used\"\n            )\n", new=""),
    dict(id="c03-label-removal-skips-next", file=T, expect="C03.L", construct="", old="        commands = commands[:command_number] + commands[command_number + 1 :]\n", new="        commands = commands[:command_number] + commands[command_number + 1 :]\n        command_number += 1\n"),
    dict(id="c03-label-lookup-truthiness", file=T, expect="C03.Z", construct="_update_labels_in_operand",
         old="        for label, value in labels.items():\n            if operand.name == label:\n                return value\n", new="        value = labels.get(operand.name)\n        if value:\n            return value\n"),

    dict(id="c03-parse-address-memoised", edits=[
        (T, "def parse_address(address: str)", "@lru_cache(maxsize=None)\ndef parse_address(address: str)"),
        (T, "from itertools import count\n", "from itertools import count\nfrom functools import lru_cache\n")], expect="C03.S", construct="parse_address:returns-fresh-objects"),
    dict(id="c03-operand-table-memo", edits=[
        (T, "def _parse_operand(word: str):\n", "_OPERANDS = {}\n\n\ndef _parse_operand(word: str):\n    if word in _OPERANDS:\n        return _OPERANDS[word]\n    _OPERANDS[word] = _parse_operand_uncached(word)\n    return _OPERANDS[word]\n\n\ndef _parse_operand_uncached(word: str):\n")],
        expect="C03.S", construct="_parse_operand:returns-fresh-objects"),

    dict(id="c03-drop-exception", file=T, expect="C03.X", construct="blt:pos2", old="    (GenericInstr.BLT, 2),\n", new=""),
    dict(id="c03-extra-exception", file=T, expect="C03.X", construct="store:pos0", old="    (GenericInstr.JMP, 0),\n", new="    (GenericInstr.JMP, 0),\n    (GenericInstr.STORE, 0),\n"),
    dict(id="c03-loop-index", file=T, expect="C03.X", construct="meas_basis:pos5", old="for index in [2, 3, 4, 5]:", new="for index in [2, 3, 4]:"),
    dict(id="c03-order-labels-first", file=T, expect="C03.O", construct="_replace_constants-before-_assign_branch_labels",
         old="    if replace_constants:\n        pre_subroutine.commands = _replace_constants(pre_subroutine.commands)\n    if assign_branch_labels:\n        _assign_branch_labels(pre_subroutine)\n",
         new="    if assign_branch_labels:\n        _assign_branch_labels(pre_subroutine)\n    if replace_constants:\n        pre_subroutine.commands = _replace_constants(pre_subroutine.commands)\n"),
    dict(id="c03-scratch-ignores-slices", file=T, expect="C03.S", construct="ArraySlice.stop", old="                values = [op.start, op.stop]", new="                values = [op.start]"),
    dict(id="c03-scratch-ignores-entry", file=T, expect="C03.S", construct="ArrayEntry.index",
         old="            if isinstance(op, ArrayEntry):\n                values = [op.index]\n            elif isinstance(op, ArraySlice):", new="            if isinstance(op, ArraySlice):"),
    dict(id="c03-tests-outer-operand", file=T, expect="C03.S", construct="get_current_registers:Array", old="                if isinstance(value, Register):\n                    current_registers.add(str(value))", new="                if isinstance(op, Register):\n                    current_registers.add(str(value))"),
    dict(id="c03-scratch-tmp-not-excluded", file=T, expect="C03.S", construct="excludes-temporaries",
         old="            if str(register) not in current_registers and register not in tmp_registers:", new="            if str(register) not in current_registers:"),
    dict(id="c03-scratch-repr-mismatch", file=T, expect="C03.S", construct="",
         old="            if str(register) not in current_registers and register not in tmp_registers:", new="            if register not in current_registers and register not in tmp_registers:"),
    dict(id="c03-table-key", file=T, expect="C03.X", construct="table-key", old="and (command.instruction, j) not in _REPLACE_CONSTANTS_EXCEPTION", new="and (command.instruction, j + 1) not in _REPLACE_CONSTANTS_EXCEPTION"),
    dict(id="c03-tmp-per-operand", file=T, expect="C03.S", construct="excludes-temporaries-of-same-command",
         old="                register, set_command = reg_and_set_cmd(\n                    operand, tmp_registers, lineno=command.lineno\n                )", new="                register, set_command = reg_and_set_cmd(\n                    operand, [], lineno=command.lineno\n                )"),
    dict(id="c03-skip-debug", file=T, expect="C03.M", construct="one-instruction-per-command",
         old="        new_command.lineno = command.lineno\n        instructions.append(new_command)", new="        new_command.lineno = command.lineno\n        if new_command.operands:\n            instructions.append(new_command)"),
]
BENIGN = [
    dict(id="c03-benign-memoised-predicate", edits=[
        (T, "def _is_byte(value):", "@lru_cache(maxsize=None)\ndef _is_byte(value):"),
        (T, "from itertools import count\n", "from itertools import count\nfrom functools import lru_cache\n")]),

    dict(id="c03-benign-table-literal", file=T, old="for index in [2, 3, 4, 5]:\n    _REPLACE_CONSTANTS_EXCEPTION.append((GenericInstr.MEAS_BASIS, index))",
         new="_REPLACE_CONSTANTS_EXCEPTION += [(GenericInstr.MEAS_BASIS, 2), (GenericInstr.MEAS_BASIS, 3), (GenericInstr.MEAS_BASIS, 4), (GenericInstr.MEAS_BASIS, 5)]"),
]
