"""C16 — operands the format cannot represent are rejected.

C16.G (T-dom): every value that reaches a ctypes field narrower than a Python
int at the encode boundary is dominated by a range test that raises, whose
bounds (constant-evaluated) lie inside the field's range.  Sinks are enumerated
from the wire model, not listed by hand.
"""
from __future__ import annotations

import ast
from typing import List, Optional, Tuple

from .. import astutil as A
from .. import guards as G
from .. import instrs as I
from .. import wire
from ..model import AnalysisError, CArray, CScalar, CStructRef, Unknown, dotted, src
from . import c01

TECHNIQUE = "every instruction class's executed serialize refuses the first value outside each field's width (checker's AST interpreter over a ctypes layout model; bounds from the layout); who-constructs rule for the structures (static analysis; abstract execution)"
ENGINES = ["model", "wire", "instrs", "cmodel", "codec"]
EXPLANATION = (
    "Sinks = every integer that flows into a narrow ctypes field when a subroutine is encoded: immediates/integers passed by "
    "each shape's serialize() into its *Command struct, Register.index (4-bit field), Register.name (2-bit field, enum domain), "
    "Address.address (int32), Metadata.app_id (uint16). Each sink must be dominated by a raising range test whose accepted "
    "interval, decided by evaluating the predicate at the breakpoints of its constants, lies inside the field's range; accepted "
    "idioms: `if not lo <= x < hi: raise`, `if x < lo or x > hi: raise`, assert forms, a guard in a validator called on the path, "
    "__post_init__ of a frozen dataclass, and the struct constructor's read-back test `getattr(self, name) != value -> raise` over "
    "its keyword arguments (full for any integer field) when the value is passed by keyword."
    ' Every scalar field of a command struct must receive its value from a named (keyword or plain positional) argument: starred or ** arguments hide the source and bypass the keyword-only read-back guard.'
    ' A struct looked up in a precomputed table instead of built: the int field used as sequence index is a sink that needs a guard rejecting negative values.'
)
LEVEL_TEXT = (
    "Static analysis, full: all narrow sinks at the encode boundary (enumerated from the source, floor 17) are proven to be "
    "dominated by a raising range guard of full strength, so every route (text assembler, SDK, direct construction) is covered by "
    "the boundary; the tests never use an out-of-range operand."
)
LEVEL_NOTE = (
    "assumes operand values are Python ints (the repo asserts types before encoding); ctypes semantics of storing/reading integer "
    "fields (read-back differs from the stored value iff it did not fit); guards recognised only in the enumerated idioms — an "
    "unrecognised raising statement that mentions the sink value is an ANALYSIS-ERROR, not a verdict"
)
ASSUMPTIONS = [LEVEL_NOTE]


def _is_type_guard(cond) -> bool:
    """only isinstance(...) calls and `is (not) None` comparisons, combined with and/or/not"""
    for n in ast.walk(cond):
        if isinstance(n, ast.Compare):
            if not all(isinstance(o, (ast.Is, ast.IsNot)) for o in n.ops):
                return False
        elif isinstance(n, ast.Call):
            if dotted(n.func) != "isinstance":
                return False
    return True


def field_range(t, bits):
    if bits is not None:
        return 0, (1 << bits) - 1
    return t.lo, t.hi


def local_guard_strength(ctx, owner_cls, m, fn, sink_node, value_expr, lo, hi, what) -> Tuple[str, List[str]]:
    """strength of the raising guards on value_expr that dominate sink_node inside fn (callees of self.* one level)"""
    ev, repo = ctx.ev, ctx.repo
    strengths, notes = [], []
    # a bound hoisted into a local (`limit = 2 ** BITS`) stands for its expression
    bound_defs = {k_: v_ for k_, v_ in A.single_defs(fn).items() if not any(isinstance(x_, (ast.Call, ast.Attribute)) and not (isinstance(x_, ast.Attribute) and not A.is_self_attr(x_)) for x_ in ast.walk(v_))}
    for st in G.dominating_stmts(fn, sink_node):
        cond = G.raising_condition(st)
        if cond is not None:
            cond = A.expand(cond, bound_defs)
        if cond is not None and G.mentions(cond, value_expr):
            s = G.range_strength(ev, m, cond, value_expr, lo, hi)
            if s is None:
                # type / None assertions are not range guards; anything else is an unknown idiom
                if _is_type_guard(cond):
                    continue
                ctx.error("C16.G", f"{what}: unrecognised guard idiom `{src(cond)[:80]}` at {repo.loc(m, st)}")
                continue
            strengths.append(s)
            notes.append(f"{src(cond)[:70]} -> {s}")
        # validator calls: self.m() as an expression statement
        if isinstance(st, ast.Expr) and isinstance(st.value, ast.Call) and isinstance(st.value.func, ast.Attribute) and \
                isinstance(st.value.func.value, ast.Name) and st.value.func.value.id == "self" and owner_cls is not None and not st.value.args:
            r = repo.lookup(owner_cls, st.value.func.attr)
            if r is not None:
                k, callee = r
                for st2 in callee.body:
                    cond = G.raising_condition(st2)
                    if cond is not None and G.mentions(cond, value_expr):
                        s = G.range_strength(ev, k.module, cond, value_expr, lo, hi)
                        if s is not None:
                            strengths.append(s)
                            notes.append(f"{callee.name}: {src(cond)[:60]} -> {s}")
    return G.combine(strengths), notes


def post_init_strength(ctx, cls, value_expr, lo, hi):
    """guards in __post_init__ of a frozen dataclass"""
    repo, ev = ctx.repo, ctx.ev
    frozen = False
    for d in cls.node.decorator_list:
        if isinstance(d, ast.Call):
            for k in d.keywords:
                if k.arg == "frozen" and isinstance(k.value, ast.Constant) and k.value.value is True:
                    frozen = True
    if not frozen or "__post_init__" not in cls.methods:
        return "none", []
    strengths, notes = [], []
    for st in cls.methods["__post_init__"].body:
        cond = G.raising_condition(st)
        if cond is not None and G.mentions(cond, value_expr):
            s = G.range_strength(ev, cls.module, cond, value_expr, lo, hi)
            if s is not None:
                strengths.append(s)
                notes.append(f"__post_init__: {src(cond)[:60]} -> {s}")
    return G.combine(strengths), notes


def readback_guard(ctx, sc) -> Optional[str]:
    """'full' if the struct's constructor compares every integer keyword with the value read back from the field and raises."""
    repo = ctx.repo
    r = repo.lookup(sc, "__init__")
    if r is None:
        return None
    k, fn = r
    kwname = fn.args.kwarg.arg if fn.args.kwarg else None
    if kwname is None:
        return None
    seen_super = False
    for st in fn.body:
        for n in ast.walk(st):
            if isinstance(n, ast.Call) and isinstance(n.func, ast.Attribute) and n.func.attr == "__init__" and isinstance(n.func.value, ast.Call) and dotted(n.func.value.func) == "super":
                if any(kw.arg is None and isinstance(kw.value, ast.Name) and kw.value.id == kwname for kw in n.keywords):
                    seen_super = True
        if isinstance(st, ast.For) and seen_super:
            it = st.iter
            if isinstance(it, ast.Call) and isinstance(it.func, ast.Attribute) and it.func.attr == "items" and isinstance(it.func.value, ast.Name) and it.func.value.id == kwname \
                    and isinstance(st.target, ast.Tuple) and len(st.target.elts) == 2 and all(isinstance(e, ast.Name) for e in st.target.elts):
                kn, vn = st.target.elts[0].id, st.target.elts[1].id
                for s2 in st.body:
                    cond = G.raising_condition(s2)
                    if cond is None:
                        continue
                    conj = cond.values if isinstance(cond, ast.BoolOp) and isinstance(cond.op, ast.And) else [cond]
                    has_rb = False
                    others_ok = True
                    for c in conj:
                        if isinstance(c, ast.Compare) and len(c.ops) == 1 and isinstance(c.ops[0], ast.NotEq):
                            sides = {A.norm(c.left), A.norm(c.comparators[0])}
                            if sides == {f"getattr(self,{kn})", vn}:
                                has_rb = True
                                continue
                        if isinstance(c, ast.Call) and dotted(c.func) == "isinstance" and len(c.args) == 2 and A.norm(c.args[0]) == vn and A.norm(c.args[1]) == "int":
                            continue
                        others_ok = False
                    if has_rb and others_ok:
                        return "full"
                    if has_rb:
                        ctx.error("C16.G", f"{sc.name}.__init__: read-back guard restricted by an unrecognised condition `{src(cond)[:80]}`")
    return None


def run(ctx, rule="C16.G"):
    """Every narrow field at the encode boundary refuses what it cannot hold - decided by running each instruction's own serialize()
    (operand cstruct properties, struct constructors and Command.__init__ included) in the checker's interpreter with ctypes'
    truncating stores modelled (nqsa/codec.py): per operand leaf of the published table, the values just outside the leaf's width
    and one further wrap-around must raise, the two ends of the width must encode and decode back.  The subroutine header's app id
    likewise."""
    from .. import codec
    repo, ev = ctx.repo, ctx.ev
    enc = repo.module(I.ENC_MOD)
    codec.emit(ctx, rng=rule)
    codec.emit_framing(ctx, rule, aspects=("range",))
    # no other constructor of command structs outside serialize(): who-may-call
    cmd = enc.classes.get("Command")
    others = 0
    for mod, qn, fn, cls in repo.iter_functions("netqasm."):
        if mod.name.startswith("netqasm.examples"):
            continue
        if fn.name in ("serialize",) or mod is enc:
            continue
        for call in A.calls_in(fn, nested=True):
            c = repo.resolve_class(mod, call.func)
            if c is not None and cmd in repo.mro(c) and c is not cmd:
                others += 1
                ctx.check(rule, f"{qn}:constructs-{c.name}", False, f"{qn} constructs encoding.{c.name} outside a serialize() method; its operands bypass the analysed boundary", repo.loc(mod, call))
    ctx.check(rule, "who-constructs-command-structs", True, sample={"constructors outside serialize()": others}, trivial=True)


OP = "netqasm/lang/operand.py"
E = "netqasm/lang/encoding.py"
SEEDS = [
    dict(id="c16-starred-immediates", file="netqasm/lang/instr/base.py", expect="C16.G", construct="",
         old="        c_struct = encoding.RegRegImm4Command(\n            id=self.id,\n            reg0=self.reg0.cstruct,\n            reg1=self.reg1.cstruct,\n            imm0=self.imm0.value,\n            imm1=self.imm1.value,\n            imm2=self.imm2.value,\n            imm3=self.imm3.value,\n        )",
         new="        imms = [self.imm0.value, self.imm1.value, self.imm2.value, self.imm3.value]\n        c_struct = encoding.RegRegImm4Command(self.id, self.reg0.cstruct, self.reg1.cstruct, *imms)"),

    dict(id="c16-drop-reg-guard", file=OP, expect="C16.G", construct="",
         old="        if not 0 <= self.index < 2**encoding.REG_INDEX_BITS:\n            raise ValueError(f\"register index {self.index} cannot be encoded\")\n", new=""),
    dict(id="c16-weaken-reg-guard-upper", file=OP, expect="C16.G", construct="",
         old="if not 0 <= self.index < 2**encoding.REG_INDEX_BITS:", new="if not 0 <= self.index <= 2**encoding.REG_INDEX_BITS:"),
    dict(id="c16-weaken-reg-guard-lower", file=OP, expect="C16.G", construct="",
         old="if not 0 <= self.index < 2**encoding.REG_INDEX_BITS:", new="if not self.index < 2**encoding.REG_INDEX_BITS:"),
    dict(id="c16-addr-guard-off-by-bit", file=OP, expect="C16.G", construct="",
         old="        if not -(2 ** (encoding.ADDRESS_BITS - 1)) <= self.address < 2 ** (\n            encoding.ADDRESS_BITS - 1\n        ):", new="        if not -(2 ** (encoding.ADDRESS_BITS)) <= self.address < 2 ** (\n            encoding.ADDRESS_BITS\n        ):"),
    dict(id="c16-readback-dropped", file=E, expect="C16.G", construct="",
         old="            if isinstance(value, int) and getattr(self, name) != value:\n                raise ValueError(", new="            if isinstance(value, int) and getattr(self, name) != value and False:\n                raise ValueError("),
    dict(id="c16-readback-log-only", file=E, expect="C16.G", construct="",
         old="                raise ValueError(\n                    f\"command {self.__class__.__name__}: {name}={value} cannot be encoded\"\n                )", new="                print(\n                    f\"command {self.__class__.__name__}: {name}={value} cannot be encoded\"\n                )"),
    dict(id="c16-positional-bypass", file="netqasm/lang/instr/base.py", expect="C16.G", construct="",
         old="c_struct = encoding.ImmCommand(id=self.id, imm=self.imm.value)", new="c_struct = encoding.ImmCommand(self.id, self.imm.value)"),
    dict(id="c16-appid-guard", file="netqasm/lang/subroutine.py", expect="C16.G", construct="",
         old="if not 0 <= self.app_id < 2**16:", new="if not 0 <= self.app_id < 2**32:"),
    dict(id="c16-bitfield-narrowed", expect="C16.G", construct="",
         edits=[(OP, "if not 0 <= self.index < 2**encoding.REG_INDEX_BITS:", "if not 0 <= self.index < 16:"), (E, "REG_INDEX_BITS = 4", "REG_INDEX_BITS = 3")]),
]
BENIGN = [
    dict(id="c16-benign-guard-form", file=OP,
         old="if not 0 <= self.index < 2**encoding.REG_INDEX_BITS:", new="if self.index < 0 or self.index > 2**encoding.REG_INDEX_BITS - 1:"),
    dict(id="c16-benign-assert-form", file="netqasm/lang/subroutine.py",
         old="        if not 0 <= self.app_id < 2**16:\n            raise ValueError(f\"app ID {self.app_id} cannot be encoded\")", new="        assert 0 <= self.app_id <= 65535, \"app ID cannot be encoded\""),
]
