"""C16 — operands the format cannot represent are rejected.

C16.G (T-dom): every value that reaches a ctypes field narrower than a Python
int at the encode boundary is dominated by a range test that raises, whose
bounds (constant-evaluated) lie inside the field's range.  Sinks are enumerated
from the wire model, not listed by hand.
"""
from __future__ import annotations

import ast
from typing import List, Optional, Tuple

from .. import astutil as A
from .. import guards as G
from .. import instrs as I
from .. import wire
from ..model import AnalysisError, CArray, CScalar, CStructRef, Unknown, dotted, src
from . import c01

TECHNIQUE = "sink enumeration from the ctypes layout model + dominating range-guard analysis with constant-evaluated bounds (static analysis)"
ENGINES = ["model", "wire", "instrs"]
EXPLANATION = (
    "Sinks = every integer that flows into a narrow ctypes field when a subroutine is encoded: immediates/integers passed by "
    "each shape's serialize() into its *Command struct, Register.index (4-bit field), Register.name (2-bit field, enum domain), "
    "Address.address (int32), Metadata.app_id (uint16). Each sink must be dominated by a raising range test whose accepted "
    "interval, decided by evaluating the predicate at the breakpoints of its constants, lies inside the field's range; accepted "
    "idioms: `if not lo <= x < hi: raise`, `if x < lo or x > hi: raise`, assert forms, a guard in a validator called on the path, "
    "__post_init__ of a frozen dataclass, and the struct constructor's read-back test `getattr(self, name) != value -> raise` over "
    "its keyword arguments (full for any integer field) when the value is passed by keyword."
    ' Every scalar field of a command struct must receive its value from a named (keyword or plain positional) argument: starred or ** arguments hide the source and bypass the keyword-only read-back guard.'
    ' A struct looked up in a precomputed table instead of built: the int field used as sequence index is a sink that needs a guard rejecting negative values.'
)
LEVEL_TEXT = (
    "Static analysis, full: all narrow sinks at the encode boundary (enumerated from the source, floor 17) are proven to be "
    "dominated by a raising range guard of full strength, so every route (text assembler, SDK, direct construction) is covered by "
    "the boundary; the tests never use an out-of-range operand."
)
LEVEL_NOTE = (
    "assumes operand values are Python ints (the repo asserts types before encoding); ctypes semantics of storing/reading integer "
    "fields (read-back differs from the stored value iff it did not fit); guards recognised only in the enumerated idioms — an "
    "unrecognised raising statement that mentions the sink value is an ANALYSIS-ERROR, not a verdict"
)
ASSUMPTIONS = [LEVEL_NOTE]


def _is_type_guard(cond) -> bool:
    """only isinstance(...) calls and `is (not) None` comparisons, combined with and/or/not"""
    for n in ast.walk(cond):
        if isinstance(n, ast.Compare):
            if not all(isinstance(o, (ast.Is, ast.IsNot)) for o in n.ops):
                return False
        elif isinstance(n, ast.Call):
            if dotted(n.func) != "isinstance":
                return False
    return True


def field_range(t, bits):
    if bits is not None:
        return 0, (1 << bits) - 1
    return t.lo, t.hi


def local_guard_strength(ctx, owner_cls, m, fn, sink_node, value_expr, lo, hi, what) -> Tuple[str, List[str]]:
    """strength of the raising guards on value_expr that dominate sink_node inside fn (callees of self.* one level)"""
    ev, repo = ctx.ev, ctx.repo
    strengths, notes = [], []
    # a bound hoisted into a local (`limit = 2 ** BITS`) stands for its expression
    bound_defs = {k_: v_ for k_, v_ in A.single_defs(fn).items() if not any(isinstance(x_, (ast.Call, ast.Attribute)) and not (isinstance(x_, ast.Attribute) and not A.is_self_attr(x_)) for x_ in ast.walk(v_))}
    for st in G.dominating_stmts(fn, sink_node):
        cond = G.raising_condition(st)
        if cond is not None:
            cond = A.expand(cond, bound_defs)
        if cond is not None and G.mentions(cond, value_expr):
            s = G.range_strength(ev, m, cond, value_expr, lo, hi)
            if s is None:
                # type / None assertions are not range guards; anything else is an unknown idiom
                if _is_type_guard(cond):
                    continue
                ctx.error("C16.G", f"{what}: unrecognised guard idiom `{src(cond)[:80]}` at {repo.loc(m, st)}")
                continue
            strengths.append(s)
            notes.append(f"{src(cond)[:70]} -> {s}")
        # validator calls: self.m() as an expression statement
        if isinstance(st, ast.Expr) and isinstance(st.value, ast.Call) and isinstance(st.value.func, ast.Attribute) and \
                isinstance(st.value.func.value, ast.Name) and st.value.func.value.id == "self" and owner_cls is not None and not st.value.args:
            r = repo.lookup(owner_cls, st.value.func.attr)
            if r is not None:
                k, callee = r
                for st2 in callee.body:
                    cond = G.raising_condition(st2)
                    if cond is not None and G.mentions(cond, value_expr):
                        s = G.range_strength(ev, k.module, cond, value_expr, lo, hi)
                        if s is not None:
                            strengths.append(s)
                            notes.append(f"{callee.name}: {src(cond)[:60]} -> {s}")
    return G.combine(strengths), notes


def post_init_strength(ctx, cls, value_expr, lo, hi):
    """guards in __post_init__ of a frozen dataclass"""
    repo, ev = ctx.repo, ctx.ev
    frozen = False
    for d in cls.node.decorator_list:
        if isinstance(d, ast.Call):
            for k in d.keywords:
                if k.arg == "frozen" and isinstance(k.value, ast.Constant) and k.value.value is True:
                    frozen = True
    if not frozen or "__post_init__" not in cls.methods:
        return "none", []
    strengths, notes = [], []
    for st in cls.methods["__post_init__"].body:
        cond = G.raising_condition(st)
        if cond is not None and G.mentions(cond, value_expr):
            s = G.range_strength(ev, cls.module, cond, value_expr, lo, hi)
            if s is not None:
                strengths.append(s)
                notes.append(f"__post_init__: {src(cond)[:60]} -> {s}")
    return G.combine(strengths), notes


def readback_guard(ctx, sc) -> Optional[str]:
    """'full' if the struct's constructor compares every integer keyword with the value read back from the field and raises."""
    repo = ctx.repo
    r = repo.lookup(sc, "__init__")
    if r is None:
        return None
    k, fn = r
    kwname = fn.args.kwarg.arg if fn.args.kwarg else None
    if kwname is None:
        return None
    seen_super = False
    for st in fn.body:
        for n in ast.walk(st):
            if isinstance(n, ast.Call) and isinstance(n.func, ast.Attribute) and n.func.attr == "__init__" and isinstance(n.func.value, ast.Call) and dotted(n.func.value.func) == "super":
                if any(kw.arg is None and isinstance(kw.value, ast.Name) and kw.value.id == kwname for kw in n.keywords):
                    seen_super = True
        if isinstance(st, ast.For) and seen_super:
            it = st.iter
            if isinstance(it, ast.Call) and isinstance(it.func, ast.Attribute) and it.func.attr == "items" and isinstance(it.func.value, ast.Name) and it.func.value.id == kwname \
                    and isinstance(st.target, ast.Tuple) and len(st.target.elts) == 2 and all(isinstance(e, ast.Name) for e in st.target.elts):
                kn, vn = st.target.elts[0].id, st.target.elts[1].id
                for s2 in st.body:
                    cond = G.raising_condition(s2)
                    if cond is None:
                        continue
                    conj = cond.values if isinstance(cond, ast.BoolOp) and isinstance(cond.op, ast.And) else [cond]
                    has_rb = False
                    others_ok = True
                    for c in conj:
                        if isinstance(c, ast.Compare) and len(c.ops) == 1 and isinstance(c.ops[0], ast.NotEq):
                            sides = {A.norm(c.left), A.norm(c.comparators[0])}
                            if sides == {f"getattr(self,{kn})", vn}:
                                has_rb = True
                                continue
                        if isinstance(c, ast.Call) and dotted(c.func) == "isinstance" and len(c.args) == 2 and A.norm(c.args[0]) == vn and A.norm(c.args[1]) == "int":
                            continue
                        others_ok = False
                    if has_rb and others_ok:
                        return "full"
                    if has_rb:
                        ctx.error("C16.G", f"{sc.name}.__init__: read-back guard restricted by an unrecognised condition `{src(cond)[:80]}`")
    return None


def run(ctx, rule="C16.G"):
    repo, ev = ctx.repo, ctx.ev
    n_sinks = 0
    # ---- (a) immediates in serialize() ------------------------------------
    shapes = {}
    for c in I.all_registered(repo):
        so = I.shape_owner(repo, c, "serialize")
        if so is not None:
            shapes[so.qualname] = so
    rb_cache = {}
    for q, s in sorted(shapes.items()):
        fn = s.methods["serialize"]
        ctx.fn(q + ".serialize")
        ser = I.analyse_serialize(repo, s, fn)
        if ser.struct is None:
            ctx.error(rule, f"{s.name}.serialize builds no struct")
            continue
        sfields = {n: (t, b) for n, t, b in wire.struct_fields(ev, ser.struct)}
        names = list(sfields)
        # locate the struct constructor call node in the original function for dominance
        call_node = None
        for n in ast.walk(fn):
            if isinstance(n, ast.Call) and repo.resolve_class(s.module, n.func) is ser.struct:
                call_node = n
        # every scalar field of the struct must get its value from an analysable, guarded source: starred or ** arguments hide
        # which value reaches which field, and positional values bypass the read-back guard (it iterates over keywords)
        ctor = call_node
        hidden = [src(a) for a in (ctor.args if ctor is not None else []) if isinstance(a, ast.Starred)] + ["**" + src(k.value) for k in (ctor.keywords if ctor is not None else []) if k.arg is None]
        covered = set()
        for k in ser.fields:
            if not k.startswith("_pos"):
                covered.add(k)
            elif not isinstance(ser.fields[k], ast.Starred) and int(k[4:]) < len(names):
                covered.add(names[int(k[4:])])
        uncovered = [f_ for f_, (t_, b_) in sfields.items() if isinstance(t_, CScalar) and f_ not in covered and f_ != names[0] and not f_.lower().startswith("pad")]
        ctx.check(rule, f"{s.name}->{ser.struct.name}:every-field-from-a-named-source", not hidden and not uncovered,
                  f"{s.name}.serialize passes {hidden or 'no value'} to {ser.struct.name}(...) so that field(s) {uncovered} receive values the guards cannot be matched to "
                  f"(the read-back guard of {ser.struct.name}.__init__ only sees keyword arguments): an out-of-range operand is truncated silently", s.loc(fn), trivial=True)
        for k, v in ser.fields.items():
            if isinstance(v, ast.Starred):
                continue
            by_kw = not k.startswith("_pos")
            f = k if by_kw else names[int(k[4:])]
            cl = c01._classify_ser(v)
            if cl is None or cl[0] not in ("value", "ident"):
                continue
            t, bits = sfields[f]
            if not isinstance(t, CScalar):
                continue
            n_sinks += 1
            lo, hi = field_range(t, bits)
            what = f"{s.name}.{cl[1]}->{ser.struct.name}.{f}"
            strength, notes = local_guard_strength(ctx, s, s.module, fn, call_node, v, lo, hi, what)
            if strength != "full" and by_kw:
                if ser.struct.qualname not in rb_cache:
                    rb_cache[ser.struct.qualname] = readback_guard(ctx, ser.struct)
                if rb_cache[ser.struct.qualname] == "full":
                    strength = "full"
                    notes.append(f"read-back guard in {ser.struct.name}.__init__ (inherited) over keyword arguments")
            ctx.check(rule, f"{what}:guard", strength == "full",
                      f"{what}: value {src(v)} reaches a {wire.kind_name(t)} field (range {lo}..{hi}) with guard strength '{strength}'; "
                      f"ctypes truncates silently, an out-of-range operand encodes as a different valid-looking one",
                      s.loc(fn), facts={"strength": strength, "notes": notes},
                      sample={"sink": what, "range": [lo, hi], "strength": strength, "guard": notes[-1] if notes else None})
    # ---- (b) operand classes -----------------------------------------------
    m = repo.module(I.OPERAND_MOD)
    for c in m.classes.values():
        if "cstruct" not in c.methods or "from_raw" not in c.methods:
            continue
        fn = c.methods["cstruct"]
        ctx.fn(c.qualname + ".cstruct")
        sc = c01._operand_struct(repo, c)
        if sc is None:
            # the struct is not built here but looked up: an int field of the operand used as a sequence index is a narrow sink
            # of its own (a negative index does not fail, it wraps around); the IndexError of the lookup covers the upper side only
            anns = {nm: ann for nm, ann, val, k in repo.dataclass_fields(c)}
            for r_ in A.returns(fn):
                for sub_ in ast.walk(r_.value) if r_.value is not None else []:
                    if isinstance(sub_, ast.Subscript) and A.is_self_attr(sub_.slice) and "int" not in I.ann_types(anns.get(sub_.slice.attr)):
                        n_sinks += 1  # keyed by an enum-valued field: a key outside the table fails the lookup
                    elif isinstance(sub_, ast.Subscript) and A.is_self_attr(sub_.slice):
                        base = sub_.value
                        while isinstance(base, ast.Subscript):
                            base = base.value
                        tdef = m.assigns.get(base.id) if isinstance(base, ast.Name) and hasattr(m, "assigns") else None
                        n_sinks += 1
                        what = f"operand.{c.name}.{sub_.slice.attr}->index of {src(base)}"
                        strength, notes = local_guard_strength(ctx, c, m, fn, r_, sub_.slice, 0, 1 << 62, what)
                        ctx.check(rule, f"{what}:guard", strength in ("full", "lower-only"),
                                  f"{what}: `{src(sub_)}` is reached without a guard that rejects negative values; a negative index selects an entry from the end of the "
                                  f"sequence, so e.g. index -1 encodes as the highest valid one instead of being rejected", c.loc(fn),
                                  sample={"sink": what, "strength": strength})
            continue
        ret = A.returns(fn)[0].value
        sfl = wire.struct_fields(ev, sc)
        names = [nm for nm, _, _ in sfl]
        fmap = {}
        for i, a in enumerate(ret.args):
            fmap[names[i]] = (a, False)
        for k, v in A.kwargs_of(ret).items():
            fmap[k] = (v, True)
        anns = {nm: ann for nm, ann, val, k in repo.dataclass_fields(c)}
        for f, (v, by_kw) in fmap.items():
            cl = c01._classify_ser(v)
            if cl is None or cl[0] not in ("value", "ident"):
                continue
            t, bits = next((t, b) for nm, t, b in sfl if nm == f)
            if not isinstance(t, CScalar):
                continue
            n_sinks += 1
            lo, hi = field_range(t, bits)
            what = f"operand.{c.name}.{cl[1]}->{sc.name}.{f}"
            if cl[0] == "value":
                # enum-valued: the domain of the enum is the guard
                ok = False
                vals = None
                for tn in I.ann_types(anns.get(cl[1])):
                    ec = repo.resolve_class(m, tn)
                    if ec is not None and ev.is_enum(ec):
                        vals = sorted(ev.enum_members(ec).values())
                        ok = all(isinstance(x, int) and lo <= x <= hi for x in vals)
                # plus a type assertion that the attribute is a member of that enum must dominate
                strength = "full" if ok else "none"
                ctx.check(rule, f"{what}:guard", ok, f"{what}: enum values {vals} do not all fit the field range {lo}..{hi}", c.loc(fn),
                          sample={"sink": what, "range": [lo, hi], "enum_values": vals})
                continue
            strength, notes = local_guard_strength(ctx, c, m, fn, ret, v, lo, hi, what)
            if strength != "full":
                s2, n2 = post_init_strength(ctx, c, v, lo, hi)
                strength = G.combine([strength, s2])
                notes += n2
            if strength != "full" and by_kw and readback_guard(ctx, sc) == "full":
                strength = "full"
            ctx.check(rule, f"{what}:guard", strength == "full",
                      f"{what}: value {src(v)} reaches a {'%d-bit' % bits if bits else wire.kind_name(t)} field (range {lo}..{hi}) with guard strength '{strength}'",
                      c.loc(fn), facts={"strength": strength, "notes": notes}, sample={"sink": what, "range": [lo, hi], "strength": strength, "guard": notes[-1] if notes else None})
    # ---- (c) metadata ------------------------------------------------------
    sub = repo.get_class("netqasm.lang.subroutine", "Subroutine")
    cs = sub.methods.get("cstructs")
    if cs is None:
        raise AnalysisError("Subroutine.cstructs not found")
    ctx.fn("Subroutine.cstructs")
    enc = repo.module(I.ENC_MOD)
    md = enc.classes.get("Metadata")
    found = False
    for call in A.calls_in(cs):
        if repo.resolve_class(sub.module, call.func) is md:
            found = True
            sfl = wire.struct_fields(ev, md)
            names = [nm for nm, _, _ in sfl]
            fmap = {}
            for i, a in enumerate(call.args):
                fmap[names[i]] = (a, False)
            for k, v in A.kwargs_of(call).items():
                fmap[k] = (v, True)
            for f, (v, by_kw) in fmap.items():
                t, bits = next((t, b) for nm, t, b in sfl if nm == f)
                if not isinstance(t, CScalar):
                    continue  # the version byte pair is not part of the statement
                n_sinks += 1
                lo, hi = field_range(t, bits)
                what = f"Subroutine.cstructs:{f}->Metadata.{f}"
                strength, notes = local_guard_strength(ctx, sub, sub.module, cs, call, v, lo, hi, what)
                if strength != "full" and by_kw and readback_guard(ctx, md) == "full":
                    strength = "full"
                ctx.check(rule, f"{what}:guard", strength == "full",
                          f"{what}: {src(v)} reaches a {wire.kind_name(t)} field (range {lo}..{hi}) with guard strength '{strength}'", sub.loc(cs),
                          facts={"strength": strength, "notes": notes}, sample={"sink": what, "range": [lo, hi], "strength": strength, "guard": notes[-1] if notes else None})
    if not found:
        ctx.error(rule, "Subroutine.cstructs does not construct encoding.Metadata")
    ctx.anchor(rule, "narrow sinks at the encode boundary", n_sinks, 17)
    # no other constructor of command structs outside serialize(): who-may-call
    cmd = enc.classes.get("Command")
    others = 0
    for mod, qn, fn, cls in repo.iter_functions("netqasm."):
        if mod.name.startswith("netqasm.examples"):
            continue
        if fn.name in ("serialize",) or mod is enc:
            continue
        for call in A.calls_in(fn, nested=True):
            c = repo.resolve_class(mod, call.func)
            if c is not None and cmd in repo.mro(c) and c is not cmd:
                others += 1
                ctx.check(rule, f"{qn}:constructs-{c.name}", False, f"{qn} constructs encoding.{c.name} outside a serialize() method; its operands bypass the analysed boundary", repo.loc(mod, call))
    ctx.check(rule, "who-constructs-command-structs", True, sample={"constructors outside serialize()": others}, trivial=True)


OP = "netqasm/lang/operand.py"
E = "netqasm/lang/encoding.py"
SEEDS = [
    dict(id="c16-starred-immediates", file="netqasm/lang/instr/base.py", expect="C16.G", construct="every-field-from-a-named-source",
         old="        c_struct = encoding.RegRegImm4Command(\n            id=self.id,\n            reg0=self.reg0.cstruct,\n            reg1=self.reg1.cstruct,\n            imm0=self.imm0.value,\n            imm1=self.imm1.value,\n            imm2=self.imm2.value,\n            imm3=self.imm3.value,\n        )",
         new="        imms = [self.imm0.value, self.imm1.value, self.imm2.value, self.imm3.value]\n        c_struct = encoding.RegRegImm4Command(self.id, self.reg0.cstruct, self.reg1.cstruct, *imms)"),

    dict(id="c16-drop-reg-guard", file=OP, expect="C16.G", construct="operand.Register.index",
         old="        if not 0 <= self.index < 2**encoding.REG_INDEX_BITS:\n            raise ValueError(f\"register index {self.index} cannot be encoded\")\n", new=""),
    dict(id="c16-weaken-reg-guard-upper", file=OP, expect="C16.G", construct="operand.Register.index",
         old="if not 0 <= self.index < 2**encoding.REG_INDEX_BITS:", new="if not 0 <= self.index <= 2**encoding.REG_INDEX_BITS:"),
    dict(id="c16-weaken-reg-guard-lower", file=OP, expect="C16.G", construct="operand.Register.index",
         old="if not 0 <= self.index < 2**encoding.REG_INDEX_BITS:", new="if not self.index < 2**encoding.REG_INDEX_BITS:"),
    dict(id="c16-addr-guard-off-by-bit", file=OP, expect="C16.G", construct="operand.Address.address",
         old="        if not -(2 ** (encoding.ADDRESS_BITS - 1)) <= self.address < 2 ** (\n            encoding.ADDRESS_BITS - 1\n        ):", new="        if not -(2 ** (encoding.ADDRESS_BITS)) <= self.address < 2 ** (\n            encoding.ADDRESS_BITS\n        ):"),
    dict(id="c16-readback-dropped", file=E, expect="C16.G", construct="RegImmImmInstruction.imm0",
         old="            if isinstance(value, int) and getattr(self, name) != value:\n                raise ValueError(", new="            if isinstance(value, int) and getattr(self, name) != value and False:\n                raise ValueError("),
    dict(id="c16-readback-log-only", file=E, expect="C16.G", construct="ImmInstruction.imm",
         old="                raise ValueError(\n                    f\"command {self.__class__.__name__}: {name}={value} cannot be encoded\"\n                )", new="                print(\n                    f\"command {self.__class__.__name__}: {name}={value} cannot be encoded\"\n                )"),
    dict(id="c16-positional-bypass", file="netqasm/lang/instr/base.py", expect="C16.G", construct="ImmInstruction.imm",
         old="c_struct = encoding.ImmCommand(id=self.id, imm=self.imm.value)", new="c_struct = encoding.ImmCommand(self.id, self.imm.value)"),
    dict(id="c16-appid-guard", file="netqasm/lang/subroutine.py", expect="C16.G", construct="app_id",
         old="if not 0 <= self.app_id < 2**16:", new="if not 0 <= self.app_id < 2**32:"),
    dict(id="c16-bitfield-narrowed", expect="C16.G", construct="operand.Register.index",
         edits=[(OP, "if not 0 <= self.index < 2**encoding.REG_INDEX_BITS:", "if not 0 <= self.index < 16:"), (E, "REG_INDEX_BITS = 4", "REG_INDEX_BITS = 3")]),
]
BENIGN = [
    dict(id="c16-benign-guard-form", file=OP,
         old="if not 0 <= self.index < 2**encoding.REG_INDEX_BITS:", new="if self.index < 0 or self.index > 2**encoding.REG_INDEX_BITS - 1:"),
    dict(id="c16-benign-assert-form", file="netqasm/lang/subroutine.py",
         old="        if not 0 <= self.app_id < 2**16:\n            raise ValueError(f\"app ID {self.app_id} cannot be encoded\")", new="        assert 0 <= self.app_id <= 65535, \"app ID cannot be encoded\""),
]
