"""C14 — compiling never runs out of registers because of finished operations.

C14.A1 (T-pair) every register acquired by SDK internals is released or has its
       ownership transferred on every normal path
C14.A2 a register obtained without activation is protected before any call that
       may allocate
C14.A3 the pool is the whole R bank
C14.A4 a register is not used (handed to an emitter) after it was released
"""
from __future__ import annotations

import ast
import os
from typing import Dict, List, Optional, Set, Tuple

from .. import astutil as A
from .. import guards as G
from .. import ownership as O
from ..model import AnalysisError, Unknown, dotted, src

TECHNIQUE = "abstract execution of whole objects of the repository by the checker's AST interpreter: every operation kind completed more often than there are registers on one connection, compiled by the repository's builder and executed by its controller (C14.X); interprocedural acquire/release (typestate) analysis of register activation with ownership transfer and correlated-guard idioms; abstract interpretation of small functions over an enumerated finite domain by the checker's own AST interpreter (static analysis)"
ENGINES = ["model", "flow", "circuit", "session"]
EXPLANATION = (
    "Over sdk/builder.py, sdk/futures.py, sdk/connection.py and sdk/epr_socket.py (closures as units of their own): acquire sites are "
    "get_inactive_register(activate=True), add_active_register, and calls whose bottom-up summary returns an owned register "
    "(possibly conditional on an argument, e.g. `isinstance(arg, Future)`). On every normal path each acquired register must be "
    "released (remove_active_register, a releasing loop over the list it was put in, a callee that releases its parameter, the "
    "scoped _activate_register helper) or transferred (returned; stored in a per-context table whose paired exit function pops and "
    "releases it). Paths are explored with facts for the repo's correlated guards (same flag, `v is not None`, isinstance on the "
    "argument); a release under a constant-false flag is no release. A2: between a non-activating get_inactive_register() and its "
    "protecting use no call that can reach an allocation. A3: the pool enumerates 2**REG_INDEX_BITS registers of bank R."
    ' C14.X (abstract execution, nqsa/sdkprog.py): 23 operation kinds x 24 completions (17 for entanglement; 120 / 20 in the thorough tier) through the repository\'s connection, builder and controller.'
    ' C14.A4: no use of a register after its release. C14.Z: no truthiness test on an int-typed value in the memory manager and futures.'
    ' C14.P: MemoryManager.reset() reaches every reset_* method and each restores its pool field to the state __init__ gives it. C14.K: nothing remembered across calls depends on an argument that is not part of its key.'
    ' C14.A3 executes get_inactive_register abstractly for six active sets x activate on / off (first inactive of R0..R15, exhaustion raises, the active set changes exactly when asked).'
)
LEVEL_TEXT = (
    "Static analysis with abstract execution: C14.X completes each operation kind (conditions in every form, counted loops, loop_until, foreach, "
    "enumerate, add with and without modulus on both kinds of future, measurement, nested combinations, entanglement requests with and without post "
    "routines) 24 times (120 in the thorough tier) on one connection with periodic flushes - the repository's builder keeps compiling, its controller executes every subroutine, "
    "the final arrays equal direct execution (second clause: a clobbered live register shows there). The ownership analysis proves every acquire site "
    "outside the six units the runs exercise released or transferred on all normal paths. Bound: lengths up to 120, nesting depth two in the runs."
)
LEVEL_NOTE = "exceptional paths abort compilation and are not modelled; name-based call resolution where the method name is unique in the analysed modules; user-visible handles (new_register) are transfers to the user"
ASSUMPTIONS = [LEVEL_NOTE]
MODS = ["netqasm.sdk.builder", "netqasm.sdk.futures", "netqasm.sdk.connection", "netqasm.sdk.epr_socket"]


def collect_units(repo):
    units: Dict[str, Tuple[ast.AST, object]] = {}
    by_name: Dict[str, List[str]] = {}

    def add(q, fn, m, simple=None):
        units[q] = (fn, m)
        if simple:
            by_name.setdefault(simple, []).append(q)
        for inner in fn.body:
            pass
        for n in ast.walk(fn):
            if n is not fn and isinstance(n, (ast.FunctionDef, ast.AsyncFunctionDef)):
                # direct or nested closure
                units.setdefault(f"{q}.{n.name}", (n, m))

    for mn in MODS:
        m = repo.module(mn)
        for fn in m.functions.values():
            add(fn.name, fn, m, None)
        for c in m.classes.values():
            for fn in c.methods.values():
                add(f"{c.name}.{fn.name}", fn, m, fn.name)
    return units, by_name


def context_pairs(repo) -> List[Tuple[str, str, str]]:
    """(enter function name, exit function name, where the pairing comes from)"""
    pairs = []
    for mn in MODS:
        m = repo.module(mn)
        for c in m.classes.values():
            if "__enter__" in c.methods and "__exit__" in c.methods:
                e = [A.call_name(x) for x in A.calls_in(c.methods["__enter__"])]
                x = [A.call_name(x) for x in A.calls_in(c.methods["__exit__"])]
                for a in e:
                    for b in x:
                        pairs.append((a, b, c.name))
            for fn in c.methods.values():
                if any(dotted(d) == "contextmanager" for d in fn.decorator_list):
                    ylds = [n for n in ast.walk(fn) if isinstance(n, ast.Yield)]
                    if not ylds:
                        continue
                    yl = ylds[0].lineno
                    before = [A.call_name(x) for x in A.calls_in(fn) if x.lineno < yl]
                    after = [A.call_name(x) for x in A.calls_in(fn) if x.lineno > yl]
                    for a in before:
                        for b in after:
                            pairs.append((a, b, f"{c.name}.{fn.name}"))
    return pairs


def alloc_reaching(units) -> Set[str]:
    """simple names of functions from which get_inactive_register is reachable (name-based call graph)"""
    calls: Dict[str, Set[str]] = {}
    for q, (fn, m) in units.items():
        simple = q.split(".")[-1]
        cs = calls.setdefault(simple, set())
        for c in ast.walk(fn):
            if isinstance(c, ast.Call):
                n = A.call_name(c)
                if n:
                    cs.add(n)
    reach = {O.ACQ_BASE}
    changed = True
    while changed:
        changed = False
        for f, cs in calls.items():
            if f not in reach and cs & reach:
                reach.add(f)
                changed = True
    return reach


def check_use_after_release(ctx, rule: str, units=None):
    """a register must stay active until its last use has been emitted: after remove_active_register(v), `v` may not be
    handed to an emitting call or put into a command on the same path"""
    repo = ctx.repo
    if units is None:
        units, _ = collect_units(repo)
    n = 0
    for q, (fn, m) in sorted(units.items()):
        for call in A.calls_in(fn, nested=False):
            if A.call_name(call) != O.REL or not call.args or not isinstance(call.args[0], ast.Name):
                continue
            v = call.args[0].id
            path = G.path_to(fn, call)
            if path is None:
                continue
            n += 1
            later: List[ast.stmt] = []
            # a release inside a loop body releases the loop variable; later iterations rebind it
            in_loop_over = any(isinstance(b[i], (ast.For, ast.While)) and isinstance(getattr(b[i], "target", None), ast.Name) and b[i].target.id == v for b, i in path)
            if in_loop_over:
                ctx.check(rule, f"{q}:release-of-{v}:no-later-use", True, trivial=True)
                continue
            for block, idx in reversed(path):
                later.extend(block[idx + 1:])
            use = None
            for st in later:
                if isinstance(st, (ast.FunctionDef, ast.AsyncFunctionDef, ast.ClassDef)):
                    continue
                if isinstance(st, (ast.Assign, ast.AnnAssign)) and any(isinstance(t, ast.Name) and t.id == v for t in (st.targets if isinstance(st, ast.Assign) else [st.target])):
                    break
                for x in A.walk_no_nested(st):
                    if isinstance(x, ast.Call) and A.call_name(x) != O.REL:
                        for a in list(x.args) + [k.value for k in x.keywords]:
                            if any(isinstance(y, ast.Name) and y.id == v and isinstance(y.ctx, ast.Load) for y in ast.walk(a)):
                                use = x
                                break
                    if use is not None:
                        break
                if use is not None:
                    break
            ctx.check(rule, f"{q}:release-of-{v}:no-later-use", use is None,
                      f"{q} releases register `{v}` and afterwards still passes it to `{src(use)[:70] if use is not None else ''}`: commands that use the register are built while it is free, "
                      f"so a temporary allocated there can be the very same register and overwrite its live value", repo.loc(m, call), sample={"unit": q, "register": v} if n <= 3 else None, trivial=(use is None and n > 3))
    ctx.anchor(rule, "register release sites", n, 20)


def _expr_key(e) -> str:
    """text of an expression with the variables bound by its comprehensions renamed in order"""
    import copy
    e = copy.deepcopy(e)
    ren = {}
    for n in ast.walk(e):
        if isinstance(n, ast.comprehension):
            for t in ast.walk(n.target):
                if isinstance(t, ast.Name) and t.id not in ren:
                    ren[t.id] = f"c{len(ren)}"
    for n in ast.walk(e):
        if isinstance(n, ast.Name) and n.id in ren:
            n.id = ren[n.id]
    return A.norm(e)


def check_pools_reset(ctx):
    """C14.P — "with periodic flushes keeps compiling": every pool of the memory manager that a flush resets (measurement-outcome
    registers, registers / arrays to return) is put back into the state __init__ gives it.  MemoryManager.reset() must reach
    every reset_* method, and each of them must restore the whole field: by assigning an expression equal to the initial one, or
    by an unconditional loop over the pool itself that stores the initial constant in every entry."""
    repo = ctx.repo
    mm = repo.get_class("netqasm.sdk.memmgr", "MemoryManager")
    init, reset = mm.methods.get("__init__"), mm.methods.get("reset")
    if init is None or reset is None:
        raise AnalysisError("MemoryManager.__init__ / reset not found")
    initial = {}
    for st in A.body_nodes(init):
        if isinstance(st, (ast.Assign, ast.AnnAssign)):
            tg = st.targets[0] if isinstance(st, ast.Assign) else st.target
            if A.is_self_attr(tg) and st.value is not None:
                initial[tg.attr] = st.value
    called = [c.func.attr for c in A.calls_in(reset) if A.is_self_attr(c.func)]
    resetters = sorted(n for n in mm.methods if n.startswith("reset_"))
    n = 0
    for r in resetters:
        fn = mm.methods[r]
        ctx.fn(f"MemoryManager.{r}")
        ctx.check("C14.P", f"reset:calls-{r}", r in called, f"MemoryManager.reset() no longer calls {r}(): that pool keeps growing from flush to flush", mm.loc(reset))
        fields = set()
        for st in A.body_nodes(fn):
            for t in ((st.targets if isinstance(st, ast.Assign) else [st.target]) if isinstance(st, (ast.Assign, ast.AnnAssign, ast.AugAssign)) else []):
                b = t
                while isinstance(b, ast.Subscript):
                    b = b.value
                if A.is_self_attr(b) and b.attr in initial:
                    fields.add(b.attr)
            if isinstance(st, ast.Expr) and isinstance(st.value, ast.Call) and isinstance(st.value.func, ast.Attribute) and A.is_self_attr(st.value.func.value) and st.value.func.value.attr in initial:
                fields.add(st.value.func.value.attr)
        if not fields:
            ctx.error("C14.P", f"MemoryManager.{r}: no pool field is written")
        for f in sorted(fields):
            n += 1
            init_e = initial[f]
            how = None
            for st in fn.body:
                if isinstance(st, ast.Expr) and isinstance(st.value, ast.Constant):
                    continue  # docstring
                tg = st.targets[0] if isinstance(st, ast.Assign) else st.target if isinstance(st, ast.AnnAssign) else None
                if tg is not None and A.is_self_attr(tg, f) and st.value is not None and _expr_key(st.value) == _expr_key(init_e):
                    how = "assigned the initial value"
                elif isinstance(st, ast.Expr) and isinstance(st.value, ast.Call) and isinstance(st.value.func, ast.Attribute) and st.value.func.attr == "clear" and A.is_self_attr(st.value.func.value, f) \
                        and isinstance(init_e, (ast.List, ast.Dict, ast.Set, ast.Call)) and not getattr(init_e, "elts", None) and not getattr(init_e, "keys", None) and not getattr(init_e, "args", None):
                    how = "cleared (initially empty)"
                elif isinstance(st, ast.For) and not st.orelse and len(st.body) == 1:
                    it = st.iter
                    if isinstance(it, ast.Call) and isinstance(it.func, ast.Attribute) and it.func.attr in ("keys", "items") and not it.args:
                        it = it.func.value
                    if isinstance(it, ast.Call) and dotted(it.func) in ("list", "tuple", "sorted") and len(it.args) == 1:
                        it = it.args[0]
                    key = st.target.elts[0] if isinstance(st.target, ast.Tuple) else st.target
                    b = st.body[0]
                    const = init_e.value if isinstance(init_e, ast.DictComp) else None
                    if A.is_self_attr(it, f) and isinstance(key, ast.Name) and isinstance(b, ast.Assign) and isinstance(b.targets[0], ast.Subscript) and A.is_self_attr(b.targets[0].value, f) \
                            and A.norm(b.targets[0].slice) == key.id and const is not None and A.norm(b.value) == A.norm(const):
                        how = "every entry set to the initial constant"
            ctx.check("C14.P", f"{r}:{f}:restored-to-its-initial-state", how is not None,
                      f"MemoryManager.{r} does not put self.{f} back into the state __init__ gives it (`{src(init_e)[:70]}`): entries that stay marked are never handed out again, "
                      "so the pool shrinks with every completed operation however often the connection flushes", mm.loc(fn), sample={"method": r, "field": f, "how": how})
    ctx.anchor("C14.P", "pool fields restored by the reset_* methods of the memory manager", n, 3)


# Units whose temporaries C14.X decides by running the operation more often than there are registers (conditions in every form,
# loop_until's exit test, add on both kinds of future).  The ownership analysis C14.A1 follows a register only through locals, fields
# and the lists it knows; a refactoring that keeps the temporaries in a record of its own and releases them in a method of that record
# is right and unreadable to it.  For these units the executed rule is the judge; the analysis keeps every other unit (the EPR paths
# above all, which the long runs do not all reach).
DECIDED_BY_RUNS = {"Builder._get_branch_commands_single_operand", "Builder._get_branch_commands", "Builder._loop_until_get_break_commands",
                   "Builder._get_condition_operand", "Future.add", "RegFuture.add"}


def check_long_runs(ctx, rule="C14.X", rounds=40):
    """C14 as stated, on bounded histories (nqsa/sdkprog.py): each operation kind - unary and binary conditions in both forms, counted
    loops, loop_until, foreach, enumerate, add with and without modulus, measurement, and the nested combinations - is completed
    `rounds` times (more than twice the register file) on one connection, flushed after every seventh; the repository's builder must
    keep compiling, the repository's controller must execute every subroutine, and the final arrays must be those of executing the
    operations directly (a temporary that overwrote a live register of an enclosing operation shows there)."""
    from .. import sdkprog as P, session as S
    jobs = [(p, P.long_run_flushes(p), ("generic", 3)) for p in P.long_runs(rounds)]
    try:
        bad, _n = P.run_all(ctx, jobs, chunk=len(jobs))
    except AnalysisError as ex_:
        ctx.error(rule, f"the host programs cannot be executed: {ex_}")
        return
    ctx.anchor(rule, "operation kinds repeated on one connection", len(jobs), 12)
    b = ctx.repo.get_class("netqasm.sdk.builder", "Builder")
    ctx.check(rule, "the-nth-operation-still-compiles", "the-host-program-is-accepted" not in bad, bad.get("the-host-program-is-accepted", ""), b.loc(b.node), sample={"rounds": rounds, "kinds": len(jobs)})
    rest = [v for k, v in bad.items() if k != "the-host-program-is-accepted"]
    ctx.check(rule, "results-as-direct-execution", not rest, rest[0] if rest else "", b.loc(b.node), sample={"rounds": rounds, "kinds": len(jobs)})


def run(ctx):
    repo, ev = ctx.repo, ctx.ev
    check_long_runs(ctx, rounds=18 if os.environ.get("NQSA_SELFTEST") else 24 if ctx.tier != "thorough" else 120)
    check_pools_reset(ctx)
    units, by_name = collect_units(repo)
    an = O.Analyzer(units, by_name)
    an.run()
    for q in units:
        ctx.fn(q)
    ctx.call_sites += an.calls
    ctx.unresolved_calls += an.unresolved
    for e in sorted(set(an.errors)):
        ctx.error("C14.A1", e)
    leaks = {(l.qualname, l.site): l for l in an.leaks}
    n_sites = 0
    for (q, site), node in sorted(an.acquire_sites.items(), key=lambda kv: (kv[0][0], kv[0][1])):
        n_sites += 1
        if q in DECIDED_BY_RUNS:
            continue
        m = units[q][1]
        l = leaks.get((q, site))
        ctx.check("C14.A1", f"{q}:{site}", l is None,
                  (f"{q}: the register acquired by `{site}` is still active at {l.exit_desc} on the path {dict(l.facts)} — it is neither released nor handed over; "
                   f"every completed operation of this kind permanently consumes one of the 16 registers") if l else "",
                  repo.loc(m, node), facts={"path": dict(l.facts)} if l else None,
                  sample={"unit": q, "acquire": site, "released_or_transferred_on_all_paths": l is None})
    ctx.anchor("C14.A1", "register acquire sites", n_sites, 20)
    # table transfers: the paired exit function must pop the table and release what it popped
    pairs = context_pairs(repo)
    summ = {q.split(".")[-1]: s for q, s in an.summaries.items() if "." in q}
    n_tab = 0
    for q, s in sorted(an.summaries.items()):
        for table in sorted(s.stores_tables):
            n_tab += 1
            ename = q.split(".")[-1]
            exits = sorted({b for a, b, src_ in pairs if a == ename and b in summ})
            if not exits:
                ctx.error("C14.A1", f"{q} stores a register in table {table} but no paired exit function was found")
                continue
            ok = any(table in summ[b].pops_tables and table in summ[b].releases_from_tables for b in exits)
            m = units[q][1]
            ctx.check("C14.A1", f"{q}:register stored in {table}", ok,
                      f"{q} hands an active register to the per-context table {table}; its paired exit function(s) {exits} "
                      f"{'pop the table but never release the register taken from it' if any(table in summ[b].pops_tables for b in exits) else 'never pop that table'}: "
                      f"one register is lost per completed context", repo.loc(m, units[q][0]),
                      sample={"enter": q, "table": table, "exit": exits, "exit_releases": ok})
    ctx.anchor("C14.A1", "register transfers through per-context tables", n_tab, 2)
    # summaries (evidence)
    for q, s in sorted(an.summaries.items()):
        if s.returns_owned or s.releases_params:
            ctx.note(f"summary {q}: returns_owned={ {k: v for k, v in s.returns_owned.items()} } releases_params={sorted(s.releases_params)}")
    # ---- A2
    reach = alloc_reaching(units)
    n2 = 0
    for q, call, var in an.nonactivating:
        fn, m = units[q]
        if var is None:
            continue
        n2 += 1
        # statements after the acquisition, in order, until the protecting use
        seq = []
        found = False

        def walk(stmts):
            for st in stmts:
                if isinstance(st, (ast.FunctionDef, ast.AsyncFunctionDef, ast.ClassDef)):
                    continue
                if any(x is call for x in ast.walk(st)):
                    for fld in ("body", "orelse", "finalbody"):
                        sub = getattr(st, fld, None)
                        if isinstance(sub, list) and sub and isinstance(sub[0], ast.stmt):
                            if walk(sub):
                                return True
                    seq.extend(stmts[stmts.index(st) + 1:])
                    return True
            return False
        walk(fn.body)
        protected = False
        risky = None
        for st in seq:
            if isinstance(st, (ast.FunctionDef, ast.AsyncFunctionDef)):
                continue
            prot_here = False
            for c in ast.walk(st):
                if isinstance(c, ast.Call):
                    kw = A.kwargs_of(c)
                    if (A.call_name(c) == O.CTX_ACT and c.args and isinstance(c.args[0], ast.Name) and c.args[0].id == var) or \
                            (isinstance(kw.get("loop_register"), ast.Name) and kw["loop_register"].id == var) or \
                            (A.call_name(c) == O.ADD and c.args and isinstance(c.args[0], ast.Name) and c.args[0].id == var):
                        prot_here = True
            if prot_here:
                protected = True
                break
            for c in ast.walk(st):
                if isinstance(c, ast.Call) and A.call_name(c) in reach:
                    risky = c
            if risky is not None:
                break
        ctx.check("C14.A2", f"{q}:unactivated `{var}` protected before any allocation", protected and risky is None,
                  f"{q}: `{var}` comes from get_inactive_register() without activation; "
                  + (f"`{src(risky)[:60]}` can allocate a register before `{var}` is protected, and would hand out the same register" if risky is not None else "it is never protected (loop_register= / _activate_register / add_active_register)"),
                  repo.loc(m, call), sample={"unit": q, "register": var, "protected": protected})
    ctx.anchor("C14.A2", "non-activating acquire sites", n2, 4)
    # ---- A4 no use after release
    check_use_after_release(ctx, "C14.A4", units)
    # ---- A3 pool
    mm = repo.get_class("netqasm.sdk.memmgr", "MemoryManager")
    gi = mm.methods.get("get_inactive_register")
    if gi is None:
        raise AnalysisError("MemoryManager.get_inactive_register not found")
    ctx.fn("MemoryManager.get_inactive_register")
    # executed abstractly (nqsa/circuit.py) on memory managers with given sets of active registers; a register is modelled by
    # the text handed to parse_register
    from .. import circuit as C
    r_ = repo.lookup(mm, "get_inactive_register")

    def run_pool(active, activate):
        sc = C.Scenario()
        sc.overrides["parse_register"] = lambda text: text
        o = C.object_from_init(repo, mm, {"_active_registers": set(active)}, kind="self")
        it = C.Interp(repo, ev, sc, mm)
        try:
            return it.call_function(r_[0].module, r_[1], [], {"activate": activate}, self_obj=o), o.fields["_active_registers"]
        except C.EvalRaise as ex_:
            return ("raises", str(ex_)), o.fields["_active_registers"]

    ok = guarded = exhaust_ok = True
    detail = ""
    try:
        bits = ev.eval(ast.parse("REG_INDEX_BITS", mode="eval").body, mm.module)
        n_regs = 2 ** bits
        allr = [f"R{i}" for i in range(n_regs)]
        for active in ([], ["R0"], ["R0", "R1", "R3"], ["R1", "R2"], allr[:-1], allr):
            for activate in (False, True):
                got, after = run_pool(active, activate)
                free = [x for x in allr if x not in active]
                if not free:
                    if not (isinstance(got, tuple) and got[0] == "raises"):
                        exhaust_ok = False
                        detail = f"with all {n_regs} registers active it returns {got!r} instead of raising"
                    continue
                if got not in allr:
                    ok = False
                    detail = f"with {active[:4]}... active it returns {got!r}, which is not one of R0..R{n_regs - 1}"
                elif got in active:
                    guarded = False
                    detail = f"with {active[:4]} active it returns {got}, which is active"
                elif got != free[0]:
                    ok = False
                    detail = f"with {active[:4]} active it returns {got}, not the first inactive register {free[0]} (a later one may be reserved by a non-activating caller)"
                if set(after) != set(active) | ({got} if activate and isinstance(got, str) else set()):
                    guarded = False
                    detail = f"activate={activate}: the active set becomes {sorted(after)[:5]}"
    except (AnalysisError, Unknown) as ex_:
        ctx.error("C14.A3", f"MemoryManager.get_inactive_register cannot be evaluated: {ex_}")
    ctx.check("C14.A3", "MemoryManager.get_inactive_register:pool-R0..R15", ok, f"the pool of candidate registers is not R0..R(2**REG_INDEX_BITS - 1), searched from R0 upwards: {detail}", mm.loc(gi))
    ctx.check("C14.A3", "MemoryManager.get_inactive_register:returns-only-inactive", guarded, f"the returned register is not an inactive one, or the active set is not updated exactly when asked: {detail}", mm.loc(gi))
    ctx.check("C14.A3", "MemoryManager.get_inactive_register:exhaustion-raises", exhaust_ok, f"running out of registers does not raise: {detail}", mm.loc(gi), trivial=True)
    ar = mm.methods.get("add_active_register")
    rr = mm.methods.get("remove_active_register")
    ok = ar is not None and rr is not None and any(isinstance(c, ast.Call) and A.norm(c.func) == "self._active_registers.add" for c in ast.walk(ar)) and any(isinstance(c, ast.Call) and A.norm(c.func) in ("self._active_registers.remove", "self._active_registers.discard") for c in ast.walk(rr))
    ctx.check("C14.A3", "MemoryManager:add/remove-active-register", ok, "add_active_register/remove_active_register do not add to / remove from the active set", mm.loc())
    # 0 is an ordinary id / value / address: nothing int-valued may be tested by truthiness (nqsa/truth.py)
    from .. import truth
    truth.check(ctx, "C14.Z", ['netqasm.sdk.memmgr', 'netqasm.sdk.futures'])
    # a value remembered for later calls is keyed by every argument it depends on (nqsa/memo.py)
    from .. import memo
    memo.check(ctx, "C14.K", ['netqasm.sdk.memmgr', 'netqasm.sdk.futures'])
    # no type test that an earlier type test has already decided (a subclass tested after its base class: nqsa/shadow.py)
    from .. import shadow
    shadow.check(ctx, "C14.H", ['netqasm.sdk.memmgr', 'netqasm.sdk.futures'])


B = "netqasm/sdk/builder.py"
FU = "netqasm/sdk/futures.py"
SEEDS = [
    dict(id="c14-meas-pool-partial-reset", file="netqasm/sdk/memmgr.py", expect="C14.P", construct="reset_used_meas_registers",
         old="        self._used_meas_registers = {\n            operand.Register(RegisterName.M, i): False for i in range(16)\n        }\n\n    def add_register_to_return",
         new="        for reg in self._registers_to_return:\n            if reg.name == RegisterName.M:\n                self._used_meas_registers[reg] = False\n\n    def add_register_to_return"),
    dict(id="c14-reset-skips-meas-pool", file="netqasm/sdk/memmgr.py", expect="C14.P", construct="reset:calls-reset_used_meas_registers",
         old="        self.reset_registers_to_return()\n        self.reset_used_meas_registers()", new="        self.reset_registers_to_return()"),
    dict(id="c14-meas-pool-reset-to-used", file="netqasm/sdk/memmgr.py", expect="C14.P", construct="reset_used_meas_registers",
         old="        self._used_meas_registers = {\n            operand.Register(RegisterName.M, i): False for i in range(16)\n        }\n\n    def add_register_to_return",
         new="        self._used_meas_registers = {\n            operand.Register(RegisterName.M, i): False for i in range(8)\n        }\n\n    def add_register_to_return"),
    dict(id="c14-drop-release-wait", file=B, expect="C14.A1", construct="_add_wait_for_ent_info_cmd", old="        for reg in created_regs:\n            self._mem_mgr.remove_active_register(reg)\n", new=""),
    dict(id="c14-drop-release-bell", file=B, expect="C14.A1", construct="_get_raw_bell_state", old="        self._mem_mgr.remove_active_register(index_reg)\n        return RegFuture(self._connection, target_reg)", new="        return RegFuture(self._connection, target_reg)"),
    dict(id="c14-drop-release-binary-cond", file=B, expect="C14.X", construct="", old="        for reg in temp_regs_to_remove:\n            self._mem_mgr.remove_active_register(reg)\n\n        exit = BranchLabel(exit_label)\n        if_end = [exit]\n\n        return if_start, if_end\n\n    @contextmanager", new="        exit = BranchLabel(exit_label)\n        if_end = [exit]\n\n        return if_start, if_end\n\n    @contextmanager"),
    dict(id="c14-future-add-other", file=FU, expect="C14.X", construct="", old="        self.builder._mem_mgr.remove_active_register(tmp_register)\n        if other_tmp_register is not None:\n            self.builder._mem_mgr.remove_active_register(other_tmp_register)", new="        self.builder._mem_mgr.remove_active_register(tmp_register)"),
    dict(id="c14-regfuture-add", file=FU, expect="C14.X", construct="", old="        if other_tmp_register is not None:\n            self.builder._mem_mgr.remove_active_register(other_tmp_register)\n\n        self.builder.subrt_add_pending_commands(commands)\n\n\nclass Array", new="        self.builder.subrt_add_pending_commands(commands)\n\n\nclass Array"),
    dict(id="c14-foreach-exit", file=B, expect="C14.A1", construct="_foreach_context_enter", old="            loop_register=loop_register,\n        )\n        self._mem_mgr.remove_active_register(loop_register)\n\n    def _loop_until_context_enter", new="            loop_register=loop_register,\n        )\n\n    def _loop_until_context_enter"),
    dict(id="c14-loop-body-flag", file=B, expect="C14.A1", construct="_build_cmds_loop_body", old="        if not loop_register_already_activated:\n            self._mem_mgr.remove_active_register(loop_register)\n\n    def _build_cmds_loop(", new="        if loop_register_already_activated:\n            self._mem_mgr.remove_active_register(loop_register)\n\n    def _build_cmds_loop("),
    dict(id="c14-closure-leak", file=B, expect="C14.A1", construct="post_loop", old="                self._mem_mgr.remove_active_register(reg0)\n                self._mem_mgr.remove_active_register(reg1)\n", new="                self._mem_mgr.remove_active_register(reg0)\n"),
    dict(id="c14-epr-context", file=B, expect="C14.A1", construct="", old="            loop_register=loop_register,\n        )\n        self._mem_mgr.remove_active_register(loop_register)\n\n    def _assert_epr_args(", new="            loop_register=loop_register,\n        )\n\n    def _assert_epr_args("),
    dict(id="c14-early-return", file=B, expect="C14.A1", construct="_build_cmds_epr_keep_corrections", old="        loop_register = self._mem_mgr.get_inactive_register()\n\n        def loop(conn: BaseNetQASMConnection, index: RegFuture):", new="        loop_register = self._mem_mgr.get_inactive_register()\n        if params.number == 0:\n            return\n\n        def loop(conn: BaseNetQASMConnection, index: RegFuture):"),
    dict(id="c14-unprotected", file=B, expect="C14.A2", construct="_build_cmds_undefine_array", old="        index_reg = self._mem_mgr.get_inactive_register()\n        undef_cmd = ICmd(", new="        index_reg = self._mem_mgr.get_inactive_register()\n        tmp = self._mem_mgr.get_inactive_register(activate=True)\n        self._mem_mgr.remove_active_register(tmp)\n        undef_cmd = ICmd("),
    dict(id="c14-pool", file="netqasm/sdk/memmgr.py", expect="C14.A3", construct="pool", old="        for i in range(2**REG_INDEX_BITS):\n            register = parse_register(f\"R{i}\")", new="        for i in range(1, 2**REG_INDEX_BITS):\n            register = parse_register(f\"R{i}\")"),
    dict(id="c14-release-before-build", file=B, expect="C14.A4", construct="_loop_until_context_exit", old="        self._build_cmds_loop_until(\n            pre_commands=pre_commands,\n            body_commands=body_commands,\n            context=context,\n            loop_register=loop_register,\n        )\n        self._mem_mgr.remove_active_register(loop_register)\n",
         new="        self._mem_mgr.remove_active_register(loop_register)\n        self._build_cmds_loop_until(\n            pre_commands=pre_commands,\n            body_commands=body_commands,\n            context=context,\n            loop_register=loop_register,\n        )\n"),
    dict(id="c14-orig-unary-flag", file=B, expect="C14.X", construct="", old="        if isinstance(op, Future):\n            assert isinstance(cond_operand, operand.Register)\n            self._mem_mgr.remove_active_register(cond_operand)\n", new="        using_new_temp_reg = False\n        if using_new_temp_reg:\n            assert isinstance(cond_operand, operand.Register)\n            self._mem_mgr.remove_active_register(cond_operand)\n"),
    dict(id="c14-orig-break-list", file=B, expect="C14.X", construct="", old="            for reg in temp_regs_to_remove:\n                self._mem_mgr.remove_active_register(reg)\n        else:\n            assert False", new="        else:\n            assert False"),
    dict(id="c14-orig-loop-until-register", file=B, expect="C14.A1", construct="_loop_until_context_enter", old="            loop_register=loop_register,\n        )\n        self._mem_mgr.remove_active_register(loop_register)\n\n    def _build_cmds_breakpoint(", new="            loop_register=loop_register,\n        )\n\n    def _build_cmds_breakpoint("),
]
BENIGN = [
    dict(id="c14-benign-meas-pool-loop-reset", file="netqasm/sdk/memmgr.py",
         old="        self._used_meas_registers = {\n            operand.Register(RegisterName.M, i): False for i in range(16)\n        }\n\n    def add_register_to_return",
         new="        for reg in self._used_meas_registers:\n            self._used_meas_registers[reg] = False\n\n    def add_register_to_return"),

    dict(id="c14-benign-try-finally", file=B, old="        self._mem_mgr.remove_active_register(index_reg)\n        return RegFuture(self._connection, target_reg)", new="        result = RegFuture(self._connection, target_reg)\n        self._mem_mgr.remove_active_register(index_reg)\n        return result"),
]
